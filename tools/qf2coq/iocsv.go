package main

// Translation of internal/io/csv.go (ReadCSV above the scanner) into Gallina (coq/Gen/GenIoCsv.v, tie T1 for
// C12 / C13 / C17).
//
// The functions listed in gioSpecs are translated statement by statement into definitions gio_<name>, the structs
// bytePointer and CSVConfig into records.  coq/Proofs/GenIoCsvProofs.v proves every generated definition equal to
// the hand-written model of coq/Model/CsvRead.v (the one the csv engine executes), so that an edit of csv.go changes
// the generated text and breaks a named theorem T1_iocsv_<name> of coq/Properties/T1IoCsv.v.
//
// THE SCHEME (anything that does not fit is reported through problem(...); the block then keeps the text of the
// golden copy, marked FALLBACK, so that the development still builds — the exit status says the tie is broken).
//
//	scanner     THE ABSTRACTION BOUNDARY below.  fastcsv.Reader is a value of an arbitrary type Rd, the io.Reader an
//	            arbitrary type IO, with the vocabulary (section variables)
//	              fastcsv.NewReader(x, d) -> rd_new x d    : outcome Rd
//	              r.Next()                -> rd_next r     : outcome (bool * Rd)
//	              r.Read()                -> rd_read r     : outcome (list bytes * gio_error * Rd)
//	              r.Fields()              -> rd_fields r   : list bytes   (the VALUES of the fields: they are copied
//	                                                          by append(.., col...) / string(..) before the next call)
//	              r.Err()                 -> rd_err r      : gio_error
//	            GenIoCsvProofs.v instantiates them with the translated scanner gv_* of Gen/GenFastCsv.v.
//	parsers     strings.ParseInt / ParseFloat / ParseBool are parse_int : bytes -> option Z, parse_float : bytes ->
//	            option N (bit pattern), parse_bool : bytes -> option bool, arbitrary (the model's oracle tables):
//	            x, err := strings.ParseInt(b) -> (x, err) := gio_ParseInt b  (None = a non-nil error, x = 0).
//	enum        ecolumn's factory is an arbitrary type Fac with fac_new : list bytes -> Z -> Fac * gio_error,
//	            fac_append_nil : Fac -> Fac, fac_append_bs : Fac -> bytes -> gio_error * Fac, fac_to_column : Fac -> ECol.
//	errors      gio_error = gio_nil | gio_some: qerrors.New(..) and qerrors.Propagate(..) answer gio_some (they build
//	            a struct value, never nil; their message arguments must be panic-free and are dropped).
//	interface{} the value ReadCSV hands out per column is the tagged union gio_data: gio_d_nil (nil), gio_d_ncolumn
//	            (ncolumn.Column{}), gio_d_ints / gio_d_floats / gio_d_bools ([]int / []float64 / []bool),
//	            gio_d_blob p d (strings.StringBlob{Pointers: p, Data: d}), gio_d_enum (factory.ToColumn()).
//	            strings.NewPointer(o, l, n) is the triple (o, l, n) (its bit packing is gf_strings_NewPointer of
//	            GenFuncs.v); math.NaN() is gio_NaN; fmt.Sprint(int) is itoa of Model/CsvWrite.v.
//	strings     string and the []byte VALUES delivered by the scanner / cut out of a blob are bytes = list N;
//	            == is bytes_eqb, + is ++, a literal is its bytes, string(b) is b.  types.DataType is string; the
//	            constants of /repo/types are generated as gio_c_types_<Name>.
//	slices      []byte and []bytePointer (the per column buffers, whose capacity the code asks for) are
//	            gio_cs T = (list T * Z): value and capacity.  make([]T, 0, c) = ([], c) (Panic when c < 0);
//	            append within the capacity keeps it, beyond it the new capacity is grow (old capacity) (needed
//	            length), grow ARBITRARY; cap(x) = the second component; x[lo:hi] is the value (Panic outside
//	            0 <= lo <= hi <= len, where Go allows hi up to cap).  All other slices ([]string, [][]byte,
//	            [][]bytePointer, []int, ..) are plain lists: make([]T, n) = n zero values, make([]T, 0, c) = []
//	            (Panic when negative), x[i] / x[i] = v panic outside the length.  Aliasing is abstracted: a slice
//	            (map) argument that the callee writes through (x[i] = v, delete, a call that does) is threaded:
//	            its final value is answered after the results and stored back at the call site; headers :=
//	            conf.Headers copies the value (ReadCSV DOES overwrite elements of the caller's Headers slice:
//	            not visible in what it returns).
//	maps        map[string]V is an association list with unique keys in insertion order: m[k] -> gio_map_get m k
//	            zero, v, ok := m[k] -> also gio_map_has m k, m[k] = v -> gio_map_set (replace or add at the end),
//	            delete -> gio_map_del, len -> length, make(map.., hint) -> [].  strings.StringSet is a map to unit.
//	integers    int -> Z exact; uint32(x) -> gio_u32 x = x mod 2^32, a - b on uint32 wraps the same way, int(u) is u.
//	floats      the one float64 computation (the capacity estimate of resizeColBytes) runs in an ARBITRARY
//	            algebra FA: float64(i) -> fa_of_int, a literal -> fa_const num den, * / -> fa_mul / fa_div,
//	            int(f) -> fa_to_int.
//	records     struct -> Record gio_<T> with projections gio_<T>_<field> and setters gio_<T>_set_<field>.
//	results     a function answers outcome (r1 * .. * rn * out1 * ..): the Go results, then the final values of
//	            the threaded arguments.  Panic = Go panic OR fuel used up.
//	fuel        a function that contains a for loop (not range) or calls such a function takes (fuel : nat) first:
//	            O => Panic | S fuel' => body; its for loops and fuelled calls get fuel'.  Range loops are structural.
//	scopes      x := e in an inner block declares a new variable (a shadowed name gets a numbered Coq name).
//	if          when no branch leaves the statement: do (assigned outer variables) <- (if c then .. else ..); rest.
//	            Otherwise the rest of the block is continued inside the branches that fall through.
//	for         for [cond] { body }: Fixpoint .._loopN over its own counter (O => Panic).  Kinds: A no return
//	            inside (answers the assigned outer variables), B return inside and never left otherwise, C both
//	            (inl r = returned, inr vs = left normally).  The condition may be r.Next().
//	range       for i, x := range X { body }: structural Fixpoint over the list X held when the loop starts,
//	            with the index as a Z counter.  Inside the body X may only be written at X[i] (so that the
//	            elements not yet visited are the ones of the snapshot, as in Go where range reads them live).
//	            Kinds A and C as above; break = normal exit, continue = next element.
//	rejected    goto, labels, switch, defer, closures, three-clause for, named results, everything else.

import (
	"flag"
	"fmt"
	"go/ast"
	"go/token"
	"math/big"
	"os"
	"path/filepath"
	"strconv"
	"strings"
)

const gioPkg = "internal/io"

// in dependency order (a callee before its callers)
var gioSpecs = []string{"isEmptyLine", "addAliasToMissingColumnNames", "renameDuplicateColumns", "columnToData",
	"resizeColPointers", "resizeColBytes", "ReadCSV"}

var gioStructs = []string{"bytePointer", "CSVConfig"}

// the string constants of /repo/types the code compares with
var gioTypeConsts = []string{"None", "Int", "Float", "Bool", "String", "Enum"}

// the finer types of [][]byte places
var gioPlaces = map[string]string{
	"isEmptyLine.fields": "rows",
}

const gioPreamble = `(* GENERATED by tools/qf2coq (iocsv.go) from internal/io/csv.go of tobgu/qframe — do not edit.
   One Record per struct, one definition gio_<function> per translated Go function, one Fixpoint .._loopN per
   loop; the scheme is described at the top of tools/qf2coq/iocsv.go.
   Rd / IO : the fastcsv Reader and the io.Reader under it (arbitrary types, vocabulary rd_new / rd_next / rd_read
   / rd_fields / rd_err); parse_int / parse_float / parse_bool : strconv; Fac / ECol : the enum factory; grow : the
   capacity append chooses; FA : the float64 algebra of the capacity estimate.  string / []byte values are bytes,
   int is Z, uint32 is Z mod 2^32, a []byte / []bytePointer buffer is (value, capacity), a map an association list.
   A function with a for loop (or calling one) takes fuel first: O => Panic.  Results: the Go results, then the
   final values of the slice / map arguments it writes through. *)
From QF Require Import Base.Prelude Model.CsvSpec Model.CsvWrite.
Local Open Scope Z_scope.

Inductive gio_error := gio_nil | gio_some.
Definition gio_error_eqb (a b : gio_error) : bool :=
  match a, b with gio_nil, gio_nil | gio_some, gio_some => true | _, _ => false end.

(* plain slices *)
Definition gio_len {T : Type} (s : list T) : Z := Z.of_nat (length s).
Definition gio_list_index {T : Type} (s : list T) (i : Z) : outcome T :=
  if i <? 0 then Panic else idx s (Z.to_nat i).
Definition gio_list_update {T : Type} (s : list T) (i : Z) (v : T) : outcome (list T) :=
  if i <? 0 then Panic else do _ <- idx s (Z.to_nat i); Ok (set_nth s (Z.to_nat i) v).
Definition gio_make_list {T : Type} (n : Z) (z : T) : outcome (list T) :=
  if n <? 0 then Panic else Ok (repeat z (Z.to_nat n)).
Definition gio_make_empty {T : Type} (c : Z) : outcome (list T) :=
  if c <? 0 then Panic else Ok [].

(* buffers: value and capacity *)
Definition gio_cs (T : Type) : Type := (list T * Z)%type.
Definition gio_clen {T : Type} (s : gio_cs T) : Z := Z.of_nat (length (fst s)).
Definition gio_ccap {T : Type} (s : gio_cs T) : Z := snd s.
Definition gio_cmake0 {T : Type} (c : Z) : outcome (gio_cs T) :=
  if c <? 0 then Panic else Ok ([], c).
Definition gio_csub (s : gio_cs N) (lo hi : Z) : outcome bytes :=
  if (0 <=? lo) && (lo <=? hi) && (hi <=? gio_clen s)
  then Ok (firstn (Z.to_nat (hi - lo)) (skipn (Z.to_nat lo) (fst s))) else Panic.

(* maps with string keys *)
Fixpoint gio_map_get {V : Type} (m : list (bytes * V)) (k : bytes) (d : V) : V :=
  match m with
  | [] => d
  | (k', v) :: t => if bytes_eqb k k' then v else gio_map_get t k d
  end.
Fixpoint gio_map_has {V : Type} (m : list (bytes * V)) (k : bytes) : bool :=
  match m with
  | [] => false
  | (k', _) :: t => if bytes_eqb k k' then true else gio_map_has t k
  end.
Fixpoint gio_map_set {V : Type} (m : list (bytes * V)) (k : bytes) (v : V) : list (bytes * V) :=
  match m with
  | [] => [(k, v)]
  | (k', v') :: t => if bytes_eqb k k' then (k, v) :: t else (k', v') :: gio_map_set t k v
  end.
Definition gio_map_del {V : Type} (m : list (bytes * V)) (k : bytes) : list (bytes * V) :=
  filter (fun kv => negb (bytes_eqb k (fst kv))) m.

Definition gio_u32 (x : Z) : Z := x mod 4294967296.
Definition gio_NaN : N := nan_bits.
Definition gio_Sprint (x : Z) : bytes := itoa x.
Definition gio_sptr : Type := (Z * Z * bool)%type.
Definition gio_NewPointer (o l : Z) (n : bool) : gio_sptr := (o, l, n).

`

const gioSection = `
Section GenIoCsv.
Context {IO Rd Fac ECol FA : Type}.
Variable rd_new : IO -> N -> outcome Rd.
Variable rd_next : Rd -> outcome (bool * Rd).
Variable rd_read : Rd -> outcome (list bytes * gio_error * Rd).
Variable rd_fields : Rd -> list bytes.
Variable rd_err : Rd -> gio_error.
Variable parse_int : bytes -> option Z.
Variable parse_float : bytes -> option N.
Variable parse_bool : bytes -> option bool.
Variable fac_new : list bytes -> Z -> Fac * gio_error.
Variable fac_append_nil : Fac -> Fac.
Variable fac_append_bs : Fac -> bytes -> gio_error * Fac.
Variable fac_to_column : Fac -> ECol.
Variable grow : Z -> Z -> Z.
Variable fa_of_int : Z -> FA.
Variable fa_const : Z -> Z -> FA.
Variable fa_mul : FA -> FA -> FA.
Variable fa_div : FA -> FA -> FA.
Variable fa_to_int : FA -> Z.

Definition gio_ParseInt (b : bytes) : Z * gio_error :=
  match parse_int b with Some x => (x, gio_nil) | None => (0, gio_some) end.
Definition gio_ParseFloat (b : bytes) : N * gio_error :=
  match parse_float b with Some x => (x, gio_nil) | None => (0%N, gio_some) end.
Definition gio_ParseBool (b : bytes) : bool * gio_error :=
  match parse_bool b with Some x => (x, gio_nil) | None => (false, gio_some) end.

(* append(s, xs...) on a buffer *)
Definition gio_cappend {T : Type} (s : gio_cs T) (xs : list T) : gio_cs T :=
  let n := gio_clen s + Z.of_nat (length xs) in
  (fst s ++ xs, if n <=? snd s then snd s else grow (snd s) n).

Inductive gio_data :=
| gio_d_nil
| gio_d_ncolumn
| gio_d_ints (l : list Z)
| gio_d_floats (l : list N)
| gio_d_bools (l : list bool)
| gio_d_blob (p : list gio_sptr) (d : gio_cs N)
| gio_d_enum (c : ECol).

`

// ------------------------------------------------------------------ types

type gioT struct {
	k     string // int u32 bool byte str err float fa bytes cs list map struct data sptr fac rd io unit const nil bad
	elem  *gioT
	sname string
	val   *big.Rat
	sval  string // string constants
}

var (
	gioInt   = &gioT{k: "int"}
	gioU32   = &gioT{k: "u32"}
	gioBool  = &gioT{k: "bool"}
	gioByte  = &gioT{k: "byte"}
	gioStr   = &gioT{k: "str"}
	gioErr   = &gioT{k: "err"}
	gioFloat = &gioT{k: "float"}
	gioFA    = &gioT{k: "fa"}
	gioBytes = &gioT{k: "bytes"}
	gioData  = &gioT{k: "data"}
	gioSptr  = &gioT{k: "sptr"}
	gioFac   = &gioT{k: "fac"}
	gioRd    = &gioT{k: "rd"}
	gioIO    = &gioT{k: "io"}
	gioUnit  = &gioT{k: "unit"}
	gioNil   = &gioT{k: "nil"}
	gioBad   = &gioT{k: "bad"}
)

func gioCs(e *gioT) *gioT   { return &gioT{k: "cs", elem: e} }
func gioList(e *gioT) *gioT { return &gioT{k: "list", elem: e} }
func gioMap(e *gioT) *gioT  { return &gioT{k: "map", elem: e} }

func (t *gioT) same(u *gioT) bool {
	if t.k != u.k || t.sname != u.sname {
		return false
	}
	if t.elem != nil || u.elem != nil {
		return t.elem != nil && u.elem != nil && t.elem.same(u.elem)
	}
	return true
}

func (t *gioT) name() string {
	switch t.k {
	case "struct":
		return t.sname
	case "cs", "list", "map":
		return t.k + " of " + t.elem.name()
	}
	return t.k
}

func (t *gioT) coq() string {
	switch t.k {
	case "int", "u32":
		return "Z"
	case "bool":
		return "bool"
	case "byte", "float":
		return "N"
	case "str", "bytes":
		return "bytes"
	case "err":
		return "gio_error"
	case "fa":
		return "FA"
	case "data":
		return "gio_data"
	case "sptr":
		return "gio_sptr"
	case "fac":
		return "Fac"
	case "rd":
		return "Rd"
	case "io":
		return "IO"
	case "unit":
		return "unit"
	case "cs":
		return "(gio_cs " + t.elem.coq() + ")"
	case "list":
		return "(list " + t.elem.coq() + ")"
	case "map":
		return "(list (bytes * " + t.elem.coq() + "))"
	case "struct":
		return "gio_" + t.sname
	}
	return "BAD"
}

func (t *gioT) zero() (string, bool) {
	switch t.k {
	case "int", "u32":
		return "0", true
	case "bool":
		return "false", true
	case "byte", "float":
		return "0%N", true
	case "str", "bytes":
		return "(@nil N)", true
	case "err":
		return "gio_nil", true
	case "data":
		return "gio_d_nil", true
	case "cs":
		return "(@nil " + t.elem.coq() + ", 0)", true
	case "list":
		return "(@nil " + t.elem.coq() + ")", true
	case "map":
		return "(@nil (bytes * " + t.elem.coq() + "))", true
	case "sptr":
		return "(0, 0, false)", true
	case "unit":
		return "tt", true
	}
	return "BAD", false
}

type gioField struct {
	name string
	t    *gioT
}

type gioStruct struct {
	name   string
	fields []gioField
	ok     bool
}

var gioStructTab map[string]*gioStruct

func gioResolveSrc(src, place string) *gioT {
	switch src {
	case "int":
		return gioInt
	case "uint32":
		return gioU32
	case "bool":
		return gioBool
	case "byte":
		return gioByte
	case "string", "types.DataType":
		return gioStr
	case "error":
		return gioErr
	case "float64":
		return gioFloat
	case "interface{}":
		return gioData
	case "io.Reader":
		return gioIO
	case "strings.Pointer":
		return gioSptr
	case "[]byte":
		return gioCs(gioByte)
	case "[][]byte":
		if gioPlaces[place] == "rows" {
			return gioList(gioBytes)
		}
		return gioList(gioCs(gioByte))
	case "struct{}":
		return gioUnit
	}
	if strings.HasPrefix(src, "map[string]") {
		e := gioResolveSrc(src[len("map[string]"):], "")
		if e.k == "bad" {
			return gioBad
		}
		if e.k == "cs" { // no buffers inside maps
			return gioBad
		}
		return gioMap(e)
	}
	if strings.HasPrefix(src, "[]") {
		e := gioResolveSrc(src[2:], "")
		if e.k == "bad" {
			return gioBad
		}
		if e.k == "struct" && e.sname == "bytePointer" {
			return gioCs(e)
		}
		return gioList(e)
	}
	for _, s := range gioStructs {
		if s == src {
			return &gioT{k: "struct", sname: s}
		}
	}
	return gioBad
}

func gioResolve(p *pkgInfo, e ast.Expr, place string) *gioT {
	return gioResolveSrc(ggSrc(p.fset, e), place)
}

func gioLoadStructs(p *pkgInfo) {
	gioStructTab = map[string]*gioStruct{}
	decls := map[string]*ast.StructType{}
	for _, f := range p.files {
		for _, d := range f.Decls {
			gd, ok := d.(*ast.GenDecl)
			if !ok || gd.Tok != token.TYPE {
				continue
			}
			for _, s := range gd.Specs {
				ts := s.(*ast.TypeSpec)
				if st, ok := ts.Type.(*ast.StructType); ok {
					decls[ts.Name.Name] = st
				}
			}
		}
	}
	for _, name := range gioStructs {
		s := &gioStruct{name: name, ok: true}
		gioStructTab[name] = s
		st, ok := decls[name]
		if !ok {
			problem("internal/io/csv.go translation: struct %s not found", name)
			s.ok = false
			continue
		}
		for _, fl := range st.Fields.List {
			if len(fl.Names) == 0 {
				problem("internal/io/csv.go translation: struct %s has an embedded field", name)
				s.ok = false
			}
			for _, n := range fl.Names {
				t := gioResolve(p, fl.Type, name+"."+n.Name)
				if _, zok := t.zero(); t.k == "bad" || !zok {
					problem("internal/io/csv.go translation: field %s.%s has a type that is not understood: %s", name, n.Name, ggSrc(p.fset, fl.Type))
					s.ok = false
					continue
				}
				s.fields = append(s.fields, gioField{n.Name, t})
			}
		}
	}
}

func (s *gioStruct) field(name string) (*gioT, bool) {
	for _, f := range s.fields {
		if f.name == name {
			return f.t, true
		}
	}
	return nil, false
}

func (s *gioStruct) record() string {
	var b strings.Builder
	fmt.Fprintf(&b, "Record gio_%s := gio_mk_%s {\n", s.name, s.name)
	for i, f := range s.fields {
		sep := ";"
		if i == len(s.fields)-1 {
			sep = " }."
		}
		fmt.Fprintf(&b, "  gio_%s_%s : %s%s\n", s.name, f.name, f.t.coq(), sep)
	}
	for i, f := range s.fields {
		var args []string
		for j, g := range s.fields {
			if i == j {
				args = append(args, "v")
			} else {
				args = append(args, "(gio_"+s.name+"_"+g.name+" r)")
			}
		}
		fmt.Fprintf(&b, "Definition gio_%s_set_%s (r : gio_%s) (v : %s) : gio_%s :=\n  gio_mk_%s %s.\n", s.name, f.name, s.name, f.t.coq(), s.name, s.name, strings.Join(args, " "))
	}
	return b.String()
}

var _ = strconv.Itoa
var _ = flag.Lookup
var _ = os.ReadFile
var _ = filepath.Join

// ------------------------------------------------------------------ translation context

type gioVar struct {
	name  string
	coq   string
	t     *gioT
	depth int
}

type gioFunc struct {
	goName    string
	coq       string
	fd        *ast.FuncDecl
	params    []gioVar
	results   []*gioT
	outs      []gioVar // the slice / map / struct-with-map arguments written through
	needsFuel bool
	done      bool
	ok        bool
	text      string
}

var gioFuncs map[string]*gioFunc

type gioCtx struct {
	vars     []gioVar
	depth    int
	brk      func() string
	cont     func() string
	retv     func(tuple string) string
	retPlain bool
	ranged   map[string]string // ranged variable -> the key identifier its elements may be written at
}

type gioTr struct {
	p     *pkgInfo
	f     *gioFunc
	loops []string
	bad   bool
	ntmp  int
	nk    int
	names map[string]int // Coq names handed out (for shadowed variables)
}

func (t *gioTr) fail(n ast.Node, format string, a ...interface{}) {
	pos := ""
	if n != nil {
		pos = t.p.fset.Position(n.Pos()).String() + ": "
	}
	problem("internal/io/csv.go translation, function %s: %s%s", t.f.goName, pos, fmt.Sprintf(format, a...))
	t.bad = true
}

func (t *gioTr) src(n ast.Node) string { return ggSrc(t.p.fset, n) }

func (t *gioTr) tmp() string {
	t.ntmp++
	return fmt.Sprintf("t%d", t.ntmp)
}

func (c gioCtx) lookup(name string) (gioVar, bool) {
	for i := len(c.vars) - 1; i >= 0; i-- {
		if c.vars[i].name == name {
			return c.vars[i], true
		}
	}
	return gioVar{}, false
}

func gioBytesLit(s string) string {
	if len(s) == 0 {
		return "(@nil N)"
	}
	parts := make([]string, len(s))
	for i := 0; i < len(s); i++ {
		parts[i] = strconv.Itoa(int(s[i]))
	}
	return "[" + strings.Join(parts, "; ") + "]%N"
}

func gioIsBytes(t *gioT) bool { return t.k == "str" || t.k == "bytes" }

func gioSame(a, b *gioT) bool {
	if gioIsBytes(a) && gioIsBytes(b) {
		return true
	}
	if a.k != b.k || a.sname != b.sname {
		return false
	}
	if a.elem != nil || b.elem != nil {
		return a.elem != nil && b.elem != nil && gioSame(a.elem, b.elem)
	}
	return true
}

// coerce an untyped constant / nil / a concrete column value to the wanted type
func (t *gioTr) coerce(n ast.Node, text string, ty *gioT, want *gioT) (string, *gioT) {
	switch ty.k {
	case "nil":
		switch want.k {
		case "err", "data", "list", "map", "cs":
			z, _ := want.zero()
			return z, want
		}
		t.fail(n, "nil in a context of type %s", want.name())
		return text, want
	case "const":
		switch want.k {
		case "int", "u32":
			if !ty.val.IsInt() {
				t.fail(n, "constant %s is not an integer", ty.val.String())
				return "0", want
			}
			if want.k == "u32" && (ty.val.Sign() < 0 || ty.val.Num().BitLen() > 32) {
				t.fail(n, "constant %s is not a uint32", ty.val.String())
			}
			if ty.val.Sign() < 0 {
				return "(" + ty.val.Num().String() + ")", want
			}
			return ty.val.Num().String(), want
		case "fa":
			return "(fa_const " + gioZ(ty.val.Num()) + " " + gioZ(ty.val.Denom()) + ")", gioFA
		}
		t.fail(n, "constant %s in a context of type %s", ty.val.String(), want.name())
		return "0", want
	case "list":
		if want.k == "data" {
			switch ty.elem.k {
			case "int":
				return "(gio_d_ints " + text + ")", gioData
			case "float":
				return "(gio_d_floats " + text + ")", gioData
			case "bool":
				return "(gio_d_bools " + text + ")", gioData
			}
		}
	}
	return text, ty
}

func gioZ(v *big.Int) string {
	if v.Sign() < 0 {
		return "(" + v.String() + ")"
	}
	return v.String()
}

func gioRoot(e ast.Expr) string {
	switch x := e.(type) {
	case *ast.Ident:
		return x.Name
	case *ast.SelectorExpr:
		return gioRoot(x.X)
	case *ast.IndexExpr:
		return gioRoot(x.X)
	case *ast.SliceExpr:
		return gioRoot(x.X)
	case *ast.ParenExpr:
		return gioRoot(x.X)
	}
	return ""
}

// ------------------------------------------------------------------ expressions

func (t *gioTr) expr(e ast.Expr, c gioCtx, pre *[]string) (string, *gioT) {
	switch x := e.(type) {
	case *ast.ParenExpr:
		return t.expr(x.X, c, pre)
	case *ast.BasicLit:
		switch x.Kind {
		case token.INT, token.CHAR, token.FLOAT:
			if v, ok := evalConst(t.p, x); ok {
				return "", &gioT{k: "const", val: v}
			}
		case token.STRING:
			if s, err := strconv.Unquote(x.Value); err == nil {
				return gioBytesLit(s), gioStr
			}
		}
	case *ast.Ident:
		if v, ok := c.lookup(x.Name); ok {
			return v.coq, v.t
		}
		switch x.Name {
		case "true", "false":
			return x.Name, gioBool
		case "nil":
			return "", gioNil
		}
		if ce, ok := t.p.consts[x.Name]; ok {
			if v, ok := evalConst(t.p, ce); ok {
				return "", &gioT{k: "const", val: v}
			}
		}
		t.fail(e, "unknown identifier %s", x.Name)
		return "0", gioBad
	case *ast.SelectorExpr:
		if id, ok := x.X.(*ast.Ident); ok && id.Name == "types" {
			if _, shadowed := c.lookup("types"); !shadowed {
				for _, n := range gioTypeConsts {
					if n == x.Sel.Name {
						return "gio_c_types_" + n, gioStr
					}
				}
				t.fail(e, "types.%s is not one of the constants understood", x.Sel.Name)
				return "(@nil N)", gioStr
			}
		}
		a, ta := t.expr(x.X, c, pre)
		if ta.k == "struct" {
			s := gioStructTab[ta.sname]
			if ft, ok := s.field(x.Sel.Name); ok {
				return "(gio_" + s.name + "_" + x.Sel.Name + " " + a + ")", ft
			}
			t.fail(e, "%s has no field %s", s.name, x.Sel.Name)
			return "0", gioBad
		}
	case *ast.IndexExpr:
		a, ta := t.expr(x.X, c, pre)
		i, ti := t.expr(x.Index, c, pre)
		switch ta.k {
		case "list":
			i, ti = t.coerce(x.Index, i, ti, gioInt)
			if ti.k != "int" {
				t.fail(e, "index of type %s", ti.name())
				return "0", gioBad
			}
			tmp := t.tmp()
			*pre = append(*pre, "do "+tmp+" <- gio_list_index "+a+" "+i+";\n")
			return tmp, ta.elem
		case "map":
			if !gioIsBytes(ti) {
				t.fail(e, "map key of type %s", ti.name())
				return "0", gioBad
			}
			z, _ := ta.elem.zero()
			return "(gio_map_get " + a + " " + i + " " + z + ")", ta.elem
		}
		t.fail(e, "indexing a %s", ta.name())
		return "0", gioBad
	case *ast.SliceExpr:
		a, ta := t.expr(x.X, c, pre)
		if ta.k == "cs" && ta.elem.k == "byte" && x.Low != nil && x.High != nil && !x.Slice3 {
			lo, tl := t.expr(x.Low, c, pre)
			lo, tl = t.coerce(x.Low, lo, tl, gioInt)
			hi, th := t.expr(x.High, c, pre)
			hi, th = t.coerce(x.High, hi, th, gioInt)
			if (tl.k == "int" || tl.k == "u32") && (th.k == "int" || th.k == "u32") {
				tmp := t.tmp()
				*pre = append(*pre, "do "+tmp+" <- gio_csub "+a+" "+lo+" "+hi+";\n")
				return tmp, gioBytes
			}
		}
		t.fail(e, "slice expression not understood: %s", t.src(e))
		return "(@nil N)", gioBytes
	case *ast.UnaryExpr:
		if x.Op == token.NOT {
			a, ta := t.expr(x.X, c, pre)
			if ta.k == "bool" {
				return "(negb " + a + ")", gioBool
			}
		}
	case *ast.BinaryExpr:
		return t.binary(x, c, pre)
	case *ast.CompositeLit:
		return t.composite(x, c, pre)
	case *ast.CallExpr:
		return t.call(x, c, pre)
	}
	t.fail(e, "expression not understood: %s", t.src(e))
	return "0", gioBad
}

func (t *gioTr) composite(cl *ast.CompositeLit, c gioCtx, pre *[]string) (string, *gioT) {
	src := t.src(cl.Type)
	switch src {
	case "ncolumn.Column":
		if len(cl.Elts) == 0 {
			return "gio_d_ncolumn", gioData
		}
	case "strings.StringBlob":
		vals := map[string]string{}
		for _, el := range cl.Elts {
			kv, ok := el.(*ast.KeyValueExpr)
			if !ok {
				t.fail(el, "StringBlob literal without field names")
				continue
			}
			a, ta := t.expr(kv.Value, c, pre)
			switch name := kv.Key.(*ast.Ident).Name; {
			case name == "Pointers" && gioSame(ta, gioList(gioSptr)), name == "Data" && gioSame(ta, gioCs(gioByte)):
				vals[name] = a
			default:
				t.fail(el, "StringBlob field %s initialised with a %s", name, ta.name())
			}
		}
		if len(vals) == 2 {
			return "(gio_d_blob " + vals["Pointers"] + " " + vals["Data"] + ")", gioData
		}
		t.fail(cl, "a StringBlob literal must give Pointers and Data")
		return "gio_d_nil", gioData
	case "[]bytePointer":
		if len(cl.Elts) == 0 {
			return "(@nil gio_bytePointer, 0)", gioCs(&gioT{k: "struct", sname: "bytePointer"})
		}
	}
	s := gioStructTab[src]
	if s == nil {
		t.fail(cl, "composite literal of a type that is not understood: %s", src)
		return "0", gioBad
	}
	vals := map[string]string{}
	for _, el := range cl.Elts {
		kv, ok := el.(*ast.KeyValueExpr)
		if !ok {
			t.fail(el, "%s literal without field names", s.name)
			continue
		}
		name := kv.Key.(*ast.Ident).Name
		ft, ok := s.field(name)
		if !ok {
			t.fail(el, "%s has no field %s", s.name, name)
			continue
		}
		a, ta := t.expr(kv.Value, c, pre)
		a, ta = t.coerce(kv.Value, a, ta, ft)
		if !gioSame(ta, ft) {
			t.fail(el, "field %s.%s (a %s) initialised with a %s", s.name, name, ft.name(), ta.name())
		}
		vals[name] = a
	}
	var args []string
	for _, f := range s.fields {
		if v, ok := vals[f.name]; ok {
			args = append(args, v)
			continue
		}
		z, _ := f.t.zero()
		args = append(args, z)
	}
	return "(gio_mk_" + s.name + " " + strings.Join(args, " ") + ")", &gioT{k: "struct", sname: s.name}
}

func (t *gioTr) binary(x *ast.BinaryExpr, c gioCtx, pre *[]string) (string, *gioT) {
	if x.Op == token.LAND || x.Op == token.LOR {
		a, ta := t.expr(x.X, c, pre)
		var preB []string
		b, tb := t.expr(x.Y, c, &preB)
		if ta.k != "bool" || tb.k != "bool" {
			t.fail(x, "%s on operands that are not conditions", x.Op)
			return "false", gioBool
		}
		if len(preB) == 0 {
			if x.Op == token.LAND {
				return "(" + a + " && " + b + ")", gioBool
			}
			return "(" + a + " || " + b + ")", gioBool
		}
		tmp := t.tmp()
		inner := strings.Join(preB, "") + "Ok " + b
		if x.Op == token.LAND {
			*pre = append(*pre, "do "+tmp+" <- (if "+a+" then\n"+gsIndent(inner)+"\nelse Ok false);\n")
		} else {
			*pre = append(*pre, "do "+tmp+" <- (if "+a+" then Ok true else\n"+gsIndent(inner)+");\n")
		}
		return tmp, gioBool
	}
	a, ta := t.expr(x.X, c, pre)
	b, tb := t.expr(x.Y, c, pre)
	if ta.k == "const" && tb.k == "const" {
		t.fail(x, "constant expression not understood: %s", t.src(x))
		return "0", gioBad
	}
	if ta.k == "const" || ta.k == "nil" {
		a, ta = t.coerce(x.X, a, ta, tb)
	} else if tb.k == "const" || tb.k == "nil" {
		b, tb = t.coerce(x.Y, b, tb, ta)
	}
	switch {
	case ta.k == "int" && tb.k == "int":
		switch x.Op {
		case token.ADD:
			return "(" + a + " + " + b + ")", gioInt
		case token.SUB:
			return "(" + a + " - " + b + ")", gioInt
		case token.MUL:
			return "(" + a + " * " + b + ")", gioInt
		case token.LSS:
			return "(" + a + " <? " + b + ")", gioBool
		case token.LEQ:
			return "(" + a + " <=? " + b + ")", gioBool
		case token.GTR:
			return "(" + b + " <? " + a + ")", gioBool
		case token.GEQ:
			return "(" + b + " <=? " + a + ")", gioBool
		case token.EQL:
			return "(" + a + " =? " + b + ")", gioBool
		case token.NEQ:
			return "(negb (" + a + " =? " + b + "))", gioBool
		}
	case ta.k == "u32" && tb.k == "u32":
		switch x.Op {
		case token.SUB:
			return "(gio_u32 (" + a + " - " + b + "))", gioU32
		case token.ADD:
			return "(gio_u32 (" + a + " + " + b + "))", gioU32
		case token.EQL:
			return "(" + a + " =? " + b + ")", gioBool
		case token.NEQ:
			return "(negb (" + a + " =? " + b + "))", gioBool
		}
	case gioIsBytes(ta) && gioIsBytes(tb):
		switch x.Op {
		case token.EQL:
			return "(bytes_eqb " + a + " " + b + ")", gioBool
		case token.NEQ:
			return "(negb (bytes_eqb " + a + " " + b + "))", gioBool
		case token.ADD:
			return "(" + a + " ++ " + b + ")", gioStr
		}
	case ta.k == "err" && tb.k == "err":
		switch x.Op {
		case token.EQL:
			return "(gio_error_eqb " + a + " " + b + ")", gioBool
		case token.NEQ:
			return "(negb (gio_error_eqb " + a + " " + b + "))", gioBool
		}
	case ta.k == "fa" && tb.k == "fa":
		switch x.Op {
		case token.MUL:
			return "(fa_mul " + a + " " + b + ")", gioFA
		case token.QUO:
			return "(fa_div " + a + " " + b + ")", gioFA
		}
	}
	t.fail(x, "operator %s on %s and %s is not understood", x.Op, ta.name(), tb.name())
	return "0", gioBad
}

// ------------------------------------------------------------------ calls

type gioBack struct {
	lval ast.Expr
	ty   *gioT
	tmp  string
}

type gioCall struct {
	head    string
	outcome bool // the head is an outcome (bound with do), otherwise a plain value (bound with let)
	resT    []*gioT
	backs   []gioBack // threaded values answered after the results, with the places they go back to
}

func (t *gioTr) argOf(a ast.Expr, want *gioT, c gioCtx, pre *[]string) string {
	txt, ty := t.expr(a, c, pre)
	txt, ty = t.coerce(a, txt, ty, want)
	if !gioSame(ty, want) {
		t.fail(a, "argument of type %s where a %s is expected", ty.name(), want.name())
	}
	return txt
}

// callDesc recognises the calls that are not built-ins: the vocabulary and the translated functions.
func (t *gioTr) callDesc(ce *ast.CallExpr, c gioCtx, pre *[]string) (*gioCall, bool) {
	nargs := func(n int) bool {
		if len(ce.Args) != n || ce.Ellipsis.IsValid() {
			t.fail(ce, "%s takes %d arguments", t.src(ce.Fun), n)
			return false
		}
		return true
	}
	switch fn := ce.Fun.(type) {
	case *ast.SelectorExpr:
		if id, ok := fn.X.(*ast.Ident); ok {
			if _, isVar := c.lookup(id.Name); !isVar {
				switch id.Name + "." + fn.Sel.Name {
				case "fastcsv.NewReader":
					if !nargs(2) {
						return nil, false
					}
					return &gioCall{head: "rd_new " + t.argOf(ce.Args[0], gioIO, c, pre) + " " + t.argOf(ce.Args[1], gioByte, c, pre), outcome: true, resT: []*gioT{gioRd}}, true
				case "ecolumn.NewFactory":
					if !nargs(2) {
						return nil, false
					}
					return &gioCall{head: "fac_new " + t.argOf(ce.Args[0], gioList(gioStr), c, pre) + " " + t.argOf(ce.Args[1], gioInt, c, pre), resT: []*gioT{gioFac, gioErr}}, true
				case "strings.ParseInt", "strings.ParseFloat", "strings.ParseBool":
					if !nargs(1) {
						return nil, false
					}
					r := map[string]*gioT{"ParseInt": gioInt, "ParseFloat": gioFloat, "ParseBool": gioBool}[fn.Sel.Name]
					return &gioCall{head: "gio_" + fn.Sel.Name + " " + t.argOf(ce.Args[0], gioBytes, c, pre), resT: []*gioT{r, gioErr}}, true
				case "strings.NewPointer":
					if !nargs(3) {
						return nil, false
					}
					return &gioCall{head: "gio_NewPointer " + t.argOf(ce.Args[0], gioInt, c, pre) + " " + t.argOf(ce.Args[1], gioInt, c, pre) + " " + t.argOf(ce.Args[2], gioBool, c, pre), resT: []*gioT{gioSptr}}, true
				case "strings.NewEmptyStringSet":
					if !nargs(0) {
						return nil, false
					}
					return &gioCall{head: "(@nil (bytes * unit))", resT: []*gioT{gioMap(gioUnit)}}, true
				case "math.NaN":
					if !nargs(0) {
						return nil, false
					}
					return &gioCall{head: "gio_NaN", resT: []*gioT{gioFloat}}, true
				case "fmt.Sprint":
					if !nargs(1) {
						return nil, false
					}
					return &gioCall{head: "gio_Sprint " + t.argOf(ce.Args[0], gioInt, c, pre), resT: []*gioT{gioStr}}, true
				case "qerrors.Propagate", "qerrors.New":
					// the arguments only make the message; they must be panic-free
					for _, a := range ce.Args {
						var p2 []string
						_, ta := t.expr(a, c, &p2)
						if len(p2) != 0 || ta.k == "bad" {
							t.fail(a, "an argument of %s that could panic or is not understood", t.src(ce.Fun))
						}
					}
					if ce.Ellipsis.IsValid() {
						t.fail(ce, "%s with ...", t.src(ce.Fun))
					}
					return &gioCall{head: "gio_some", resT: []*gioT{gioErr}}, true
				}
				return nil, false
			}
		}
		// a method of the vocabulary on a variable
		if r := gioRoot(fn.X); r == "" {
			return nil, false
		} else if _, known := c.lookup(r); !known {
			return nil, false
		}
		var p2 []string
		a, ta := t.expr(fn.X, c, &p2)
		if len(p2) != 0 {
			return nil, false
		}
		switch ta.k + "." + fn.Sel.Name {
		case "rd.Next":
			if !nargs(0) {
				return nil, false
			}
			return &gioCall{head: "rd_next " + a, outcome: true, resT: []*gioT{gioBool}, backs: []gioBack{{lval: fn.X, ty: gioRd}}}, true
		case "rd.Read":
			if !nargs(0) {
				return nil, false
			}
			return &gioCall{head: "rd_read " + a, outcome: true, resT: []*gioT{gioList(gioBytes), gioErr}, backs: []gioBack{{lval: fn.X, ty: gioRd}}}, true
		case "rd.Fields":
			if !nargs(0) {
				return nil, false
			}
			return &gioCall{head: "rd_fields " + a, resT: []*gioT{gioList(gioBytes)}}, true
		case "rd.Err":
			if !nargs(0) {
				return nil, false
			}
			return &gioCall{head: "rd_err " + a, resT: []*gioT{gioErr}}, true
		case "fac.AppendNil":
			if !nargs(0) {
				return nil, false
			}
			return &gioCall{head: "fac_append_nil " + a, backs: []gioBack{{lval: fn.X, ty: gioFac}}}, true
		case "fac.AppendByteString":
			if !nargs(1) {
				return nil, false
			}
			return &gioCall{head: "fac_append_bs " + a + " " + t.argOf(ce.Args[0], gioBytes, c, pre), resT: []*gioT{gioErr}, backs: []gioBack{{lval: fn.X, ty: gioFac}}}, true
		case "fac.ToColumn":
			if !nargs(0) {
				return nil, false
			}
			return &gioCall{head: "gio_d_enum (fac_to_column " + a + ")", resT: []*gioT{gioData}}, true
		case "map.Contains":
			if ta.elem.k == "unit" && nargs(1) {
				return &gioCall{head: "gio_map_has " + a + " " + t.argOf(ce.Args[0], gioStr, c, pre), resT: []*gioT{gioBool}}, true
			}
		case "map.Add":
			if ta.elem.k == "unit" && nargs(1) {
				return &gioCall{head: "gio_map_set " + a + " " + t.argOf(ce.Args[0], gioStr, c, pre) + " tt", backs: []gioBack{{lval: fn.X, ty: ta}}}, true
			}
		}
		return nil, false
	case *ast.Ident:
		if _, shadowed := c.lookup(fn.Name); shadowed {
			return nil, false
		}
		g, ok := gioFuncs[fn.Name]
		if !ok {
			return nil, false
		}
		if g == t.f {
			t.fail(ce, "recursion")
		} else if !g.done {
			t.fail(ce, "%s is called before it is translated (order of gioSpecs)", g.goName)
		}
		if g.fd == nil || len(ce.Args) != len(g.params) || ce.Ellipsis.IsValid() {
			t.fail(ce, "%s: number of arguments / untranslated callee", g.goName)
			return &gioCall{head: "Panic", outcome: true, resT: g.results}, true
		}
		parts := []string{g.coq}
		if g.needsFuel {
			parts = append(parts, "fuel'")
		}
		d := &gioCall{outcome: true, resT: g.results}
		for i, a := range ce.Args {
			parts = append(parts, t.argOf(a, g.params[i].t, c, pre))
			for _, o := range g.outs {
				if o.name == g.params[i].name {
					if gioRoot(a) == "" {
						t.fail(a, "an argument that %s writes through must be a place", g.goName)
					}
					d.backs = append(d.backs, gioBack{lval: a, ty: o.t})
				}
			}
		}
		d.head = strings.Join(parts, " ")
		return d, true
	}
	return nil, false
}

// call: a call inside an expression: built-ins, conversions, and calls without threaded values
func (t *gioTr) call(x *ast.CallExpr, c gioCtx, pre *[]string) (string, *gioT) {
	if id, ok := x.Fun.(*ast.Ident); ok {
		if _, shadowed := c.lookup(id.Name); shadowed {
			t.fail(x, "%s shadows a function", id.Name)
			return "0", gioBad
		}
		switch id.Name {
		case "len", "cap":
			if len(x.Args) == 1 {
				a, ta := t.expr(x.Args[0], c, pre)
				switch {
				case ta.k == "cs":
					return "(gio_c" + id.Name + " " + a + ")", gioInt
				case id.Name == "len" && (ta.k == "list" || ta.k == "map" || gioIsBytes(ta)):
					return "(gio_len " + a + ")", gioInt
				}
			}
		case "append":
			if len(x.Args) == 2 {
				a, ta := t.expr(x.Args[0], c, pre)
				b, tb := t.expr(x.Args[1], c, pre)
				switch {
				case x.Ellipsis.IsValid() && ta.k == "cs" && ta.elem.k == "byte" && gioIsBytes(tb):
					return "(gio_cappend " + a + " " + b + ")", ta
				case x.Ellipsis.IsValid() && ta.k == "cs" && gioSame(ta, tb):
					return "(gio_cappend " + a + " (fst " + b + "))", ta
				case !x.Ellipsis.IsValid() && ta.k == "cs" && gioSame(ta.elem, tb):
					return "(gio_cappend " + a + " [" + b + "])", ta
				case !x.Ellipsis.IsValid() && ta.k == "list":
					b, tb = t.coerce(x.Args[1], b, tb, ta.elem)
					if gioSame(ta.elem, tb) {
						return "(" + a + " ++ [" + b + "])", ta
					}
				}
			}
		case "make":
			ty := gioBad
			if len(x.Args) >= 1 {
				ty = gioResolve(t.p, x.Args[0], "")
			}
			var nums []string
			var zeroFirst bool
			for i, a := range x.Args[1:] {
				n, tn := t.expr(a, c, pre)
				if i == 0 && tn.k == "const" && tn.val.Sign() == 0 {
					zeroFirst = true
				}
				n, tn = t.coerce(a, n, tn, gioInt)
				if tn.k != "int" {
					t.fail(a, "make with a size of type %s", tn.name())
				}
				nums = append(nums, n)
			}
			tmp := t.tmp()
			switch {
			case ty.k == "map" && len(nums) <= 1:
				z, _ := ty.zero()
				return z, ty
			case ty.k == "list" && len(nums) == 1 && zeroFirst:
				z, _ := ty.zero()
				return z, ty
			case ty.k == "list" && len(nums) == 1:
				z, _ := ty.elem.zero()
				*pre = append(*pre, "do "+tmp+" <- gio_make_list "+nums[0]+" "+z+";\n")
				return tmp, ty
			case ty.k == "list" && len(nums) == 2 && zeroFirst:
				*pre = append(*pre, "do "+tmp+" <- @gio_make_empty "+ty.elem.coq()+" "+nums[1]+";\n")
				return tmp, ty
			case ty.k == "cs" && len(nums) == 2 && zeroFirst:
				*pre = append(*pre, "do "+tmp+" <- @gio_cmake0 "+ty.elem.coq()+" "+nums[1]+";\n")
				return tmp, ty
			}
		case "int":
			if len(x.Args) == 1 {
				a, ta := t.expr(x.Args[0], c, pre)
				switch ta.k {
				case "int", "u32":
					return a, gioInt
				case "fa":
					return "(fa_to_int " + a + ")", gioInt
				}
			}
		case "uint32":
			if len(x.Args) == 1 {
				a, ta := t.expr(x.Args[0], c, pre)
				if ta.k == "int" {
					return "(gio_u32 " + a + ")", gioU32
				}
			}
		case "string":
			if len(x.Args) == 1 {
				a, ta := t.expr(x.Args[0], c, pre)
				if gioIsBytes(ta) {
					return a, gioStr
				}
			}
		case "float64":
			if len(x.Args) == 1 {
				a, ta := t.expr(x.Args[0], c, pre)
				if ta.k == "int" {
					return "(fa_of_int " + a + ")", gioFA
				}
			}
		}
	}
	if d, ok := t.callDesc(x, c, pre); ok {
		if len(d.backs) != 0 {
			t.fail(x, "a call of %s inside an expression (it changes state: only understood as a statement, a whole right-hand side, a whole condition or the only returned value)", t.src(x.Fun))
			return "0", gioBad
		}
		if len(d.resT) != 1 {
			t.fail(x, "a call of %s with %d results inside an expression", t.src(x.Fun), len(d.resT))
			return "0", gioBad
		}
		if d.outcome {
			tmp := t.tmp()
			*pre = append(*pre, "do "+tmp+" <- "+d.head+";\n")
			return tmp, d.resT[0]
		}
		if strings.Contains(d.head, " ") {
			return "(" + d.head + ")", d.resT[0]
		}
		return d.head, d.resT[0]
	}
	t.fail(x, "call not understood: %s", t.src(x))
	return "0", gioBad
}

// store: the statement(s) that give the place lhs the value val.
func (t *gioTr) store(lhs ast.Expr, val string, tv *gioT, c *gioCtx, pre *[]string) string {
	switch x := lhs.(type) {
	case *ast.ParenExpr:
		return t.store(x.X, val, tv, c, pre)
	case *ast.Ident:
		if x.Name == "_" {
			return ""
		}
		v, ok := c.lookup(x.Name)
		if !ok {
			t.fail(lhs, "unknown variable %s", x.Name)
			return ""
		}
		if !gioSame(tv, v.t) {
			t.fail(lhs, "assignment to %s: a %s where a %s is expected", x.Name, tv.name(), v.t.name())
		}
		if _, isRanged := c.ranged[x.Name]; isRanged {
			t.fail(lhs, "%s is assigned inside a range loop over it", x.Name)
		}
		return "let " + v.coq + " := " + val + " in\n"
	case *ast.SelectorExpr:
		a, ta := t.expr(x.X, *c, pre)
		if ta.k != "struct" {
			t.fail(lhs, "assignment to a field of a %s", ta.name())
			return ""
		}
		s := gioStructTab[ta.sname]
		ft, ok := s.field(x.Sel.Name)
		if !ok {
			t.fail(lhs, "%s has no field %s", s.name, x.Sel.Name)
			return ""
		}
		if !gioSame(tv, ft) {
			t.fail(lhs, "assignment to .%s: a %s where a %s is expected", x.Sel.Name, tv.name(), ft.name())
		}
		return t.store(x.X, "(gio_"+s.name+"_set_"+x.Sel.Name+" "+a+" "+val+")", ta, c, pre)
	case *ast.IndexExpr:
		a, ta := t.expr(x.X, *c, pre)
		i, ti := t.expr(x.Index, *c, pre)
		inner := *c
		if id, ok := x.X.(*ast.Ident); ok {
			if key, isRanged := c.ranged[id.Name]; isRanged {
				if kid, ok := x.Index.(*ast.Ident); !ok || kid.Name != key {
					t.fail(lhs, "inside a range loop over %s only %s[%s] may be written", id.Name, id.Name, key)
				}
				// the write itself is allowed
				inner.ranged = nil
			}
		}
		switch ta.k {
		case "list":
			i, ti = t.coerce(x.Index, i, ti, gioInt)
			if ti.k != "int" || !gioSame(tv, ta.elem) {
				t.fail(lhs, "index assignment not understood: %s", t.src(lhs))
				return ""
			}
			tmp := t.tmp()
			return "do " + tmp + " <- gio_list_update " + a + " " + i + " " + val + ";\n" + t.store(x.X, tmp, ta, &inner, pre)
		case "map":
			if !gioIsBytes(ti) || !gioSame(tv, ta.elem) {
				t.fail(lhs, "map assignment not understood: %s", t.src(lhs))
				return ""
			}
			return t.store(x.X, "(gio_map_set "+a+" "+i+" "+val+")", ta, &inner, pre)
		}
	}
	t.fail(lhs, "assignment to %s", t.src(lhs))
	return ""
}

// callStmt: a call of the vocabulary / a translated function with the stores of its threaded values.
func (t *gioTr) callStmt(ce *ast.CallExpr, c *gioCtx) (string, []string, []*gioT, bool) {
	if id, ok := ce.Fun.(*ast.Ident); ok {
		switch id.Name {
		case "len", "cap", "append", "make", "int", "uint32", "string", "float64", "delete":
			if _, shadowed := c.lookup(id.Name); !shadowed {
				return "", nil, nil, false
			}
		}
	}
	var pre []string
	d, ok := t.callDesc(ce, *c, &pre)
	if !ok {
		return "", nil, nil, false
	}
	var pat, res []string
	for range d.resT {
		tmp := t.tmp()
		pat = append(pat, tmp)
		res = append(res, tmp)
	}
	for i := range d.backs {
		d.backs[i].tmp = t.tmp()
		pat = append(pat, d.backs[i].tmp)
	}
	text := strings.Join(pre, "")
	switch {
	case d.outcome:
		text += "do " + gioTupleOrUnit(pat) + " <- " + d.head + ";\n"
	case len(pat) == 1:
		text += "let " + pat[0] + " := " + d.head + " in\n"
	default:
		text += "let '" + ggTuple(pat) + " := " + d.head + " in\n"
	}
	for _, bk := range d.backs {
		var p2 []string
		text += t.store(bk.lval, bk.tmp, bk.ty, c, &p2)
		if len(p2) != 0 {
			// storing back into x[i]: the index is evaluated again (it was in range when the argument was read)
			text = strings.TrimSuffix(text, "") // keep
			t.fail(ce, "storing back the result of the call needs an operation that can panic")
		}
	}
	return text, res, d.resT, true
}

func gioTupleOrUnit(parts []string) string {
	if len(parts) == 0 {
		return "tt"
	}
	return ggTuple(parts)
}

func gioTypeTupleOrUnit(parts []string) string {
	if len(parts) == 0 {
		return "unit"
	}
	return ggTypeTuple(parts)
}

// ------------------------------------------------------------------ syntactic analyses

// escapes: the statement contains a return, or a break / continue that leaves the statement itself.
func gioEscapes(n ast.Node) bool {
	found := false
	var walk func(n ast.Node, loopDepth int)
	walk = func(n ast.Node, loopDepth int) {
		ast.Inspect(n, func(m ast.Node) bool {
			switch x := m.(type) {
			case *ast.ReturnStmt:
				found = true
			case *ast.BranchStmt:
				if loopDepth == 0 {
					found = true
				}
			case *ast.ForStmt:
				if m != n {
					walk(x.Body, loopDepth+1)
					return false
				}
			case *ast.RangeStmt:
				if m != n {
					walk(x.Body, loopDepth+1)
					return false
				}
			case *ast.FuncLit:
				return false
			}
			return true
		})
	}
	walk(n, 0)
	return found
}

func gioHasBreak(body *ast.BlockStmt) bool {
	found := false
	ast.Inspect(body, func(m ast.Node) bool {
		switch x := m.(type) {
		case *ast.BranchStmt:
			if x.Tok == token.BREAK {
				found = true
			}
		case *ast.ForStmt, *ast.RangeStmt, *ast.SwitchStmt, *ast.SelectStmt, *ast.FuncLit:
			return false
		}
		return true
	})
	return found
}

// the names the nodes may change (an over-approximation, by name)
func (t *gioTr) assignedNames(c gioCtx, nodes ...ast.Node) map[string]bool {
	names := map[string]bool{}
	mark := func(e ast.Expr) {
		if r := gioRoot(e); r != "" {
			names[r] = true
		}
	}
	for _, n := range nodes {
		if n == nil {
			continue
		}
		ast.Inspect(n, func(m ast.Node) bool {
			switch x := m.(type) {
			case *ast.AssignStmt:
				if x.Tok != token.DEFINE { // inside the node := always declares (a deeper scope)
					for _, l := range x.Lhs {
						mark(l)
					}
				}
			case *ast.IncDecStmt:
				mark(x.X)
			case *ast.CallExpr:
				if se, ok := x.Fun.(*ast.SelectorExpr); ok {
					mark(se.X)
				}
				if id, ok := x.Fun.(*ast.Ident); ok {
					if id.Name == "delete" && len(x.Args) > 0 {
						mark(x.Args[0])
					}
					if g, ok := gioFuncs[id.Name]; ok {
						for i, a := range x.Args {
							if i < len(g.params) {
								for _, o := range g.outs {
									if o.name == g.params[i].name {
										mark(a)
									}
								}
							}
						}
					}
				}
			}
			return true
		})
	}
	return names
}

func (t *gioTr) assigned(c gioCtx, nodes ...ast.Node) []gioVar {
	names := t.assignedNames(c, nodes...)
	var out []gioVar
	seen := map[string]bool{}
	for i := len(c.vars) - 1; i >= 0; i-- { // the innermost variable of each name
		v := c.vars[i]
		if names[v.name] && !seen[v.name] {
			seen[v.name] = true
			out = append([]gioVar{v}, out...)
		}
	}
	return out
}

func gioVarNames(vs []gioVar) []string {
	var out []string
	for _, v := range vs {
		out = append(out, v.coq)
	}
	return out
}

func gioVarTypes(vs []gioVar) []string {
	var out []string
	for _, v := range vs {
		out = append(out, v.t.coq())
	}
	return out
}

// ------------------------------------------------------------------ statements

func (t *gioTr) declare(n ast.Node, c *gioCtx, name string, ty *gioT) string {
	if _, isFn := gioFuncs[name]; isFn {
		t.fail(n, "%s shadows a function", name)
	}
	if ty.k == "const" || ty.k == "nil" || ty.k == "bad" {
		t.fail(n, "variable %s of a type that is not understood", name)
		ty = gioInt
	}
	if v, dup := c.lookup(name); dup && v.depth == c.depth {
		t.fail(n, "%s is declared twice in one scope", name)
	}
	coq := "v_" + name
	t.names[coq]++
	if k := t.names[coq]; k > 1 {
		coq = fmt.Sprintf("v_%s_%d", name, k)
	}
	c.vars = append(append([]gioVar{}, c.vars...), gioVar{name, coq, ty, c.depth})
	return coq
}

// simple: a statement without control flow, as a prefix "let .. in\n" / "do .. <- ..;\n"
func (t *gioTr) simple(st ast.Stmt, c *gioCtx) (string, bool) {
	var pre []string
	wrap := func(s string) string { return strings.Join(pre, "") + s }
	switch x := st.(type) {
	case *ast.DeclStmt:
		gd, ok := x.Decl.(*ast.GenDecl)
		if !ok || gd.Tok != token.VAR {
			return "", false
		}
		text := ""
		for _, sp := range gd.Specs {
			vs := sp.(*ast.ValueSpec)
			if vs.Type == nil || len(vs.Values) != 0 {
				t.fail(st, "only `var x T` is understood")
				return "", true
			}
			ty := gioResolve(t.p, vs.Type, "")
			z, ok := ty.zero()
			if !ok {
				t.fail(st, "var of a type without zero value in the translation")
				return "", true
			}
			for _, n := range vs.Names {
				text += "let " + t.declare(st, c, n.Name, ty) + " := " + z + " in\n"
			}
		}
		return text, true
	case *ast.IncDecStmt:
		a, ta := t.expr(x.X, *c, &pre)
		if ta.k != "int" {
			t.fail(st, "%s on a %s", x.Tok, ta.name())
			return "", true
		}
		op := " + 1"
		if x.Tok == token.DEC {
			op = " - 1"
		}
		return wrap(t.store(x.X, "("+a+op+")", ta, c, &pre)), true
	case *ast.ExprStmt:
		ce, ok := x.X.(*ast.CallExpr)
		if !ok {
			return "", false
		}
		if id, ok := ce.Fun.(*ast.Ident); ok && id.Name == "delete" && len(ce.Args) == 2 {
			if _, shadowed := c.lookup("delete"); !shadowed {
				m, tm := t.expr(ce.Args[0], *c, &pre)
				k, tk := t.expr(ce.Args[1], *c, &pre)
				if tm.k != "map" || !gioIsBytes(tk) {
					t.fail(st, "delete not understood")
					return "", true
				}
				return wrap(t.store(ce.Args[0], "(gio_map_del "+m+" "+k+")", tm, c, &pre)), true
			}
		}
		if text, _, _, ok := t.callStmt(ce, c); ok {
			return text, true
		}
		t.fail(st, "statement not understood: %s", t.src(st))
		return "", true
	case *ast.AssignStmt:
		if x.Tok != token.DEFINE && x.Tok != token.ASSIGN {
			t.fail(st, "assignment operator %s", x.Tok)
			return "", true
		}
		// the values and their types
		var vals []string
		var tys []*gioT
		text := ""
		if len(x.Rhs) == 1 && len(x.Lhs) == 2 {
			if ie, ok := x.Rhs[0].(*ast.IndexExpr); ok { // v, ok := m[k]
				m, tm := t.expr(ie.X, *c, &pre)
				k, tk := t.expr(ie.Index, *c, &pre)
				if tm.k != "map" || !gioIsBytes(tk) {
					t.fail(st, "v, ok := x[k] on something that is not a map")
					return "", true
				}
				z, _ := tm.elem.zero()
				vals = []string{"(gio_map_get " + m + " " + k + " " + z + ")", "(gio_map_has " + m + " " + k + ")"}
				tys = []*gioT{tm.elem, gioBool}
			}
		}
		if vals == nil && len(x.Rhs) == 1 {
			if ce, ok := x.Rhs[0].(*ast.CallExpr); ok {
				if ctext, res, resT, ok := t.callStmt(ce, c); ok {
					text, vals, tys = ctext, res, resT
				}
			}
		}
		if vals == nil {
			if len(x.Rhs) != len(x.Lhs) || len(x.Lhs) != 1 {
				t.fail(st, "assignment with %d left and %d right sides", len(x.Lhs), len(x.Rhs))
				return "", true
			}
			a, ta := t.expr(x.Rhs[0], *c, &pre)
			vals, tys = []string{a}, []*gioT{ta}
		}
		if len(vals) != len(x.Lhs) {
			t.fail(st, "%d values assigned to %d places", len(vals), len(x.Lhs))
			return "", true
		}
		text = strings.Join(pre, "") + text
		pre = nil
		for i, l := range x.Lhs {
			val, ty := vals[i], tys[i]
			isNew := false
			if x.Tok == token.DEFINE {
				id, ok := l.(*ast.Ident)
				if !ok {
					t.fail(st, ":= on something that is not a variable")
					return "", true
				}
				if id.Name == "_" {
					continue
				}
				v, exists := c.lookup(id.Name)
				isNew = !exists || v.depth != c.depth
				if isNew {
					if ty.k == "const" {
						val, ty = t.coerce(x.Rhs[0], val, ty, gioInt)
					}
					text += "let " + t.declare(st, c, id.Name, ty) + " := " + val + " in\n"
					continue
				}
			}
			if ty.k == "const" || ty.k == "nil" {
				var p2 []string
				_, tl := t.expr(l, *c, &p2)
				val, ty = t.coerce(x.Rhs[0], val, ty, tl)
			}
			var p2 []string
			s := t.store(l, val, ty, c, &p2)
			text += strings.Join(p2, "") + s
		}
		return text, true
	}
	return "", false
}

func gioRestrict(inner, outer gioCtx) gioCtx {
	r := outer
	r.vars = inner.vars[:len(outer.vars)]
	return r
}

func (t *gioTr) cond(e ast.Expr, c *gioCtx) (string, string) {
	if ce, ok := e.(*ast.CallExpr); ok {
		if text, res, resT, ok := t.callStmt(ce, c); ok {
			if len(res) != 1 || resT[0].k != "bool" {
				t.fail(e, "a call used as a condition must answer one bool")
				return text, "false"
			}
			return text, res[0]
		}
	}
	var pre []string
	ct, tc := t.expr(e, *c, &pre)
	if tc.k != "bool" {
		t.fail(e, "a condition is expected")
		return "", "false"
	}
	return strings.Join(pre, ""), ct
}

func (c gioCtx) enter() gioCtx {
	c.depth++
	return c
}

func (t *gioTr) stmts(list []ast.Stmt, c gioCtx, k func(gioCtx) string) string {
	if len(list) == 0 {
		return k(c)
	}
	st, rest := list[0], list[1:]
	memo, have := "", false
	next := func(c2 gioCtx) string {
		if !have {
			memo, have = t.stmts(rest, c2, k), true
		}
		return memo
	}
	switch x := st.(type) {
	case *ast.ReturnStmt:
		return t.ret(x, c)
	case *ast.BranchStmt:
		if x.Label != nil {
			t.fail(st, "labels are not understood")
			return "Panic"
		}
		switch x.Tok {
		case token.BREAK:
			if c.brk == nil {
				t.fail(st, "break is not understood here")
				return "Panic"
			}
			return c.brk()
		case token.CONTINUE:
			if c.cont == nil {
				t.fail(st, "continue outside a loop")
				return "Panic"
			}
			return c.cont()
		}
		t.fail(st, "%s is not understood", x.Tok)
		return "Panic"
	case *ast.BlockStmt:
		return t.stmts(x.List, c.enter(), func(c2 gioCtx) string { return next(gioRestrict(c2, c)) })
	case *ast.IfStmt:
		return t.ifStmt(x, c, next)
	case *ast.ForStmt:
		return t.forStmt(x, c, next)
	case *ast.RangeStmt:
		return t.rangeStmt(x, c, next)
	}
	if text, ok := t.simple(st, &c); ok {
		return text + next(c)
	}
	t.fail(st, "statement not understood: %s", t.src(st))
	return "Panic"
}

func (t *gioTr) ifStmt(x *ast.IfStmt, c gioCtx, next func(gioCtx) string) string {
	c1 := c.enter()
	initText := ""
	if x.Init != nil {
		txt, ok := t.simple(x.Init, &c1)
		if !ok {
			t.fail(x.Init, "if init statement not understood")
		}
		initText = txt
	}
	pre, ct := t.cond(x.Cond, &c1)
	head := initText + pre + "if " + ct + " then\n"
	elseList := ggElse(x)
	c2 := c1.enter()
	back := func(c3 gioCtx) gioCtx { return gioRestrict(c3, c) }
	if !gioEscapes(x) {
		vs := t.assigned(c, x)
		if len(vs) == 0 {
			t.fail(x, "an if that changes nothing")
			return "Panic"
		}
		okPat := "Ok " + ggTuple(gioVarNames(vs))
		thenT := t.stmts(x.Body.List, c2, func(gioCtx) string { return okPat })
		elseT := t.stmts(elseList, c2, func(gioCtx) string { return okPat })
		inner := head + gsIndent(thenT) + "\nelse\n" + gsIndent(elseT)
		return "do " + ggTuple(gioVarNames(vs)) + " <- (\n" + gsIndent(inner) + ");\n" + next(c)
	}
	// the rest of the block is reached from the branches that fall through: once = in place, more often = through
	// a local continuation taking the outer variables the if may have changed
	_ = back
	t.nk++
	ph := fmt.Sprintf("@K%d@", t.nk)
	kname := fmt.Sprintf("k%d", t.nk)
	thenT := t.stmts(x.Body.List, c2, func(gioCtx) string { return ph })
	elseT := t.stmts(elseList, c2, func(gioCtx) string { return ph })
	nextT := next(c)
	if strings.Count(thenT, ph)+strings.Count(elseT, ph) <= 1 {
		thenT = strings.ReplaceAll(thenT, ph, nextT)
		elseT = strings.ReplaceAll(elseT, ph, nextT)
		return head + gsIndent(thenT) + "\nelse\n" + gsIndent(elseT)
	}
	vs := t.assigned(c, x)
	var lam, call string
	switch len(vs) {
	case 0:
		lam, call = "fun (_ : unit) =>\n", kname+" tt"
	case 1:
		lam, call = "fun ("+vs[0].coq+" : "+vs[0].t.coq()+") =>\n", kname+" "+vs[0].coq
	default:
		lam = "fun (p : " + ggTypeTuple(gioVarTypes(vs)) + ") => let '" + ggTuple(gioVarNames(vs)) + " := p in\n"
		call = kname + " " + ggTuple(gioVarNames(vs))
	}
	thenT = strings.ReplaceAll(thenT, ph, call)
	elseT = strings.ReplaceAll(elseT, ph, call)
	return "let " + kname + " := (" + lam + gsIndent(nextT) + ") in\n" + head + gsIndent(thenT) + "\nelse\n" + gsIndent(elseT)
}

func (t *gioTr) outsTuple(res []string, c gioCtx) string {
	parts := append([]string{}, res...)
	for _, o := range t.f.outs {
		parts = append(parts, o.coq)
	}
	return gioTupleOrUnit(parts)
}

func (t *gioTr) ret(x *ast.ReturnStmt, c gioCtx) string {
	if len(x.Results) == 1 && len(t.f.results) > 1 {
		if ce, ok := x.Results[0].(*ast.CallExpr); ok {
			if text, res, resT, ok := t.callStmt(ce, &c); ok {
				if len(res) != len(t.f.results) {
					t.fail(x, "return of a call with %d values, the function has %d results", len(res), len(t.f.results))
					return "Panic"
				}
				for i := range res {
					if !gioSame(resT[i], t.f.results[i]) {
						t.fail(x, "result %d: a %s where a %s is expected", i, resT[i].name(), t.f.results[i].name())
					}
				}
				return text + c.retv(t.outsTuple(res, c))
			}
		}
	}
	var pre []string
	var res []string
	if len(x.Results) != len(t.f.results) {
		t.fail(x, "return with %d values, the function has %d results", len(x.Results), len(t.f.results))
		return "Panic"
	}
	for i, r := range x.Results {
		a, ta := t.expr(r, c, &pre)
		a, ta = t.coerce(r, a, ta, t.f.results[i])
		if !gioSame(ta, t.f.results[i]) {
			t.fail(r, "result %d: a %s where a %s is expected", i, ta.name(), t.f.results[i].name())
		}
		res = append(res, a)
	}
	return strings.Join(pre, "") + c.retv(t.outsTuple(res, c))
}

func (t *gioTr) resultType() string {
	var tys []string
	for _, r := range t.f.results {
		tys = append(tys, r.coq())
	}
	for _, o := range t.f.outs {
		tys = append(tys, o.t.coq())
	}
	return gioTypeTupleOrUnit(tys)
}

// loopDef emits the Fixpoint of a loop and answers its call; body contains @REC@ where the loop continues.
// over != "": a range loop, structural over the list (text over) with the index counter.
func (t *gioTr) loopDef(c gioCtx, res []gioVar, body string, resType string, over, overType, exit, bind string) string {
	var ps []gioVar
	for _, v := range c.vars {
		if gsMentions(body, v.coq) || gsMentions(exit, v.coq) {
			ps = append(ps, v)
		}
	}
	for _, r := range res {
		found := false
		for _, v := range ps {
			if v.coq == r.coq {
				found = true
			}
		}
		if !found {
			ps = append(ps, r)
		}
	}
	name := fmt.Sprintf("%s_loop%d", t.f.coq, len(t.loops)+1)
	var sig, recArgs, callArgs []string
	if gsMentions(body, "fuel'") {
		sig = append(sig, "(fuel' : nat)")
		recArgs = append(recArgs, "fuel'")
		callArgs = append(callArgs, "fuel'")
	}
	if over == "" {
		sig = append(sig, "(k : nat)")
		recArgs = append(recArgs, "k'")
		callArgs = append(callArgs, "fuel'")
	} else {
		sig = append(sig, "(l : list "+overType+")", "(i : Z)")
		recArgs = append(recArgs, "l'", "(i + 1)")
		callArgs = append(callArgs, over, "0")
	}
	for _, v := range ps {
		sig = append(sig, "("+v.coq+" : "+v.t.coq()+")")
		recArgs = append(recArgs, v.coq)
		callArgs = append(callArgs, v.coq)
	}
	body = strings.ReplaceAll(body, "@REC@", name+" "+strings.Join(recArgs, " "))
	var def string
	if over == "" {
		def = "Fixpoint " + name + " " + strings.Join(sig, " ") + " {struct k} : outcome " + resType + " :=\n" +
			"  match k with\n  | O => Panic\n  | S k' =>\n" + gsIndent(gsIndent(body)) + "\n  end.\n"
	} else {
		def = "Fixpoint " + name + " " + strings.Join(sig, " ") + " {struct l} : outcome " + resType + " :=\n" +
			"  match l with\n  | [] => " + exit + "\n  | x :: l' =>\n" + gsIndent(gsIndent(bind+body)) + "\n  end.\n"
	}
	t.loops = append(t.loops, def)
	return name + " " + strings.Join(callArgs, " ")
}

func (t *gioTr) forStmt(x *ast.ForStmt, c gioCtx, next func(gioCtx) string) string {
	if x.Init != nil || x.Post != nil {
		t.fail(x, "a for loop with init / post statement")
		return "Panic"
	}
	hasRet := gsContainsReturn(x.Body)
	canExit := x.Cond != nil || gioHasBreak(x.Body)
	var nodes []ast.Node
	nodes = append(nodes, x.Body)
	if x.Cond != nil {
		nodes = append(nodes, x.Cond)
	}
	res := t.assigned(c, nodes...)
	vtuple := gioTupleOrUnit(gioVarNames(res))
	vtype := gioTypeTupleOrUnit(gioVarTypes(res))
	cb := c.enter()
	cb.cont = func() string { return "@REC@" }
	var exit, resType string
	switch {
	case !hasRet:
		if len(res) == 0 {
			t.fail(x, "a loop that changes nothing")
			return "Panic"
		}
		if !canExit {
			t.fail(x, "a loop that can neither end nor return")
			return "Panic"
		}
		exit, resType = "Ok "+vtuple, vtype
	case !canExit:
		cb.retv = func(tp string) string { return "Ok " + tp }
		cb.retPlain = true
		resType = t.resultType()
	default:
		cb.retv = func(tp string) string { return "Ok (inl " + tp + ")" }
		cb.retPlain = false
		exit = "Ok (inr " + vtuple + ")"
		resType = "(" + t.resultType() + " + " + vtype + ")"
	}
	if canExit {
		cb.brk = func() string { return exit }
	} else {
		cb.brk = nil
	}
	body := ""
	if x.Cond != nil {
		cc := cb
		pre, ct := t.cond(x.Cond, &cc)
		iter := t.stmts(x.Body.List, cc.enter(), func(gioCtx) string { return "@REC@" })
		body = pre + "if " + ct + " then\n" + gsIndent(iter) + "\nelse\n" + gsIndent(exit)
	} else {
		body = t.stmts(x.Body.List, cb.enter(), func(gioCtx) string { return "@REC@" })
	}
	call := t.loopDef(c, res, body, resType, "", "", "", "")
	return t.afterLoop(c, call, hasRet, canExit, vtuple, next)
}

func (t *gioTr) afterLoop(c gioCtx, call string, hasRet, canExit bool, vtuple string, next func(gioCtx) string) string {
	switch {
	case !hasRet:
		return "do " + vtuple + " <- " + call + ";\n" + next(c)
	case !canExit:
		if c.retPlain {
			return call
		}
		tmp := t.tmp()
		return "do " + tmp + " <- " + call + ";\n" + c.retv(tmp)
	}
	tmp, r := t.tmp(), t.tmp()
	return "do " + tmp + " <- " + call + ";\nmatch " + tmp + " with\n| inl " + r + " => " + c.retv(r) + "\n| inr " + vtuple + " =>\n" + gsIndent(next(c)) + "\nend"
}

func (t *gioTr) rangeStmt(x *ast.RangeStmt, c gioCtx, next func(gioCtx) string) string {
	if x.Tok != token.DEFINE {
		t.fail(x, "a range loop that does not declare its variables")
		return "Panic"
	}
	var pre []string
	over, to := t.expr(x.X, c, &pre)
	var elem *gioT
	switch to.k {
	case "list":
		elem = to.elem
	case "cs":
		elem = to.elem
		over = "(fst " + over + ")"
	default:
		t.fail(x, "range over a %s", to.name())
		return "Panic"
	}
	keyName, valName := "", ""
	if id, ok := x.Key.(*ast.Ident); ok && id.Name != "_" {
		keyName = id.Name
	} else if x.Key != nil && !ok {
		t.fail(x, "range key not understood")
	}
	if x.Value != nil {
		if id, ok := x.Value.(*ast.Ident); ok {
			if id.Name != "_" {
				valName = id.Name
			}
		} else {
			t.fail(x, "range value not understood")
		}
	}
	hasRet := gsContainsReturn(x.Body)
	names := t.assignedNames(c, x.Body)
	if keyName != "" && names[keyName] || valName != "" && names[valName] {
		t.fail(x, "a range variable is assigned inside the loop")
	}
	res := t.assigned(c, x.Body)
	// the range variables are not outer variables even if they share a name with one
	vtuple := gioTupleOrUnit(gioVarNames(res))
	vtype := gioTypeTupleOrUnit(gioVarTypes(res))
	cb := c.enter()
	cb.cont = func() string { return "@REC@" }
	if id, ok := x.X.(*ast.Ident); ok {
		rg := map[string]string{}
		for k, v := range c.ranged {
			rg[k] = v
		}
		rg[id.Name] = keyName
		cb.ranged = rg
	}
	bind := ""
	if keyName != "" {
		bind += "let " + t.declare(x, &cb, keyName, gioInt) + " := i in\n"
	}
	if valName != "" {
		bind += "let " + t.declare(x, &cb, valName, elem) + " := x in\n"
	}
	var exit, resType string
	if !hasRet {
		if len(res) == 0 {
			t.fail(x, "a loop that changes nothing")
			return "Panic"
		}
		exit, resType = "Ok "+vtuple, vtype
	} else {
		cb.retv = func(tp string) string { return "Ok (inl " + tp + ")" }
		cb.retPlain = false
		exit = "Ok (inr " + vtuple + ")"
		resType = "(" + t.resultType() + " + " + vtype + ")"
	}
	cb.brk = func() string { return exit }
	body := t.stmts(x.Body.List, cb.enter(), func(gioCtx) string { return "@REC@" })
	call := t.loopDef(c, res, body, resType, over, elem.coq(), exit, bind)
	return strings.Join(pre, "") + t.afterLoop(c, call, hasRet, true, vtuple, next)
}

// ------------------------------------------------------------------ functions

// the arguments the body writes through: x[..] = v, delete(x.., k), x.Add(..), or handing x to a callee that does
func gioWrittenThrough(fd *ast.FuncDecl) map[string]bool {
	names := map[string]bool{}
	ast.Inspect(fd.Body, func(m ast.Node) bool {
		switch x := m.(type) {
		case *ast.AssignStmt:
			if x.Tok == token.ASSIGN {
				for _, l := range x.Lhs {
					if _, plain := l.(*ast.Ident); !plain {
						if r := gioRoot(l); r != "" {
							names[r] = true
						}
					}
				}
			}
		case *ast.CallExpr:
			if id, ok := x.Fun.(*ast.Ident); ok {
				if id.Name == "delete" && len(x.Args) > 0 {
					if r := gioRoot(x.Args[0]); r != "" {
						names[r] = true
					}
				}
				if g, ok := gioFuncs[id.Name]; ok {
					for i, a := range x.Args {
						if i < len(g.params) {
							for _, o := range g.outs {
								if o.name == g.params[i].name {
									if r := gioRoot(a); r != "" {
										names[r] = true
									}
								}
							}
						}
					}
				}
			}
		}
		return true
	})
	return names
}

func gioSignature(p *pkgInfo, f *gioFunc) bool {
	fd := f.fd
	bad := func(format string, a ...interface{}) bool {
		problem("internal/io/csv.go translation, function %s: %s", f.goName, fmt.Sprintf(format, a...))
		return false
	}
	if fd.Recv != nil {
		return bad("a method")
	}
	written := gioWrittenThrough(fd)
	for _, fl := range fd.Type.Params.List {
		if len(fl.Names) == 0 {
			return bad("an argument without name")
		}
		for _, n := range fl.Names {
			ty := gioResolve(p, fl.Type, f.goName+"."+n.Name)
			if ty.k == "bad" {
				return bad("argument %s has a type that is not understood", n.Name)
			}
			v := gioVar{n.Name, "v_" + n.Name, ty, 0}
			f.params = append(f.params, v)
			if written[n.Name] {
				switch ty.k {
				case "list", "map", "struct":
					f.outs = append(f.outs, v)
				default:
					return bad("argument %s (a %s) is written through", n.Name, ty.name())
				}
			}
		}
	}
	if fd.Type.Results != nil {
		i := 0
		for _, fl := range fd.Type.Results.List {
			if len(fl.Names) > 0 {
				return bad("named results")
			}
			ty := gioResolve(p, fl.Type, fmt.Sprintf("%s.result%d", f.goName, i))
			if ty.k == "bad" {
				return bad("result type not understood")
			}
			f.results = append(f.results, ty)
			i++
		}
	}
	return true
}

func gioNeedsFuel(f *gioFunc) bool {
	need := false
	ast.Inspect(f.fd.Body, func(n ast.Node) bool {
		switch x := n.(type) {
		case *ast.ForStmt:
			need = true
		case *ast.CallExpr:
			if id, ok := x.Fun.(*ast.Ident); ok {
				if g, ok := gioFuncs[id.Name]; ok && g.done && g.needsFuel {
					need = true
				}
			}
		}
		return true
	})
	return need
}

func gioTranslate(p *pkgInfo, f *gioFunc) {
	t := &gioTr{p: p, f: f, names: map[string]int{}}
	c := gioCtx{retv: func(tp string) string { return "Ok " + tp }, retPlain: true}
	c.vars = append(c.vars, f.params...)
	for _, v := range c.vars {
		t.names[v.coq] = 1
		if _, isFn := gioFuncs[v.name]; isFn {
			t.fail(f.fd, "argument %s shadows a function", v.name)
		}
	}
	// a threaded argument must keep its Coq name: it may not be shadowed
	ast.Inspect(f.fd.Body, func(n ast.Node) bool {
		if fl, ok := n.(*ast.FuncLit); ok {
			t.fail(fl, "a closure")
			return false
		}
		return true
	})
	body := t.stmts(f.fd.Body.List, c.enter(), func(c2 gioCtx) string {
		if len(f.results) != 0 {
			t.fail(f.fd, "the function can fall off its end")
		}
		return "Ok " + t.outsTuple(nil, c2)
	})
	for _, o := range f.outs {
		if t.names[o.coq] > 1 {
			t.fail(f.fd, "the threaded argument %s is shadowed", o.name)
		}
	}
	var sig []string
	if f.needsFuel {
		sig = append(sig, "(fuel : nat)")
	}
	for _, v := range c.vars {
		sig = append(sig, "("+v.coq+" : "+v.t.coq()+")")
	}
	var b strings.Builder
	fmt.Fprintf(&b, "(* %s\n%s *)\n", gioPkg, gsSource(p, f.fd))
	for _, l := range t.loops {
		b.WriteString(l)
	}
	if f.needsFuel {
		fmt.Fprintf(&b, "Definition %s %s : outcome %s :=\n  match fuel with\n  | O => Panic\n  | S fuel' =>\n%s\n  end.\n",
			f.coq, strings.Join(sig, " "), t.resultType(), gsIndent(gsIndent(body)))
	} else {
		if gsMentions(body, "fuel'") {
			t.fail(f.fd, "a function without fuel uses fuel")
		}
		fmt.Fprintf(&b, "Definition %s %s : outcome %s :=\n%s.\n", f.coq, strings.Join(sig, " "), t.resultType(), gsIndent(body))
	}
	f.text = b.String()
	f.ok = !t.bad
}

// the string constants of /repo/types
func gioConstBlock() (string, bool) {
	tp := loadPkg("types")
	var b strings.Builder
	ok := true
	for _, n := range gioTypeConsts {
		e, found := tp.consts[n]
		if !found {
			problem("internal/io/csv.go translation: constant types.%s not found", n)
			ok = false
			continue
		}
		bl, isLit := e.(*ast.BasicLit)
		if !isLit || bl.Kind != token.STRING {
			problem("internal/io/csv.go translation: constant types.%s is not a string literal", n)
			ok = false
			continue
		}
		s, err := strconv.Unquote(bl.Value)
		if err != nil {
			ok = false
			continue
		}
		fmt.Fprintf(&b, "Definition gio_c_types_%s : bytes := %s.  (* %q *)\n", n, gioBytesLit(s), s)
	}
	return b.String(), ok
}

func genIoCsv() string {
	p := loadPkg(gioPkg)
	gioLoadStructs(p)
	gioFuncs = map[string]*gioFunc{}
	var order []*gioFunc
	for _, n := range gioSpecs {
		f := &gioFunc{goName: n, coq: "gio_" + n}
		gioFuncs[n] = f
		order = append(order, f)
	}
	structsOK := true
	for _, s := range gioStructs {
		if !gioStructTab[s].ok {
			structsOK = false
		}
	}
	for _, f := range order {
		fd, ok := p.funcs[f.goName]
		if !ok || fd.Body == nil {
			problem("internal/io/csv.go translation: function %s not found in %s", f.goName, gioPkg)
			f.done = true
			continue
		}
		f.fd = fd
		if !structsOK || !gioSignature(p, f) {
			f.fd = nil
			f.done = true
			continue
		}
		f.needsFuel = gioNeedsFuel(f)
		gioTranslate(p, f)
		f.done = true
	}
	golden := ""
	if fl := flag.Lookup("golden"); fl != nil && fl.Value.String() != "" {
		if gb, err := os.ReadFile(filepath.Join(fl.Value.String(), "GenIoCsv.v")); err == nil {
			golden = string(gb)
		}
	}
	block := func(b *strings.Builder, name, text string, ok bool) {
		if !ok {
			old, found := gfGoldenBlock(golden, name)
			if !found {
				return
			}
			text = "(* FALLBACK " + name + ": not derivable from the current source; text of the last validated tree *)\n" + old
		}
		fmt.Fprintf(b, "(* BEGIN %s *)\n%s(* END %s *)\n\n", name, text, name)
	}
	var b strings.Builder
	b.WriteString(gioPreamble)
	ct, cok := gioConstBlock()
	block(&b, "gio_c_types", ct, cok)
	for _, sn := range gioStructs {
		s := gioStructTab[sn]
		text := ""
		if s.ok {
			text = "(* " + gioPkg + "\n" + ggStructSource(p, sn) + " *)\n" + s.record()
		}
		block(&b, "gio_"+sn, text, s.ok)
	}
	b.WriteString(gioSection)
	for _, f := range order {
		block(&b, f.coq, f.text, f.ok)
	}
	b.WriteString("End GenIoCsv.\n")
	return b.String()
}
