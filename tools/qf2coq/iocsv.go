package main

// genIoCsv: placeholder until the translation of this part of the library is written (an empty generated file).
func genIoCsv() string { return "" }
