package main

// Translation of the frame bookkeeping of qframe.go (package qframe) into Gallina (coq/Gen/GenQFrameOps.v, tie T1
// for the frame-level operations: properties C08, C10, C06, C01).
//
// The functions listed in qoSpecs are translated statement by statement into definitions gq_<Receiver>_<name>:
// withErr, withIndex, Contains, Len, ColumnNames, checkColumns, Select, Drop, Slice, setColumn, Copy, constCount,
// createColumn, New, apply0, apply1, apply2, Apply, WithRowNums, FilteredApply, Sort, Equals, Eval, ColumnTypes,
// ColumnTypeMap (qframe.go) and NewStringSet, StringSet.Contains (internal/strings/set.go).  coq/Proofs/GenQFrameOpsProofs.v proves every generated definition equal — through the
// representation relation stated there — to the hand-written model function of coq/Model/Ops.v / Model/Frame.v that
// the proofs of the properties and the frameops engine use (with_err, with_ix, contains, frame_len, col_names, select,
// drop, slice, set_column, copy, create_column, new_frame, apply0, apply1, apply2, apply, with_row_nums,
// filtered_apply, SortFrame.sort_frame, equals, Eval.eval, col_type), so that an edit of
// one of these Go functions changes the generated text and breaks a named theorem T1_qframe_<name> of
// coq/Properties/T1QFrame.v.
//
// THE SCHEME (anything that does not fit is reported through problem(...); the block then keeps the text of the
// golden copy, marked FALLBACK, so that the development still builds — the exit status says the tie is broken).
//
//	structs     namedColumn, QFrame, Instruction, ConstInt/Float/Bool/String, newqf.Config, qfstrings.StringBlob
//	            become Records gq_<T> generated from the Go type declarations, one field per Go field in declaration
//	            order (the embedded column.Column is the field Column; a method of column.Column called on a
//	            namedColumn is the promoted one), with setters gq_<T>_set_<f>; a record takes as parameters exactly
//	            the abstract types it mentions.  x.f -> (gq_T_f x); x.f = e -> let x :=
//	            gq_T_set_f x e; a keyed composite literal T{f: e} -> gq_mk_T with the missing fields zero.  Frames
//	            are VALUES (the Go methods have value receivers): nothing is shared between the record and its
//	            copies except the backing stores of slices and maps, see "freshness".
//	abstract    A = a row id (element of index.Int; no arithmetic on it; used as a position s[i] it goes through the
//	            variable id_int), E = an error value, C = a column.Column value (col_nil its nil), F64 = float64
//	            (f64_zero its zero), EC = ecolumn.Column, CF = newqf.ConfigFunc, CL = FilterClause, CMP =
//	            column.Comparable, CTX = *eval.Context, ECF = eval.ConfigFunc, EXPR = Expression, DT = types.DataType
//	            (dt_zero its zero), OTHER = a value of a dynamic type no type switch names.
//	boundary    Nothing below qframe.go is translated here.  The functions and methods listed in qoBoundary /
//	            qoColMethods / qoFrameBoundary are section variables <pkg>_<Fn> / col_<Method> / qf_<method>, typed
//	            from their Go signatures (text-matched), answering outcome T (they may panic): the per-type column
//	            constructors icolumn.New .. ecolumn.NewConst, scolumn.NewBytes, Column.Len / Apply1 / Apply2 /
//	            Comparable / Equals / DataType, index.NewAscending, newqf.NewConfig, eval.NewConfig; QFrame.Filter
//	            (translated by filterclause.go over an abstract frame type), expr.execute of an Expression
//	            (translated by exprtree.go over an abstract frame type: expr_execute).  sort.Strings(s) is the
//	            variable sort_strings; fmt.Sprintf(format, effect-free args..) used as a VALUE is gq_sprintf format.
//	sorter      sorter := qfsort.New(ix, columns); sorter.Sort() (both text-matched; internal/sort is translated by
//	            sorter.go) sorts ix in place through the Sorter that shares it: do t <- qfsort_Sort ix columns; ix :=
//	            t, accepted only when ix is fresh — x := y.withIndex(z.Copy()) makes x.index fresh (Int.Copy and
//	            withIndex text-matched).  A Sort that sorts qf.index itself is rejected, not translated.
//	            A variable is declared in the block of the first function that uses it.
//	errors      error -> option E (nil = None).  qerrors.New(op, reason, args...) -> Some (new_error op reason):
//	            the format arguments only reach the message text; they must be free of effects (identifiers,
//	            fields, len, reflect.TypeOf) and are dropped.  qerrors.Propagate(op, err) -> Some (propagate op err);
//	            an operation written fmt.Sprintf(format, effect-free args..) is represented by its format string.
//	            qfstrings.CheckName(s) is called in its TRANSLATED form (Gen/GenFuncs.v: gf_strings_CheckName, tied
//	            to Ops.check_name by T1_CheckName): gq_CheckName s = None when it answers true, Some
//	            (checkname_error s) otherwise.  unknownCol(c) (a Sprintf, body text-matched) is the variable unknownCol.
//	strings     string -> bytes; == on strings is bytes_eqb; a literal is its bytes.  *string -> option bytes;
//	            &s[i] for a string element -> Some s[i] (strings are never written, so the pointer is its pointee).
//	integers    Go int -> Z, exact (positions, lengths, counts; overflow of int is outside the translation as it
//	            is outside the model); x > y is (y <? x); len(..) -> Z.of_nat (length ..); ix.Len() (body
//	            text-matched) likewise; uint32(e) -> gq_u32 e (wraps).
//	slices      []T -> list T; nil and the empty slice are both [].  make([]T, n [, c]) -> gq_make zero n c (Panic
//	            for a negative length or c < n; gq_make0 c for length 0 of an element type without zero), make([]T, 0)
//	            -> []; s[i] -> gq_index s i, s[i] = v -> gq_update
//	            (Panic outside the range); append(s, x) -> s ++ [x]; copy(d, s) -> gq_copy d s; f(s...) passes s;
//	            s[a:b] -> gq_slice s a b: Panic unless 0 <= a <= b <= len(s).  Capacities are not represented: Go
//	            accepts b up to cap(s); the translation is conservative there (the theorem of Slice shows the
//	            fault unreachable: the bounds are checked against Len() first).
//	maps        map[string]V -> gq_map V = list (bytes * V), an association list WITHOUT repeated keys in the
//	            order of first insertion: m[k] -> gq_mget_or zero m k, v, ok := m[k] -> gq_mget_or / gq_mhas,
//	            m[k] = v -> gq_mset (replaces in place or appends), delete(m, k) -> gq_mdel, len(m) -> length,
//	            make(map..) and map[string]T{} -> [].  StringSet is map[string]struct{} (ss.Add(s), body text-matched, is gq_mset).
//	            for k, v := range m visits the entries in an order Go leaves open and may change from one
//	            statement to the next: every range-over-map statement has its own section variable
//	            gq_<f>_orderN : forall V, gq_map V -> gq_map V, and the loop ranges over  gq_<f>_orderN _ m.  The
//	            theorems are proved for EVERY such function that answers a permutation of its argument.
//	interface{} a value of type interface{} / types.DataSlice / types.DataFuncOrBuiltInId is a value TAGGED with its
//	            dynamic type: Inductive
//	            gq_dyn with one constructor gq_dyn_<type> per type that a type switch or type assertion of the
//	            translated functions names (collected from the source), gq_dyn_nil (the nil interface) and
//	            gq_dyn_other (any other dynamic type).  switch t := x.(type) -> match x with constructor arms in
//	            source order, the default clause (or falling out of the switch) the final wildcard arm; if v, ok
//	            := x.(T); ok -> a match with two arms; storing a typed value into an interface{} variable applies
//	            the constructor of its type.  case column.Column (an interface) is the constructor for "a Column
//	            of a type not named before it".
//	freshness   Slices and maps are references.  The value reading above is exact only if a store never reaches
//	            an array or map that somebody else can see.  The translator therefore accepts s[i] = v, copy(s, ..),
//	            m[k] = v, delete, ss.Add, sort.Strings(s) only when s / m is a path that THIS function assigned from
//	            make(..) (and since then only from append to itself) on the straight line leading to the store — a
//	            make inside one branch of an if does not count after the if — or a field of a value-result pointer
//	            parameter.  A setColumn that writes into qf.columns (no header copy) is rejected, not translated.
//	pointers    config *newqf.Config is a value-result parameter: the callee answers the new Config as an extra
//	            result and the caller continues with it (the pointer comes from newqf.NewConfig, a fresh struct
//	            nobody else holds).
//	results     every function answers outcome T (Panic = Go panic); several results are a tuple; named results are
//	            accepted when the body never mentions them.  There is NO
//	            fuel: every loop is a range loop over a slice or map evaluated once, nothing is recursive.
//	statements  x := e; a, b := e1, e2; v, ok := m[k]; a, b := f(..); a, b = f(..); var x T; lvalue = e (paths of
//	            fields and indices); x++; copy(..); delete(..); ss.Add(..); sort.Strings(..) -> let / do.
//	            A := in an inner block of a name that is live outside is rejected (shadowing).
//	conditions  a && b, a || b are if-then-else (Go's short circuit); when b can panic the whole condition is
//	            bound first:  do t <- (if a then (..; Ok b) else Ok false).
//	if, switch  if init; cond { } : the init statement first (its names end with the if).  No return inside:
//	            do (assigned outer variables) <- (if c then ..; Ok (..) else ..; Ok (..)); rest.  Otherwise the rest
//	            of the block is continued inside the branches that fall through (the same text in each).
//	range       for i, v := range X { body }: Definition gq_f_loopN := fix loop (l : list T) [(v_i : Z)] (variables
//	            it mentions) {struct l}, numbered in order of completion; [] => EXIT, v :: l' => body; loop l'
//	            [(v_i + 1)] (current values).  A loop without return answers the outer variables it assigns.  A
//	            loop with a return inside (only at the top level of a function) also contains the statements
//	            that follow it (EXIT = the rest of the function).
//	functions   a value of type func() T is gq_func0 T = a state and a step function (a closure over variables that it
//	            alone holds).  t() -> do (r, t) <- gq_func0_call t: the result and the function value in its next
//	            state (a loop that calls t threads it).  func() T { return e } with e free of effects and no store
//	            into a captured variable -> gq_func0_pure e.  A literal that stores into captured variables
//	            (WithRowNums: i++; return i) -> gq_mk_func0 (captured variables) (fun them => body answering the
//	            result and their new values); accepted only inside a return statement, so that the enclosing
//	            function never sees those variables again.
//	rejected    for with a condition, break, continue, goto, labels, expression switch, defer, other closures and
//	            function types, stores through pointers other than the value-result parameter, everything else.

import (
	"flag"
	"fmt"
	"go/ast"
	"go/token"
	"os"
	"path/filepath"
	"strings"
)

const qoRoot = "."
const qoStrPkg = "internal/strings"

type qoSpec struct{ pkg, fn string }

// in emission order (callees first)
var qoSpecs = []qoSpec{
	{qoStrPkg, "NewStringSet"}, {qoStrPkg, "StringSet.Contains"},
	{qoRoot, "QFrame.withErr"}, {qoRoot, "QFrame.withIndex"}, {qoRoot, "QFrame.Contains"}, {qoRoot, "QFrame.Len"},
	{qoRoot, "QFrame.ColumnNames"}, {qoRoot, "QFrame.checkColumns"}, {qoRoot, "QFrame.Select"}, {qoRoot, "QFrame.Drop"},
	{qoRoot, "QFrame.Slice"}, {qoRoot, "QFrame.setColumn"}, {qoRoot, "QFrame.Copy"},
	{qoRoot, "constCount"}, {qoRoot, "createColumn"}, {qoRoot, "New"},
	{qoRoot, "QFrame.apply0"}, {qoRoot, "QFrame.apply1"}, {qoRoot, "QFrame.apply2"}, {qoRoot, "QFrame.Apply"},
	{qoRoot, "QFrame.WithRowNums"}, {qoRoot, "QFrame.FilteredApply"},
	{qoRoot, "QFrame.Sort"}, {qoRoot, "QFrame.Equals"}, {qoRoot, "QFrame.Eval"},
	{qoRoot, "QFrame.ColumnTypes"}, {qoRoot, "QFrame.ColumnTypeMap"},
}

// the methods of column.Column the translated functions call (below the abstraction boundary): the text of the
// method in the interface declaration
var qoColMethods = map[string]string{
	"Len":        "func() int",
	"Apply1":     "func(fn interface{}, ix index.Int) (interface{}, error)",
	"Apply2":     "func(fn interface{}, s2 Column, ix index.Int) (Column, error)",
	"Comparable": "func(reverse, equalNull, nullLast bool) Comparable",
	"Equals":     "func(index index.Int, other Column, otherIndex index.Int) bool",
	"DataType":   "func() types.DataType",
}

// their parameter and result types in the translation
func qoColMethodSig(m string) (params []*qoT, res *qoT) {
	ids := qoSlice(qoK("id"))
	switch m {
	case "Apply1":
		return []*qoT{qoK("dyn"), ids}, &qoT{k: "tuple", parts: []*qoT{qoK("dyn"), qoK("err")}}
	case "Apply2":
		return []*qoT{qoK("dyn"), qoK("col"), ids}, &qoT{k: "tuple", parts: []*qoT{qoK("col"), qoK("err")}}
	case "Comparable":
		return []*qoT{qoK("bool"), qoK("bool"), qoK("bool")}, qoK("cmp")
	case "Equals":
		return []*qoT{ids, qoK("col"), ids}, qoK("bool")
	case "DataType":
		return nil, qoK("dtype")
	}
	return nil, nil
}

// the methods of QFrame that are called but not translated here (section variables qf_<name>)
var qoFrameBoundary = []struct{ fn, sig string }{
	{"Filter", "func (qf QFrame) Filter(clause FilterClause) QFrame"},
}

// the structs read from the source: the name as package qframe writes it, the package, the declared name
var qoStructSpecs = []struct{ key, pkg, name, coq string }{
	{"namedColumn", qoRoot, "namedColumn", ""}, {"QFrame", qoRoot, "QFrame", ""},
	{"ConstString", qoRoot, "ConstString", ""}, {"ConstInt", qoRoot, "ConstInt", ""}, {"ConstFloat", qoRoot, "ConstFloat", ""}, {"ConstBool", qoRoot, "ConstBool", ""},
	{"newqf.Config", "config/newqf", "Config", ""}, {"qfstrings.StringBlob", qoStrPkg, "StringBlob", ""},
	{"Instruction", qoRoot, "Instruction", ""}, {"Order", qoRoot, "Order", ""}, {"eval.Config", "config/eval", "Config", "EvalConfig"},
}

// the functions below the abstraction boundary: package, name, the signature the translation stands for
var qoBoundary = []struct{ pkg, fn, sig string }{
	{"internal/icolumn", "New", "func New(d []int) Column"}, {"internal/icolumn", "NewConst", "func NewConst(val int, count int) Column"},
	{"internal/fcolumn", "New", "func New(d []float64) Column"}, {"internal/fcolumn", "NewConst", "func NewConst(val float64, count int) Column"},
	{"internal/bcolumn", "New", "func New(d []bool) Column"}, {"internal/bcolumn", "NewConst", "func NewConst(val bool, count int) Column"},
	{"internal/scolumn", "New", "func New(strings []*string) Column"}, {"internal/scolumn", "NewConst", "func NewConst(val *string, count int) Column"},
	{"internal/scolumn", "NewBytes", "func NewBytes(pointers []qfstrings.Pointer, bytes []byte) Column"},
	{"internal/ecolumn", "New", "func New(data []*string, values []string) (Column, error)"},
	{"internal/ecolumn", "NewConst", "func NewConst(val *string, count int, values []string) (Column, error)"},
	{"internal/index", "NewAscending", "func NewAscending(size uint32) Int"},
	{"config/newqf", "NewConfig", "func NewConfig(fns []ConfigFunc) *Config"},
	{"config/eval", "NewConfig", "func NewConfig(ff []ConfigFunc) Config"},
}

// the text the fixed vocabulary stands for (printed by go/printer)
var qoVocabulary = []struct{ pkg, fn, text string }{
	{"internal/index", "Int.Len", "func (ix Int) Len() int {\n\treturn len(ix)\n}"},
	{"internal/index", "Int.Copy", "func (ix Int) Copy() Int {\n\tnewIndex := make(Int, len(ix))\n\tcopy(newIndex, ix)\n\treturn newIndex\n}"},
	{"internal/sort", "New", "func New(ix index.Int, columns []column.Comparable) Sorter {\n\treturn Sorter{index: ix, columns: columns}\n}"},
	{"internal/sort", "Sorter.Sort", "func (s Sorter) Sort() {\n\tn := s.Len()\n\tquickSort(s, 0, n, maxDepth(n))\n}"},
	{qoRoot, "QFrame.withIndex", "func (qf QFrame) withIndex(ix index.Int) QFrame {\n\treturn QFrame{Err: qf.Err, columns: qf.columns, columnsByName: qf.columnsByName, index: ix}\n}"},
	{qoStrPkg, "StringSet.Add", "func (ss StringSet) Add(s string) {\n\tss[s] = struct{}{}\n}"},
	{qoRoot, "unknownCol", "func unknownCol(c string) string {\n\treturn fmt.Sprintf(`unknown column: \"%s\"`, c)\n}"},
	{"qerrors", "New", "func New(operation, reason string, params ...interface{}) Error"},
	{"qerrors", "Propagate", "func Propagate(operation string, err error) Error"},
	{qoStrPkg, "CheckName", "func CheckName(name string) error"},
}

// the type declarations the translation stands for, beside the structs it reads
var qoTypeTexts = []struct{ pkg, name, text string }{
	{"internal/index", "Int", "[]uint32"},
	{qoStrPkg, "StringSet", "map[string]struct{}"},
	{qoStrPkg, "Pointer", "uint64"},
	{"types", "DataSlice", "interface{}"},
	{"types", "DataFuncOrBuiltInId", "interface{}"},
	{"types", "ColumnName", "string"},
	{"config/eval", "ConfigFunc", "func(*Config)"},
	{"config/newqf", "ConfigFunc", "func(c *Config)"},
}

const qoPreamble = `(* GENERATED by tools/qf2coq (qframeops.go) from qframe.go and internal/strings/set.go of tobgu/qframe — do not
   edit.  One Record gq_<T> per struct, Inductive gq_dyn for interface{} values (a constructor per dynamic type the
   type switches name), one definition gq_<Receiver>_<function> per translated Go function, one Definition .._loopN
   (a fix over the ranged list) per loop; the scheme is described at the top of tools/qf2coq/qframeops.go.
   A = row id, E = error value, C = column.Column, F64 = float64, EC = ecolumn.Column, CF = newqf.ConfigFunc,
   CL = FilterClause, OTHER = a value of an unlisted dynamic type are abstract; everything below qframe.go (column
   constructors and methods, index.NewAscending, newqf.NewConfig, sort.Strings, QFrame.Filter) is a section variable.
   A map with string keys is an association list without repeated keys (gq_map); every range over a map has its
   own variable .._orderN for the order Go leaves open; a func() T value is a state with a step (gq_func0).  Every
   function answers outcome T (Panic = Go panic); there is no fuel: every loop ranges over a list. *)
From QF Require Import Base.Prelude Gen.GenFuncs.
Local Open Scope Z_scope.

(* uint32(e) *)
Definition gq_u32 (x : Z) : Z := x mod 4294967296.
(* make([]T, n, c), s[i], s[i] = v, copy(d, s), s[a:b] *)
Definition gq_make {T : Type} (zero : T) (n c : Z) : outcome (list T) :=
  if (n <? 0) || (c <? n) then Panic else Ok (repeat zero (Z.to_nat n)).
Definition gq_make0 {T : Type} (c : Z) : outcome (list T) :=
  if c <? 0 then Panic else Ok [].
Definition gq_index {T : Type} (s : list T) (i : Z) : outcome T :=
  if i <? 0 then Panic else idx s (Z.to_nat i).
Definition gq_update {T : Type} (s : list T) (i : Z) (v : T) : outcome (list T) :=
  if i <? 0 then Panic else do _ <- idx s (Z.to_nat i); Ok (set_nth s (Z.to_nat i) v).
Definition gq_copy {T : Type} (d s : list T) : list T :=
  firstn (length d) s ++ skipn (length s) d.
Definition gq_slice {T : Type} (s : list T) (a b : Z) : outcome (list T) :=
  if (a <? 0) || (b <? a) || (Z.of_nat (length s) <? b) then Panic
  else Ok (firstn (Z.to_nat (b - a)) (skipn (Z.to_nat a) s)).
(* a function value func() T: a state and a step (a Go closure over variables that it alone holds); f() *)
Inductive gq_func0 (T : Type) : Type := gq_mk_func0 (S : Type) (s : S) (next : S -> outcome (T * S)).
Arguments gq_mk_func0 {T S}.
Definition gq_func0_call {T : Type} (f : gq_func0 T) : outcome (T * gq_func0 T) :=
  match f with gq_mk_func0 s next => do r <- next s; Ok (fst r, gq_mk_func0 (snd r) next) end.
Definition gq_func0_pure {T : Type} (v : T) : gq_func0 T := gq_mk_func0 tt (fun s => Ok (v, s)).
(* x == nil for an error *)
Definition gq_isnil {T : Type} (p : option T) : bool := match p with None => true | Some _ => false end.
(* map[string]V: m[k], _, ok := m[k], m[k] = v, delete(m, k) *)
Definition gq_map (V : Type) : Type := list (bytes * V).
Fixpoint gq_mget {V : Type} (m : gq_map V) (k : bytes) : option V :=
  match m with
  | [] => None
  | (k', v) :: r => if bytes_eqb k' k then Some v else gq_mget r k
  end.
Definition gq_mget_or {V : Type} (zero : V) (m : gq_map V) (k : bytes) : V :=
  match gq_mget m k with Some v => v | None => zero end.
Definition gq_mhas {V : Type} (m : gq_map V) (k : bytes) : bool :=
  match gq_mget m k with Some _ => true | None => false end.
Fixpoint gq_mset {V : Type} (m : gq_map V) (k : bytes) (v : V) : gq_map V :=
  match m with
  | [] => [(k, v)]
  | (k', v') :: r => if bytes_eqb k' k then (k', v) :: r else (k', v') :: gq_mset r k v
  end.
Fixpoint gq_mdel {V : Type} (m : gq_map V) (k : bytes) : gq_map V :=
  match m with
  | [] => []
  | (k', v') :: r => if bytes_eqb k' k then r else (k', v') :: gq_mdel r k
  end.

`

// ------------------------------------------------------------------ types

type qoT struct {
	k     string // int bool string byte f64 optstr err col ecol cf fn clause id unit dyn nil bad slice map struct tuple
	elem  *qoT
	sname string // struct: the key of the struct; map: "StringSet" for the named map type
	parts []*qoT // tuple
	ptr   bool   // struct reached through a value-result pointer
}

func qoK(k string) *qoT { return &qoT{k: k} }

var qoBad = qoK("bad")

func qoSlice(e *qoT) *qoT { return &qoT{k: "slice", elem: e} }
func qoMap(e *qoT) *qoT   { return &qoT{k: "map", elem: e} }

func (t *qoT) same(u *qoT) bool {
	if t.k != u.k {
		return false
	}
	switch t.k {
	case "slice", "map", "func0":
		return t.elem.same(u.elem)
	case "struct":
		return t.sname == u.sname
	case "tuple":
		if len(t.parts) != len(u.parts) {
			return false
		}
		for i := range t.parts {
			if !t.parts[i].same(u.parts[i]) {
				return false
			}
		}
	}
	return true
}

// the abstract types of the section, in the order in which the generated types take them
var qoTypeParams = []string{"A", "E", "C", "F64", "EC", "OTHER", "CF", "CL", "CMP", "CTX", "ECF", "EXPR", "DT"}

// params: the abstract types a translation type mentions
func (t *qoT) params(into map[string]bool) {
	switch t.k {
	case "err":
		into["E"] = true
	case "col":
		into["C"] = true
	case "id":
		into["A"] = true
	case "f64":
		into["F64"] = true
	case "ecol":
		into["EC"] = true
	case "cf":
		into["CF"] = true
	case "func0":
		t.elem.params(into)
	case "clause":
		into["CL"] = true
	case "cmp":
		into["CMP"] = true
	case "ctx":
		into["CTX"] = true
	case "ecf":
		into["ECF"] = true
	case "expr":
		into["EXPR"] = true
	case "dtype":
		into["DT"] = true
	case "slice", "map":
		t.elem.params(into)
	case "tuple":
		for _, p := range t.parts {
			p.params(into)
		}
	case "struct":
		if s := qoStructOf(t.sname); s != nil {
			for _, f := range s.fields {
				f.ty.params(into)
			}
		}
	case "dyn":
		for _, d := range qoDyn {
			d.ty.params(into)
		}
		into["OTHER"] = true
	}
}

func qoParamList(ty *qoT) []string {
	m := map[string]bool{}
	ty.params(m)
	var out []string
	for _, p := range qoTypeParams {
		if m[p] {
			out = append(out, p)
		}
	}
	return out
}

func qoApplied(name string, ps []string) string {
	if len(ps) == 0 {
		return name
	}
	return "(" + name + " " + strings.Join(ps, " ") + ")"
}

func (t *qoT) coq() string {
	switch t.k {
	case "int":
		return "Z"
	case "bool":
		return "bool"
	case "string":
		return "bytes"
	case "byte":
		return "N"
	case "f64":
		return "F64"
	case "optstr":
		return "(option bytes)"
	case "err":
		return "(option E)"
	case "col":
		return "C"
	case "ecol":
		return "EC"
	case "cf":
		return "CF"
	case "func0":
		return "(gq_func0 " + t.elem.coq() + ")"
	case "clause":
		return "CL"
	case "cmp":
		return "CMP"
	case "ctx":
		return "CTX"
	case "ecf":
		return "ECF"
	case "expr":
		return "EXPR"
	case "dtype":
		return "DT"
	case "id":
		return "A"
	case "unit":
		return "unit"
	case "dyn":
		return qoApplied("gq_dyn", qoParamList(t))
	case "slice":
		return "(list " + t.elem.coq() + ")"
	case "map":
		return "(gq_map " + t.elem.coq() + ")"
	case "struct":
		if s := qoStructOf(t.sname); s != nil {
			return qoApplied("gq_"+s.name, qoParamList(t))
		}
	case "tuple":
		var ps []string
		for _, p := range t.parts {
			ps = append(ps, p.coq())
		}
		return gcTypeTuple(ps)
	}
	return "?"
}

type qoField struct {
	name string
	ty   *qoT
}

type qoStruct struct {
	key    string // as package qframe writes the type
	name   string // the declared name
	fields []qoField
}

var qoStructs []*qoStruct

func qoStructOf(key string) *qoStruct {
	for _, s := range qoStructs {
		if s.key == key {
			return s
		}
	}
	return nil
}

// the dynamic types of interface{} values: one constructor of gq_dyn per type that a type switch or a type
// assertion of the translated functions names
type qoDynCase struct {
	text string // the Go type as written
	ctor string
	ty   *qoT
}

var qoDyn []qoDynCase

func qoDynOf(text string) *qoDynCase {
	for i := range qoDyn {
		if qoDyn[i].text == text {
			return &qoDyn[i]
		}
	}
	return nil
}

func qoMangle(text string) string {
	r := strings.NewReplacer("[]", "slice_", "*", "ptr_", ".", "_", "func() ", "func_")
	return r.Replace(text)
}

func (t *qoT) zero() (string, bool) {
	switch t.k {
	case "int":
		return "0", true
	case "bool":
		return "false", true
	case "string":
		return "(@nil N)", true
	case "byte":
		return "0%N", true
	case "f64":
		return "f64_zero", true
	case "dtype":
		return "dt_zero", true
	case "err", "optstr":
		return "None", true
	case "col":
		return "col_nil", true
	case "unit":
		return "tt", true
	case "dyn":
		return "gq_dyn_nil", true
	case "slice", "map":
		return "[]", true
	case "struct":
		s := qoStructOf(t.sname)
		if s == nil {
			return "", false
		}
		parts := []string{"gq_mk_" + s.name}
		for _, f := range s.fields {
			z, ok := f.ty.zero()
			if !ok {
				return "", false
			}
			parts = append(parts, z)
		}
		return "(" + strings.Join(parts, " ") + ")", true
	}
	return "", false
}

// qoResolve maps the text of a Go type expression to a translation type
func qoResolve(pkg, src string) *qoT {
	switch src {
	case "int", "uint32":
		return qoK("int")
	case "bool":
		return qoK("bool")
	case "string":
		return qoK("string")
	case "byte":
		return qoK("byte")
	case "float64":
		return qoK("f64")
	case "*string":
		return qoK("optstr")
	case "error":
		return qoK("err")
	case "struct{}":
		return qoK("unit")
	case "interface{}":
		return qoK("dyn")
	}
	if strings.HasPrefix(src, "[]") {
		if e := qoResolve(pkg, src[2:]); e.k != "bad" {
			return qoSlice(e)
		}
		return qoBad
	}
	if strings.HasPrefix(src, "...") {
		if e := qoResolve(pkg, src[3:]); e.k != "bad" {
			return qoSlice(e)
		}
		return qoBad
	}
	if strings.HasPrefix(src, "func() ") {
		if e := qoResolve(pkg, src[len("func() "):]); e.k != "bad" && e.k != "tuple" {
			return &qoT{k: "func0", elem: e}
		}
		return qoBad
	}
	if strings.HasPrefix(src, "map[string]") {
		if e := qoResolve(pkg, src[len("map[string]"):]); e.k != "bad" {
			return qoMap(e)
		}
		return qoBad
	}
	if pkg == qoRoot {
		switch src {
		case "column.Column":
			return qoK("col")
		case "ecolumn.Column":
			return qoK("ecol")
		case "index.Int":
			return qoSlice(qoK("id"))
		case "types.DataSlice":
			return qoK("dyn")
		case "newqf.ConfigFunc":
			return qoK("cf")
		case "types.DataFuncOrBuiltInId":
			return qoK("dyn")
		case "types.ColumnName":
			return qoK("string")
		case "FilterClause":
			return qoK("clause")
		case "column.Comparable":
			return qoK("cmp")
		case "eval.ConfigFunc":
			return qoK("ecf")
		case "Expression":
			return qoK("expr")
		case "types.DataType":
			return qoK("dtype")
		case "qfstrings.StringSet":
			return &qoT{k: "map", elem: qoK("unit"), sname: "StringSet"}
		case "*newqf.Config":
			if qoStructOf("newqf.Config") != nil {
				return &qoT{k: "struct", sname: "newqf.Config", ptr: true}
			}
			return qoBad
		}
		if qoStructOf(src) != nil {
			return &qoT{k: "struct", sname: src}
		}
		return qoBad
	}
	// the other packages: their own names for the types
	switch {
	case pkg == qoStrPkg && src == "StringSet":
		return &qoT{k: "map", elem: qoK("unit"), sname: "StringSet"}
	case (pkg == qoStrPkg && src == "Pointer") || src == "qfstrings.Pointer":
		return qoK("int")
	case strings.HasSuffix(pkg, "column") && src == "Column":
		return qoK("col")
	case pkg == "internal/index" && src == "Int":
		return qoSlice(qoK("id"))
	case pkg == "config/newqf" && src == "ConfigFunc":
		return qoK("cf")
	case pkg == "config/eval" && src == "ConfigFunc":
		return qoK("ecf")
	case pkg == "config/eval" && src == "*Context":
		return qoK("ctx")
	case pkg == "config/eval" && src == "Config":
		if qoStructOf("eval.Config") != nil {
			return &qoT{k: "struct", sname: "eval.Config"}
		}
	case pkg == "config/newqf" && src == "*Config":
		if qoStructOf("newqf.Config") != nil {
			return &qoT{k: "struct", sname: "newqf.Config", ptr: true}
		}
	}
	return qoBad
}

// qoLoadStructs reads the struct declarations the translation uses
func qoLoadStructs() bool {
	qoStructs = nil
	okAll := true
	for _, sp := range qoStructSpecs {
		p := loadPkg(sp.pkg)
		var st *ast.StructType
		for _, f := range p.files {
			for _, d := range f.Decls {
				gd, ok := d.(*ast.GenDecl)
				if !ok || gd.Tok != token.TYPE {
					continue
				}
				for _, s := range gd.Specs {
					ts := s.(*ast.TypeSpec)
					if ts.Name.Name == sp.name {
						st, _ = ts.Type.(*ast.StructType)
					}
				}
			}
		}
		if st == nil {
			problem("qframe translation: struct %s not found in %s", sp.name, sp.pkg)
			okAll = false
			continue
		}
		s := &qoStruct{key: sp.key, name: sp.name}
		if sp.coq != "" {
			s.name = sp.coq
		}
		qoStructs = append(qoStructs, s)
		for _, fl := range st.Fields.List {
			src := gcSrc(p.fset, fl.Type)
			ty := qoResolve(sp.pkg, src)
			if ty.k == "bad" {
				problem("qframe translation: field of %s has a type outside the scheme: %s", sp.name, src)
				okAll = false
				continue
			}
			if len(fl.Names) == 0 { // embedded: the field is called like the type
				s.fields = append(s.fields, qoField{src[strings.LastIndex(src, ".")+1:], ty})
			}
			for _, id := range fl.Names {
				s.fields = append(s.fields, qoField{id.Name, ty})
			}
		}
	}
	return okAll
}

func qoRecord(s *qoStruct) string {
	var b strings.Builder
	self := &qoT{k: "struct", sname: s.key}
	ps := qoParamList(self)
	bind, impl := "", ""
	if len(ps) > 0 {
		bind = " (" + strings.Join(ps, " ") + " : Type)"
		impl = " {" + strings.Join(ps, " ") + "}"
	}
	fmt.Fprintf(&b, "Record gq_%s%s := gq_mk_%s {\n", s.name, bind, s.name)
	for i, f := range s.fields {
		sep := ";"
		if i == len(s.fields)-1 {
			sep = " }."
		}
		fmt.Fprintf(&b, "  gq_%s_%s : %s%s\n", s.name, f.name, f.ty.coq(), sep)
	}
	if impl != "" {
		fmt.Fprintf(&b, "Arguments gq_mk_%s%s.\n", s.name, impl)
		for _, f := range s.fields {
			fmt.Fprintf(&b, "Arguments gq_%s_%s%s.\n", s.name, f.name, impl)
		}
	}
	bindI := ""
	if len(ps) > 0 {
		bindI = " {" + strings.Join(ps, " ") + " : Type}"
	}
	for i, f := range s.fields {
		fmt.Fprintf(&b, "Definition gq_%s_set_%s%s (r : %s) (v : %s) : %s :=\n  gq_mk_%s", s.name, f.name, bindI, self.coq(), f.ty.coq(), self.coq(), s.name)
		for j, g := range s.fields {
			if i == j {
				b.WriteString(" v")
			} else {
				fmt.Fprintf(&b, " (gq_%s_%s r)", s.name, g.name)
			}
		}
		b.WriteString(".\n")
	}
	return b.String()
}

// qoLoadDyn collects the dynamic types named by the type switches and type assertions of the functions
func qoLoadDyn(fds []*ast.FuncDecl, fset *token.FileSet) bool {
	qoDyn = nil
	okAll := true
	add := func(e ast.Expr) {
		text := gcSrc(fset, e)
		if qoDynOf(text) != nil {
			return
		}
		ty := qoResolve(qoRoot, text)
		if ty.k == "bad" || ty.k == "dyn" {
			problem("qframe translation: dynamic type outside the scheme: %s", text)
			okAll = false
			return
		}
		qoDyn = append(qoDyn, qoDynCase{text, "gq_dyn_" + qoMangle(text), ty})
	}
	for _, fd := range fds {
		ast.Inspect(fd, func(n ast.Node) bool {
			switch x := n.(type) {
			case *ast.TypeAssertExpr:
				if x.Type != nil {
					add(x.Type)
				}
			case *ast.CaseClause:
				for _, e := range x.List {
					if _, isLit := e.(*ast.BasicLit); !isLit {
						add(e)
					}
				}
			}
			return true
		})
	}
	return okAll
}

func qoDynInductive() string {
	var b strings.Builder
	ps := qoParamList(qoK("dyn"))
	b.WriteString("(* interface{} / types.DataSlice: a value with its dynamic type; one constructor per type that a type switch or\n   a type assertion of the translated functions names, gq_dyn_nil the nil interface, gq_dyn_other anything else *)\n")
	fmt.Fprintf(&b, "Inductive gq_dyn (%s : Type) : Type :=\n| gq_dyn_nil\n", strings.Join(ps, " "))
	for _, d := range qoDyn {
		fmt.Fprintf(&b, "| %s (x : %s)   (* %s *)\n", d.ctor, d.ty.coq(), d.text)
	}
	b.WriteString("| gq_dyn_other (x : OTHER).\n")
	impl := " {" + strings.Join(ps, " ") + "}"
	fmt.Fprintf(&b, "Arguments gq_dyn_nil%s.\n", impl)
	for _, d := range qoDyn {
		fmt.Fprintf(&b, "Arguments %s%s.\n", d.ctor, impl)
	}
	fmt.Fprintf(&b, "Arguments gq_dyn_other%s.\n", impl)
	return b.String()
}

// ------------------------------------------------------------------ translation state

type qoVar struct {
	name  string
	coq   string
	ty    *qoT
	depth int
}

type qoFunc struct {
	spec   qoSpec
	fd     *ast.FuncDecl
	coq    string
	recv   *qoVar
	params []qoVar
	res    []*qoT
	orders []string // the order variables of its range-over-map statements
	bvars  []string // the declarations of the boundary variables it is the first to use
	ptrs   []qoVar  // its value-result pointer parameters, answered after the results
	text   string
	ok     bool
	done   bool
}

var qoFuncs map[string]*qoFunc // by "pkg:Name"

type qoCtx struct {
	vars  []qoVar
	top   bool
	depth int
}

func (c qoCtx) lookup(name string) (qoVar, bool) {
	for i := len(c.vars) - 1; i >= 0; i-- {
		if c.vars[i].name == name {
			return c.vars[i], true
		}
	}
	return qoVar{}, false
}

func (c qoCtx) inner() qoCtx {
	c.depth++
	return c
}

type qoTr struct {
	p      *pkgInfo
	f      *qoFunc
	bad    bool
	ntmp   int
	loops  []string
	nloops int
	norder int
	fresh  map[string]bool
	// sorter := qfsort.New(ix, columns): the index path and the text of the columns, by variable name
	sorters map[string][2]interface{}
	// the variables passed for the value-result pointer parameters of the last translated call
	lastPtrArgs []string
	inReturn    bool
}

// isFresh: the path holds an array or map that nobody else can see
func (t *qoTr) isFresh(e ast.Expr, c qoCtx) bool {
	if t.fresh[t.src(e)] {
		return true
	}
	if v, ok := c.lookup(gcRootIdent(e)); ok && v.ty.ptr {
		return true
	}
	return false
}

// Freshness is tracked along the straight line of a block.  At the end of a compound statement (if, switch, loop)
// the marks made inside it are dropped and the paths it assigns are no longer fresh (its branches may or may not
// have run); every branch starts from the marks that held at its beginning.
func qoCopySet(m map[string]bool) map[string]bool {
	c := map[string]bool{}
	for k, v := range m {
		if v {
			c[k] = true
		}
	}
	return c
}

func (t *qoTr) leave(snapshot map[string]bool, nodes ...ast.Node) {
	var re []string
	for _, n := range nodes {
		if n == nil {
			continue
		}
		ast.Inspect(n, func(m ast.Node) bool {
			if as, ok := m.(*ast.AssignStmt); ok {
				for _, l := range as.Lhs {
					switch l.(type) {
					case *ast.Ident, *ast.SelectorExpr:
						re = append(re, t.src(l))
					}
				}
			}
			return true
		})
	}
	nf := map[string]bool{}
	for k := range snapshot {
		bad := false
		for _, r := range re {
			if k == r || strings.HasPrefix(k, r+".") {
				bad = true
			}
		}
		if !bad {
			nf[k] = true
		}
	}
	t.fresh = nf
}

// qoEffectFree: an argument that only reaches a message text and can neither panic nor change anything
func qoEffectFree(e ast.Expr) bool {
	switch x := e.(type) {
	case *ast.Ident, *ast.BasicLit:
		return true
	case *ast.SelectorExpr:
		return qoEffectFree(x.X)
	case *ast.CallExpr:
		if id, ok := x.Fun.(*ast.Ident); ok && id.Name == "len" && len(x.Args) == 1 {
			return qoEffectFree(x.Args[0])
		}
		if se, ok := x.Fun.(*ast.SelectorExpr); ok && len(x.Args) == 1 {
			if id, ok := se.X.(*ast.Ident); ok && id.Name == "reflect" && se.Sel.Name == "TypeOf" {
				return qoEffectFree(x.Args[0])
			}
		}
	}
	return false
}

var qoBoundaryDeclared map[string]bool

// boundaryVar: the section variable for a function below the abstraction boundary, typed from its signature
func (t *qoTr) boundaryVar(n ast.Node, alias, fn string) (name string, params []*qoT, res *qoT, ok bool) {
	for _, bd := range qoBoundary {
		if bd.pkg[strings.LastIndex(bd.pkg, "/")+1:] != alias || bd.fn != fn {
			continue
		}
		bp := loadPkg(bd.pkg)
		fd, found := bp.funcs[fn]
		if !found {
			t.fail(n, "%s.%s not found", alias, fn)
			return
		}
		var rs []*qoT
		for _, fl := range fd.Type.Params.List {
			ty := qoResolve(bd.pkg, gcSrc(bp.fset, fl.Type))
			if ty.k == "bad" {
				t.fail(n, "%s.%s has a parameter type outside the scheme: %s", alias, fn, gcSrc(bp.fset, fl.Type))
				return
			}
			for range fl.Names {
				params = append(params, ty)
			}
		}
		for _, fl := range fd.Type.Results.List {
			ty := qoResolve(bd.pkg, gcSrc(bp.fset, fl.Type))
			if ty.k == "bad" {
				t.fail(n, "%s.%s has a result type outside the scheme: %s", alias, fn, gcSrc(bp.fset, fl.Type))
				return
			}
			rs = append(rs, ty)
		}
		if len(rs) == 1 {
			res = rs[0]
		} else {
			res = &qoT{k: "tuple", parts: rs}
		}
		name = alias + "_" + fn
		if !qoBoundaryDeclared[name] {
			qoBoundaryDeclared[name] = true
			sig := ""
			for _, p := range params {
				sig += p.coq() + " -> "
			}
			t.f.bvars = append(t.f.bvars, fmt.Sprintf("Variable %s : %soutcome %s.   (* %s.%s: below the abstraction boundary *)", name, sig, res.coq(), alias, fn))
		}
		return name, params, res, true
	}
	return
}

func (t *qoTr) fail(n ast.Node, format string, a ...interface{}) {
	if !t.bad {
		pos := ""
		if n != nil {
			pos = t.p.fset.Position(n.Pos()).String()
			pos = strings.TrimPrefix(pos, repo+"/") + ": "
		}
		problem("qframe translation of %s: %s%s", t.f.spec.fn, pos, fmt.Sprintf(format, a...))
	}
	t.bad = true
}

func (t *qoTr) src(n ast.Node) string { return gcSrc(t.p.fset, n) }

func (t *qoTr) tmp() string {
	t.ntmp++
	return fmt.Sprintf("t%d", t.ntmp)
}

func (t *qoTr) resolve(e ast.Expr) *qoT {
	ty := qoResolve(t.f.spec.pkg, t.src(e))
	if ty.k == "bad" {
		t.fail(e, "type outside the scheme: %s", t.src(e))
	}
	return ty
}

func (t *qoTr) coerce(n ast.Node, text string, have, want *qoT) string {
	if have.k == "bad" || want.k == "bad" {
		return text
	}
	if have.same(want) {
		return text
	}
	if have.k == "nil" && (want.k == "err" || want.k == "slice" || want.k == "map" || want.k == "col" || want.k == "optstr") {
		z, _ := want.zero()
		return z
	}
	if want.k == "dyn" { // a value stored in an interface{}: tagged with its type
		for _, d := range qoDyn {
			if d.ty.same(have) {
				return "(" + d.ctor + " " + text + ")"
			}
		}
	}
	if have.k == "ecol" && want.k == "col" { // an ecolumn.Column stored as a column.Column
		return "(ecolumn_as_Column " + text + ")"
	}
	t.fail(n, "a value of type %s stands where %s is expected: %s", have.coq(), want.coq(), t.src(n))
	return text
}

func (t *qoTr) declare(n ast.Node, c *qoCtx, name string, ty *qoT) string {
	if name == "_" {
		return "_"
	}
	if v, ok := c.lookup(name); ok && v.depth < c.depth {
		t.fail(n, "the declaration of %s in an inner block shadows a variable", name)
	} else if ok && !v.ty.same(ty) {
		t.fail(n, "the variable %s is declared again with another type", name)
	}
	c.vars = append(c.vars, qoVar{name, "v_" + name, ty, c.depth})
	return "v_" + name
}

// ------------------------------------------------------------------ expressions

func (t *qoTr) pure(e ast.Expr, c qoCtx) (string, *qoT) {
	var pre []string
	x, ty := t.expr(e, c, &pre)
	if len(pre) != 0 {
		t.fail(e, "an expression that can panic stands where a pure one is needed: %s", t.src(e))
	}
	return x, ty
}

func (t *qoTr) expr(e ast.Expr, c qoCtx, pre *[]string) (string, *qoT) {
	switch x := e.(type) {
	case *ast.ParenExpr:
		return t.expr(x.X, c, pre)
	case *ast.BasicLit:
		switch x.Kind {
		case token.INT:
			if strings.Trim(x.Value, "0123456789") == "" {
				return x.Value, qoK("int")
			}
		case token.STRING:
			if len(x.Value) >= 2 && (x.Value[0] == '"' || x.Value[0] == '`') && !strings.Contains(x.Value, "\\") {
				return coqBytes(x.Value[1 : len(x.Value)-1]), qoK("string")
			}
		}
		t.fail(e, "literal outside the scheme: %s", x.Value)
		return "0", qoBad
	case *ast.Ident:
		switch x.Name {
		case "nil":
			return "None", qoK("nil")
		case "true", "false":
			if _, shadowed := c.lookup(x.Name); !shadowed {
				return x.Name, qoK("bool")
			}
		}
		v, ok := c.lookup(x.Name)
		if !ok {
			t.fail(e, "unknown identifier %s", x.Name)
			return "0", qoBad
		}
		return v.coq, v.ty
	case *ast.SelectorExpr:
		y, ty := t.expr(x.X, c, pre)
		if ty.k == "struct" {
			st := qoStructOf(ty.sname)
			for _, f := range st.fields {
				if f.name == x.Sel.Name {
					return fmt.Sprintf("(gq_%s_%s %s)", st.name, f.name, y), f.ty
				}
			}
		}
		t.fail(e, "selector outside the scheme: %s", t.src(e))
		return "0", qoBad
	case *ast.UnaryExpr:
		switch x.Op {
		case token.NOT:
			y, ty := t.expr(x.X, c, pre)
			t.coerce(x.X, y, ty, qoK("bool"))
			return "(negb " + y + ")", qoK("bool")
		case token.SUB:
			y, ty := t.expr(x.X, c, pre)
			t.coerce(x.X, y, ty, qoK("int"))
			return "(- " + y + ")", qoK("int")
		case token.AND: // &s[i], &s for a string: the pointer is its pointee (strings are never written)
			switch x.X.(type) {
			case *ast.IndexExpr, *ast.Ident:
				y, ty := t.expr(x.X, c, pre)
				if ty.k == "string" {
					return "(Some " + y + ")", qoK("optstr")
				}
			}
		}
	case *ast.FuncLit:
		return t.funcLit(x, c)
	case *ast.IndexExpr:
		s, ty := t.expr(x.X, c, pre)
		switch ty.k {
		case "slice":
			i, ti := t.expr(x.Index, c, pre)
			i = t.position(x.Index, i, ti)
			v := t.tmp()
			*pre = append(*pre, fmt.Sprintf("do %s <- gq_index %s %s;", v, s, i))
			return v, ty.elem
		case "map":
			k, tk := t.expr(x.Index, c, pre)
			t.coerce(x.Index, k, tk, qoK("string"))
			z, ok := ty.elem.zero()
			if !ok {
				t.fail(e, "a map read whose element has no zero in the scheme")
			}
			return fmt.Sprintf("(gq_mget_or %s %s %s)", z, s, k), ty.elem
		}
		t.fail(e, "index into something that is neither a slice nor a map: %s", t.src(e))
		return "0", qoBad
	case *ast.SliceExpr:
		if x.Low != nil && x.High != nil && x.Max == nil {
			s, ty := t.expr(x.X, c, pre)
			if ty.k == "slice" {
				a, ta := t.expr(x.Low, c, pre)
				b, tb := t.expr(x.High, c, pre)
				t.coerce(x.Low, a, ta, qoK("int"))
				t.coerce(x.High, b, tb, qoK("int"))
				v := t.tmp()
				*pre = append(*pre, fmt.Sprintf("do %s <- gq_slice %s %s %s;", v, s, a, b))
				return v, ty
			}
		}
		t.fail(e, "slice expression outside the scheme: %s", t.src(e))
		return "[]", qoBad
	case *ast.CompositeLit:
		if x.Type != nil && t.src(x.Type) == "struct{}" && len(x.Elts) == 0 {
			return "tt", qoK("unit")
		}
		if _, isMap := x.Type.(*ast.MapType); isMap && len(x.Elts) == 0 { // map[string]T{}: a new empty map
			if ty := t.resolve(x.Type); ty.k == "map" {
				return "[]", ty
			}
		}
		var st *qoStruct
		if x.Type != nil {
			st = qoStructOf(t.src(x.Type))
		}
		if st == nil || t.f.spec.pkg != qoRoot || strings.Contains(st.key, ".") {
			t.fail(e, "composite literal outside the scheme: %s", t.src(e))
			return "0", qoBad
		}
		vals := map[string]string{}
		for _, el := range x.Elts {
			kv, ok := el.(*ast.KeyValueExpr)
			if !ok {
				t.fail(el, "composite literal without field names")
				continue
			}
			name := t.src(kv.Key)
			found := false
			for _, f := range st.fields {
				if f.name == name {
					found = true
					if _, dup := vals[name]; dup {
						t.fail(el, "field %s given twice", name)
					}
					y, ty := t.expr(kv.Value, c, pre)
					vals[name] = t.coerce(kv.Value, y, ty, f.ty)
				}
			}
			if !found {
				t.fail(el, "unknown field %s", name)
			}
		}
		parts := []string{"gq_mk_" + st.name}
		for _, f := range st.fields {
			if v, ok := vals[f.name]; ok {
				parts = append(parts, v)
			} else if z, ok := f.ty.zero(); ok {
				parts = append(parts, z)
			} else {
				t.fail(e, "field %s without a value has no zero in the scheme", f.name)
			}
		}
		return "(" + strings.Join(parts, " ") + ")", &qoT{k: "struct", sname: st.key}
	case *ast.BinaryExpr:
		return t.binary(x, c, pre)
	case *ast.CallExpr:
		return t.call(x, c, pre)
	}
	t.fail(e, "expression outside the scheme: %s", t.src(e))
	return "0", qoBad
}

// position: an index expression; a row id used as a position goes through id_int
func (t *qoTr) position(n ast.Node, text string, ty *qoT) string {
	if ty.k == "id" {
		return "(id_int " + text + ")"
	}
	return t.coerce(n, text, ty, qoK("int"))
}

// funcLit: func() T { body }.  Without stores into captured variables it is gq_func0_pure e (the body must be a
// single return of an expression that cannot panic).  With stores (a counter): the captured variables that the body
// assigns are its state; allowed only inside a return statement of the enclosing function, which therefore never
// sees those variables again.
func (t *qoTr) funcLit(x *ast.FuncLit, c qoCtx) (string, *qoT) {
	if x.Type.Params != nil && len(x.Type.Params.List) != 0 || x.Type.Results == nil || len(x.Type.Results.List) != 1 || len(x.Type.Results.List[0].Names) != 0 {
		t.fail(x, "function literal that is not func() T")
		return "0", qoBad
	}
	rt := t.resolve(x.Type.Results.List[0].Type)
	fty := &qoT{k: "func0", elem: rt}
	state := t.assigned(c, x.Body)
	if len(state) == 0 {
		if len(x.Body.List) == 1 {
			if rs, ok := x.Body.List[0].(*ast.ReturnStmt); ok && len(rs.Results) == 1 {
				y, ty := t.pure(rs.Results[0], c)
				return "(gq_func0_pure " + t.coerce(rs.Results[0], y, ty, rt) + ")", fty
			}
		}
		t.fail(x, "function literal without state that is not a single return")
		return "0", qoBad
	}
	if !t.inReturn {
		t.fail(x, "a function literal that stores into captured variables outside a return statement")
	}
	savedRes, savedPtrs := t.f.res, t.f.ptrs
	t.f.res, t.f.ptrs = []*qoT{rt}, state
	inner := c.inner()
	inner.top = false
	wasRet := t.inReturn
	t.inReturn = false
	body := t.stmts(x.Body.List, inner, func(c2 qoCtx) string {
		t.fail(x, "the function literal can fall off its end")
		return "Panic"
	})
	t.inReturn = wasRet
	t.f.res, t.f.ptrs = savedRes, savedPtrs
	pat := gcTuple(qoCoqNames(state))
	if len(state) > 1 {
		pat = "'" + pat
	}
	return fmt.Sprintf("(gq_mk_func0 %s (fun %s =>\n%s))", gcTuple(qoCoqNames(state)), pat, gsIndent(body)), fty
}

func (t *qoTr) binary(x *ast.BinaryExpr, c qoCtx, pre *[]string) (string, *qoT) {
	if x.Op == token.LAND || x.Op == token.LOR {
		a, ta := t.expr(x.X, c, pre)
		t.coerce(x.X, a, ta, qoK("bool"))
		var preB []string
		b, tb := t.expr(x.Y, c, &preB)
		t.coerce(x.Y, b, tb, qoK("bool"))
		if len(preB) == 0 {
			if x.Op == token.LAND {
				return fmt.Sprintf("(if %s then %s else false)", a, b), qoK("bool")
			}
			return fmt.Sprintf("(if %s then true else %s)", a, b), qoK("bool")
		}
		v := t.tmp()
		right := "(" + strings.Join(preB, " ") + " Ok " + b + ")"
		if x.Op == token.LAND {
			*pre = append(*pre, fmt.Sprintf("do %s <- (if %s then %s else Ok false);", v, a, right))
		} else {
			*pre = append(*pre, fmt.Sprintf("do %s <- (if %s then Ok true else %s);", v, a, right))
		}
		return v, qoK("bool")
	}
	a, ta := t.expr(x.X, c, pre)
	b, tb := t.expr(x.Y, c, pre)
	if ta.k == "bad" || tb.k == "bad" {
		return "0", qoBad
	}
	isNum := func(k string) bool { return k == "int" }
	switch x.Op {
	case token.ADD, token.SUB:
		if isNum(ta.k) && isNum(tb.k) {
			op := "+"
			if x.Op == token.SUB {
				op = "-"
			}
			return fmt.Sprintf("(%s %s %s)", a, op, b), qoK("int")
		}
	case token.LSS, token.LEQ, token.GTR, token.GEQ:
		if isNum(ta.k) && isNum(tb.k) {
			switch x.Op {
			case token.LSS:
				return fmt.Sprintf("(%s <? %s)", a, b), qoK("bool")
			case token.LEQ:
				return fmt.Sprintf("(%s <=? %s)", a, b), qoK("bool")
			case token.GTR:
				return fmt.Sprintf("(%s <? %s)", b, a), qoK("bool")
			default:
				return fmt.Sprintf("(%s <=? %s)", b, a), qoK("bool")
			}
		}
	case token.EQL, token.NEQ:
		text := ""
		switch {
		case tb.k == "nil" && ta.k == "err":
			text = "(gq_isnil " + a + ")"
		case ta.k == "nil" && tb.k == "err":
			text = "(gq_isnil " + b + ")"
		case isNum(ta.k) && isNum(tb.k):
			text = fmt.Sprintf("(%s =? %s)", a, b)
		case ta.k == "bool" && tb.k == "bool":
			text = fmt.Sprintf("(Bool.eqb %s %s)", a, b)
		case ta.k == "string" && tb.k == "string":
			text = fmt.Sprintf("(bytes_eqb %s %s)", a, b)
		}
		if text != "" {
			if x.Op == token.NEQ {
				text = "(negb " + text + ")"
			}
			return text, qoK("bool")
		}
	}
	t.fail(x, "operator outside the scheme (types %s, %s): %s", ta.k, tb.k, t.src(x))
	return "0", qoBad
}

// ------------------------------------------------------------------ calls

func (t *qoTr) callTranslated(g *qoFunc, x *ast.CallExpr, recv string, c qoCtx, pre *[]string) (string, *qoT) {
	if !g.done || g.text == "" {
		t.fail(x, "call of %s, which is not translated before this function", g.spec.fn)
		return "0", qoBad
	}
	variadic := false
	if n := len(g.fd.Type.Params.List); n > 0 {
		_, variadic = g.fd.Type.Params.List[n-1].Type.(*ast.Ellipsis)
	}
	parts := []string{g.coq}
	if recv != "" {
		parts = append(parts, recv)
	}
	if variadic && !x.Ellipsis.IsValid() && len(g.params) == 1 { // f(a, b): the elements of the variadic parameter
		var els []string
		for _, a := range x.Args {
			y, ty := t.expr(a, c, pre)
			els = append(els, t.coerce(a, y, ty, g.params[0].ty.elem))
		}
		v := t.tmp()
		*pre = append(*pre, fmt.Sprintf("do %s <- %s [%s];", v, strings.Join(parts, " "), strings.Join(els, "; ")))
		if len(g.res) != 1 || len(g.ptrs) != 0 {
			t.fail(x, "call outside the scheme: %s", t.src(x))
		}
		return v, g.res[0]
	}
	if len(x.Args) != len(g.params) {
		t.fail(x, "call of %s with %d arguments (it has %d parameters)", g.spec.fn, len(x.Args), len(g.params))
		return "0", qoBad
	}
	if variadic != x.Ellipsis.IsValid() {
		t.fail(x, "a variadic parameter must be passed as s...")
	}
	t.lastPtrArgs = nil
	for i, a := range x.Args {
		y, ty := t.expr(a, c, pre)
		if g.params[i].ty.ptr {
			id, isId := a.(*ast.Ident)
			_, isCall := a.(*ast.CallExpr)
			switch {
			case isId && ty.ptr:
				t.lastPtrArgs = append(t.lastPtrArgs, "v_"+id.Name)
			case isCall && ty.ptr: // a pointer nobody else holds: what the callee leaves in it is dropped
				t.lastPtrArgs = append(t.lastPtrArgs, "_")
			default:
				t.fail(a, "the pointer argument of %s must be a pointer variable or a call that makes one", g.spec.fn)
			}
		}
		parts = append(parts, t.coerce(a, y, ty, g.params[i].ty))
	}
	v := t.tmp()
	var rty *qoT
	all := append([]*qoT{}, g.res...)
	for _, pv := range g.ptrs {
		all = append(all, pv.ty)
	}
	if len(all) == 1 {
		rty = all[0]
	} else {
		rty = &qoT{k: "tuple", parts: all}
	}
	*pre = append(*pre, fmt.Sprintf("do %s <- %s;", v, strings.Join(parts, " ")))
	return v, rty
}

func (t *qoTr) call(x *ast.CallExpr, c qoCtx, pre *[]string) (string, *qoT) {
	fun := t.src(x.Fun)
	if v, isVar := c.lookup(fun); isVar {
		if v.ty.k == "func0" && len(x.Args) == 0 { // f(): the result and the function value in its next state
			r := t.tmp()
			*pre = append(*pre, fmt.Sprintf("do (%s, %s) <- gq_func0_call %s;", r, v.coq, v.coq))
			return r, v.ty.elem
		}
		t.fail(x, "call of a variable: %s", fun)
		return "0", qoBad
	}
	if fun == "string" && len(x.Args) == 1 {
		y, ty := t.expr(x.Args[0], c, pre)
		t.coerce(x.Args[0], y, ty, qoK("string"))
		return y, qoK("string")
	}
	switch fun {
	case "len":
		if len(x.Args) == 1 {
			s, ty := t.expr(x.Args[0], c, pre)
			if ty.k == "slice" || ty.k == "map" || ty.k == "string" {
				return "(Z.of_nat (length " + s + "))", qoK("int")
			}
		}
		t.fail(x, "len outside the scheme: %s", t.src(x))
		return "0", qoBad
	case "append":
		if len(x.Args) == 2 && !x.Ellipsis.IsValid() {
			s, ty := t.expr(x.Args[0], c, pre)
			v, tv := t.expr(x.Args[1], c, pre)
			if ty.k == "slice" {
				v = t.coerce(x.Args[1], v, tv, ty.elem)
				return "(" + s + " ++ [" + v + "])", ty
			}
		}
		t.fail(x, "append outside the scheme: %s", t.src(x))
		return "[]", qoBad
	case "make":
		if len(x.Args) >= 1 && len(x.Args) <= 3 {
			ty := t.resolve(x.Args[0])
			if ty.k == "map" && len(x.Args) <= 2 {
				if len(x.Args) == 2 { // the size hint: evaluated, no effect
					n, tn := t.pure(x.Args[1], c)
					t.coerce(x.Args[1], n, tn, qoK("int"))
				}
				return "[]", ty
			}
			if ty.k == "slice" && len(x.Args) >= 2 {
				n, tn := t.expr(x.Args[1], c, pre)
				t.coerce(x.Args[1], n, tn, qoK("int"))
				if len(x.Args) == 2 && n == "0" {
					return "[]", ty
				}
				cp := n
				if len(x.Args) == 3 {
					var tc *qoT
					cp, tc = t.expr(x.Args[2], c, pre)
					t.coerce(x.Args[2], cp, tc, qoK("int"))
				}
				z, ok := ty.elem.zero()
				v := t.tmp()
				if !ok && n == "0" {
					*pre = append(*pre, fmt.Sprintf("do %s <- gq_make0 %s;", v, cp))
					return v, ty
				}
				if !ok {
					t.fail(x, "make of a slice whose element has no zero in the scheme: %s", t.src(x))
				}
				*pre = append(*pre, fmt.Sprintf("do %s <- gq_make %s %s %s;", v, z, n, cp))
				return v, ty
			}
		}
		t.fail(x, "make outside the scheme: %s", t.src(x))
		return "[]", qoBad
	case "qerrors.New":
		if len(x.Args) >= 2 {
			a, ta := t.expr(x.Args[0], c, pre)
			b, tb := t.expr(x.Args[1], c, pre)
			t.coerce(x.Args[0], a, ta, qoK("string"))
			t.coerce(x.Args[1], b, tb, qoK("string"))
			for _, p := range x.Args[2:] { // format arguments: only the message text
				if !qoEffectFree(p) {
					t.fail(p, "a format argument that is not free of effects: %s", t.src(p))
				}
			}
			return fmt.Sprintf("(Some (new_error %s %s))", a, b), qoK("err")
		}
	case "qerrors.Propagate":
		if len(x.Args) == 2 {
			// fmt.Sprintf(format, effect-free arguments...) as the operation: represented by its format string
			if ce, ok := x.Args[0].(*ast.CallExpr); ok && t.src(ce.Fun) == "fmt.Sprintf" && len(ce.Args) >= 1 {
				free := true
				for _, p := range ce.Args[1:] {
					free = free && qoEffectFree(p)
				}
				if lit, isLit := ce.Args[0].(*ast.BasicLit); isLit && lit.Kind == token.STRING && free {
					a, _ := t.expr(lit, c, pre)
					b, tb := t.expr(x.Args[1], c, pre)
					t.coerce(x.Args[1], b, tb, qoK("err"))
					return fmt.Sprintf("(Some (propagate %s %s))", a, b), qoK("err")
				}
			}
			a, ta := t.expr(x.Args[0], c, pre)
			b, tb := t.expr(x.Args[1], c, pre)
			t.coerce(x.Args[0], a, ta, qoK("string"))
			t.coerce(x.Args[1], b, tb, qoK("err"))
			return fmt.Sprintf("(Some (propagate %s %s))", a, b), qoK("err")
		}
	case "qfstrings.CheckName":
		if len(x.Args) == 1 && t.f.spec.pkg == qoRoot {
			a, ta := t.expr(x.Args[0], c, pre)
			t.coerce(x.Args[0], a, ta, qoK("string"))
			return "(gq_CheckName " + a + ")", qoK("err")
		}
	case "unknownCol":
		if len(x.Args) == 1 && t.f.spec.pkg == qoRoot {
			a, ta := t.expr(x.Args[0], c, pre)
			t.coerce(x.Args[0], a, ta, qoK("string"))
			return "(unknownCol " + a + ")", qoK("string")
		}
	}
	if fun == "fmt.Sprintf" && len(x.Args) >= 1 { // the text: represented by its format, the arguments free of effects
		if lit, isLit := x.Args[0].(*ast.BasicLit); isLit && lit.Kind == token.STRING {
			for _, p := range x.Args[1:] {
				if !qoEffectFree(p) {
					t.fail(p, "a format argument that is not free of effects: %s", t.src(p))
				}
			}
			a, _ := t.expr(lit, c, pre)
			return "(gq_sprintf " + a + ")", qoK("string")
		}
	}
	if fun == "uint32" && len(x.Args) == 1 {
		y, ty := t.expr(x.Args[0], c, pre)
		t.coerce(x.Args[0], y, ty, qoK("int"))
		return "(gq_u32 " + y + ")", qoK("int")
	}
	// a translated free function
	if id, ok := x.Fun.(*ast.Ident); ok {
		if g := qoFuncs[t.f.spec.pkg+":"+id.Name]; g != nil && g.fd != nil {
			return t.callTranslated(g, x, "", c, pre)
		}
		t.fail(x, "call of a function outside the scheme: %s", fun)
		return "0", qoBad
	}
	sel, ok := x.Fun.(*ast.SelectorExpr)
	if !ok {
		t.fail(x, "call outside the scheme: %s", t.src(x))
		return "0", qoBad
	}
	if id, ok := sel.X.(*ast.Ident); ok && id.Name == "qfstrings" && t.f.spec.pkg == qoRoot {
		if _, isVar := c.lookup("qfstrings"); !isVar {
			if g := qoFuncs[qoStrPkg+":"+sel.Sel.Name]; g != nil && g.fd != nil {
				return t.callTranslated(g, x, "", c, pre)
			}
			t.fail(x, "call of a function outside the scheme: %s", fun)
			return "0", qoBad
		}
	}
	if id, ok := sel.X.(*ast.Ident); ok && t.f.spec.pkg == qoRoot {
		if _, isVar := c.lookup(id.Name); !isVar {
			if name, params, res, ok := t.boundaryVar(x, id.Name, sel.Sel.Name); ok {
				if len(x.Args) != len(params) || x.Ellipsis.IsValid() {
					t.fail(x, "call of %s with %d arguments", fun, len(x.Args))
					return "0", qoBad
				}
				parts := []string{name}
				for i, a := range x.Args {
					y, ty := t.expr(a, c, pre)
					parts = append(parts, t.coerce(a, y, ty, params[i]))
				}
				v := t.tmp()
				*pre = append(*pre, fmt.Sprintf("do %s <- %s;", v, strings.Join(parts, " ")))
				return v, res
			}
		}
	}
	m := sel.Sel.Name
	r, tr := t.expr(sel.X, c, pre)
	if tr.k == "struct" && qoColMethods[m] != "" && t.p.funcs[tr.sname+"."+m] == nil { // promoted from the embedded Column
		for _, f := range qoStructOf(tr.sname).fields {
			if f.name == "Column" && f.ty.k == "col" {
				r, tr = fmt.Sprintf("(gq_%s_Column %s)", qoStructOf(tr.sname).name, r), f.ty
			}
		}
	}
	switch {
	case tr.k == "col" && m == "Len" && len(x.Args) == 0:
		v := t.tmp()
		*pre = append(*pre, fmt.Sprintf("do %s <- col_Len %s;", v, r))
		return v, qoK("int")
	case tr.k == "col" && m != "Len" && qoColMethods[m] != "":
		params, res := qoColMethodSig(m)
		if res == nil {
			break
		}
		if len(x.Args) != len(params) {
			break
		}
		name := "col_" + m
		if !qoBoundaryDeclared[name] {
			qoBoundaryDeclared[name] = true
			sig := "C -> "
			for _, p := range params {
				sig += p.coq() + " -> "
			}
			t.f.bvars = append(t.f.bvars, fmt.Sprintf("Variable %s : %soutcome %s.   (* c.%s(..) of a column.Column: below the abstraction boundary *)", name, sig, res.coq(), m))
		}
		parts := []string{name, r}
		for i, a := range x.Args {
			y, ty := t.expr(a, c, pre)
			parts = append(parts, t.coerce(a, y, ty, params[i]))
		}
		v := t.tmp()
		*pre = append(*pre, fmt.Sprintf("do %s <- %s;", v, strings.Join(parts, " ")))
		return v, res
	case tr.k == "struct":
		if g := qoFuncs[qoRoot+":"+tr.sname+"."+m]; g != nil && g.fd != nil {
			return t.callTranslated(g, x, r, c, pre)
		}
		if tr.sname == "QFrame" {
			for _, fb := range qoFrameBoundary {
				if fb.fn != m {
					continue
				}
				fd := t.p.funcs["QFrame."+m]
				if fd == nil {
					break
				}
				var params []*qoT
				for _, fl := range fd.Type.Params.List {
					ty := t.resolve(fl.Type)
					for range fl.Names {
						params = append(params, ty)
					}
				}
				if len(params) != len(x.Args) || x.Ellipsis.IsValid() {
					break
				}
				name := "qf_" + m
				if !qoBoundaryDeclared[name] {
					qoBoundaryDeclared[name] = true
					sig := tr.coq() + " -> "
					for _, p := range params {
						sig += p.coq() + " -> "
					}
					t.f.bvars = append(t.f.bvars, fmt.Sprintf("Variable %s : %soutcome %s.   (* qf.%s(..): not translated here *)", name, sig, tr.coq(), m))
				}
				parts := []string{name, r}
				for i, a := range x.Args {
					y, ty := t.expr(a, c, pre)
					parts = append(parts, t.coerce(a, y, ty, params[i]))
				}
				v := t.tmp()
				*pre = append(*pre, fmt.Sprintf("do %s <- %s;", v, strings.Join(parts, " ")))
				return v, &qoT{k: "struct", sname: "QFrame"}
			}
		}
	case tr.k == "map" && tr.sname != "":
		if g := qoFuncs[qoStrPkg+":"+tr.sname+"."+m]; g != nil && g.fd != nil {
			return t.callTranslated(g, x, r, c, pre)
		}
	case tr.k == "slice" && tr.elem.k == "id":
		if m == "Len" && len(x.Args) == 0 {
			return "(Z.of_nat (length " + r + "))", qoK("int")
		}
		if m == "Copy" && len(x.Args) == 0 { // a fresh copy (body text-matched)
			return r, tr
		}
	case tr.k == "expr" && m == "execute" && len(x.Args) == 2:
		name := "expr_execute"
		fr := &qoT{k: "struct", sname: "QFrame"}
		res := &qoT{k: "tuple", parts: []*qoT{fr, qoK("string")}}
		if !qoBoundaryDeclared[name] {
			qoBoundaryDeclared[name] = true
			t.f.bvars = append(t.f.bvars, fmt.Sprintf("Variable %s : EXPR -> %s -> CTX -> outcome %s.   (* expr.execute(qf, ctx) of an Expression: translated by exprtree.go over an abstract frame type *)", name, fr.coq(), res.coq()))
		}
		a0, t0 := t.expr(x.Args[0], c, pre)
		a1, t1 := t.expr(x.Args[1], c, pre)
		a0 = t.coerce(x.Args[0], a0, t0, fr)
		a1 = t.coerce(x.Args[1], a1, t1, qoK("ctx"))
		v := t.tmp()
		*pre = append(*pre, fmt.Sprintf("do %s <- %s %s %s %s;", v, name, r, a0, a1))
		return v, res
	}
	t.fail(x, "call outside the scheme: %s", t.src(x))
	return "0", qoBad
}

// ------------------------------------------------------------------ statements

// qoContainsReturn: a return statement of this function (not of a function literal inside it)
func qoContainsReturn(n ast.Node) bool {
	found := false
	ast.Inspect(n, func(m ast.Node) bool {
		switch m.(type) {
		case *ast.FuncLit:
			return false
		case *ast.ReturnStmt:
			found = true
		}
		return !found
	})
	return found
}

// qoAssignedNames: the names stored into and the names declared inside the nodes
func qoAssignedNames(nodes ...ast.Node) (assigned, declared map[string]bool) {
	assigned, declared = gcAssignedNames(nodes...)
	for _, n := range nodes {
		ast.Inspect(n, func(m ast.Node) bool {
			if ce, ok := m.(*ast.CallExpr); ok {
				if id, ok := ce.Fun.(*ast.Ident); ok && len(ce.Args) == 0 {
					assigned[id.Name] = true // f(): a function value changes its state
				}
			}
			es, ok := m.(*ast.ExprStmt)
			if !ok {
				return true
			}
			ce, ok := es.X.(*ast.CallExpr)
			if !ok {
				return true
			}
			if id, ok := ce.Fun.(*ast.Ident); ok && id.Name == "delete" && len(ce.Args) > 0 {
				assigned[gcRootIdent(ce.Args[0])] = true
			}
			if se, ok := ce.Fun.(*ast.SelectorExpr); ok {
				if id, ok := se.X.(*ast.Ident); ok && id.Name == "sort" && len(ce.Args) > 0 {
					assigned[gcRootIdent(ce.Args[0])] = true
				} else if se.Sel.Name == "Add" {
					assigned[gcRootIdent(se.X)] = true
				}
			}
			return true
		})
	}
	delete(declared, "_")
	return
}

func (t *qoTr) assigned(c qoCtx, nodes ...ast.Node) []qoVar {
	as, decl := qoAssignedNames(nodes...)
	var out []qoVar
	seen := map[string]bool{}
	for i := len(c.vars) - 1; i >= 0; i-- {
		v := c.vars[i]
		if seen[v.name] {
			continue
		}
		seen[v.name] = true
		if as[v.name] {
			if decl[v.name] {
				t.fail(nodes[0], "the variable %s is stored into in a block that also declares a variable of that name", v.name)
			}
			out = append([]qoVar{v}, out...)
		}
	}
	if as["*"] {
		t.fail(nodes[0], "store through a pointer")
	}
	return out
}

func qoCoqNames(vs []qoVar) []string {
	var out []string
	for _, v := range vs {
		out = append(out, v.coq)
	}
	return out
}

func qoCoqTypes(vs []qoVar) []string {
	var out []string
	for _, v := range vs {
		out = append(out, v.ty.coq())
	}
	return out
}

// lvalue path: the text of the current value and its type, no effects
func (t *qoTr) lvalue(e ast.Expr, c qoCtx) (string, *qoT) {
	switch x := e.(type) {
	case *ast.Ident, *ast.SelectorExpr:
		return t.pure(x, c)
	}
	t.fail(e, "store target outside the scheme: %s", t.src(e))
	return "0", qoBad
}

// store emits the lines that put val into the lvalue e
func (t *qoTr) store(e ast.Expr, val string, c qoCtx, out *[]string) {
	switch x := e.(type) {
	case *ast.Ident:
		v, ok := c.lookup(x.Name)
		if !ok {
			t.fail(e, "store into something that is not a variable: %s", x.Name)
			return
		}
		*out = append(*out, fmt.Sprintf("let %s := %s in", v.coq, val))
		return
	case *ast.SelectorExpr:
		y, ty := t.lvalue(x.X, c)
		if ty.k == "struct" {
			st := qoStructOf(ty.sname)
			for _, f := range st.fields {
				if f.name == x.Sel.Name {
					t.store(x.X, fmt.Sprintf("(gq_%s_set_%s %s %s)", st.name, f.name, y, val), c, out)
					return
				}
			}
		}
	case *ast.IndexExpr:
		y, ty := t.lvalue(x.X, c)
		if !t.isFresh(x.X, c) {
			t.fail(e, "store into %s, which this function did not make (slices and maps are references: the store would be visible elsewhere)", t.src(x.X))
		}
		switch ty.k {
		case "slice":
			i, ti := t.expr(x.Index, c, out)
			i = t.position(x.Index, i, ti)
			v := t.tmp()
			*out = append(*out, fmt.Sprintf("do %s <- gq_update %s %s %s;", v, y, i, val))
			t.store(x.X, v, c, out)
			return
		case "map":
			k, tk := t.expr(x.Index, c, out)
			t.coerce(x.Index, k, tk, qoK("string"))
			t.store(x.X, fmt.Sprintf("(gq_mset %s %s %s)", y, k, val), c, out)
			return
		}
	}
	t.fail(e, "store target outside the scheme: %s", t.src(e))
}

func qoIsMake(e ast.Expr) bool {
	if cl, ok := e.(*ast.CompositeLit); ok && len(cl.Elts) == 0 {
		if _, isMap := cl.Type.(*ast.MapType); isMap {
			return true
		}
	}
	ce, ok := e.(*ast.CallExpr)
	if !ok {
		return false
	}
	id, ok := ce.Fun.(*ast.Ident)
	return ok && id.Name == "make"
}

// noteAssign keeps the set of paths that hold an array or map this function made
func (t *qoTr) noteAssign(lhs ast.Expr, rhs ast.Expr) {
	l := t.src(lhs)
	keep := false
	if ce, ok := rhs.(*ast.CallExpr); ok && len(ce.Args) == 1 { // x := y.withIndex(fresh): x.index is fresh (body text-matched)
		if se, ok := ce.Fun.(*ast.SelectorExpr); ok && se.Sel.Name == "withIndex" {
			arg := ce.Args[0]
			isCopy := false
			if ac, ok := arg.(*ast.CallExpr); ok && len(ac.Args) == 0 {
				if as, ok := ac.Fun.(*ast.SelectorExpr); ok && as.Sel.Name == "Copy" {
					isCopy = true
				}
			}
			if isCopy || qoIsMake(arg) {
				defer func() { t.fresh[l+".index"] = true }()
			}
		}
	}
	if qoIsMake(rhs) {
		keep = true
	} else if ce, ok := rhs.(*ast.CallExpr); ok && t.src(ce.Fun) == "append" && len(ce.Args) > 0 && t.src(ce.Args[0]) == l && t.fresh[l] {
		keep = true
	}
	for k := range t.fresh {
		if k == l || strings.HasPrefix(k, l+".") {
			delete(t.fresh, k)
		}
	}
	if keep {
		t.fresh[l] = true
	}
}

// simple translates a statement without control flow into lines that end in "in" or ";"
func (t *qoTr) simple(st ast.Stmt, c *qoCtx) ([]string, bool) {
	var out []string
	switch s := st.(type) {
	case *ast.AssignStmt:
		if s.Tok == token.DEFINE && len(s.Lhs) == 1 && len(s.Rhs) == 1 {
			// sorter := qfsort.New(ix, columns): the Sorter shares ix; sorter.Sort() below sorts it in place
			if ce, ok := s.Rhs[0].(*ast.CallExpr); ok && t.src(ce.Fun) == "qfsort.New" && len(ce.Args) == 2 {
				if id, ok := s.Lhs[0].(*ast.Ident); ok {
					_, ti := t.lvalue(ce.Args[0], *c)
					cm, tc := t.pure(ce.Args[1], *c)
					t.coerce(ce.Args[0], "", ti, qoSlice(qoK("id")))
					t.coerce(ce.Args[1], cm, tc, qoSlice(qoK("cmp")))
					if t.sorters == nil {
						t.sorters = map[string][2]interface{}{}
					}
					t.sorters[id.Name] = [2]interface{}{ce.Args[0], cm}
					return out, true
				}
			}
		}
		if s.Tok == token.DEFINE {
			// v, ok := m[k]
			if len(s.Lhs) == 2 && len(s.Rhs) == 1 {
				if ie, ok := s.Rhs[0].(*ast.IndexExpr); ok {
					m, tm := t.expr(ie.X, *c, &out)
					if tm.k != "map" {
						return nil, false
					}
					k, tk := t.expr(ie.Index, *c, &out)
					t.coerce(ie.Index, k, tk, qoK("string"))
					id0, ok0 := s.Lhs[0].(*ast.Ident)
					id1, ok1 := s.Lhs[1].(*ast.Ident)
					if !ok0 || !ok1 {
						return nil, false
					}
					if id0.Name != "_" {
						z, ok := tm.elem.zero()
						if !ok {
							t.fail(st, "a map read whose element has no zero in the scheme")
						}
						name := t.declare(st, c, id0.Name, tm.elem)
						out = append(out, fmt.Sprintf("let %s := (gq_mget_or %s %s %s) in", name, z, m, k))
					}
					if id1.Name != "_" {
						name := t.declare(st, c, id1.Name, qoK("bool"))
						out = append(out, fmt.Sprintf("let %s := (gq_mhas %s %s) in", name, m, k))
					}
					return out, true
				}
				if _, ok := s.Rhs[0].(*ast.CallExpr); ok {
					t.lastPtrArgs = nil
					y, ty := t.expr(s.Rhs[0], *c, &out)
					ptrArgs := t.lastPtrArgs
					if ty.k != "tuple" || len(ty.parts) != len(s.Lhs)+len(ptrArgs) {
						t.fail(st, "a call that does not answer %d values: %s", len(s.Lhs), t.src(s.Rhs[0]))
						return out, true
					}
					// the last pre line binds y: rebind it as a pattern
					var names []string
					for i, l := range s.Lhs {
						id, ok := l.(*ast.Ident)
						if !ok {
							return nil, false
						}
						names = append(names, t.declareOrAssign(st, c, id.Name, ty.parts[i]))
					}
					names = append(names, ptrArgs...)
					last := out[len(out)-1]
					out[len(out)-1] = strings.Replace(last, "do "+y+" <-", "do "+gcTuple(names)+" <-", 1)
					return out, true
				}
			}
			if len(s.Lhs) != len(s.Rhs) {
				return nil, false
			}
			var texts []string
			var tys []*qoT
			for _, r := range s.Rhs {
				x, ty := t.expr(r, *c, &out)
				if (ty.k == "nil" || ty.k == "bad" || ty.k == "tuple") && !t.bad {
					t.fail(r, "a declaration needs one typed value: %s", t.src(r))
				}
				texts = append(texts, x)
				tys = append(tys, ty)
			}
			for i, l := range s.Lhs {
				id, ok := l.(*ast.Ident)
				if !ok {
					return nil, false
				}
				for j := i + 1; j < len(texts); j++ {
					if gsMentions(texts[j], "v_"+id.Name) {
						t.fail(st, "a parallel declaration whose right side mentions a declared name")
					}
				}
				name := t.declare(l, c, id.Name, tys[i])
				out = append(out, fmt.Sprintf("let %s := %s in", name, texts[i]))
				t.noteAssign(l, s.Rhs[i])
			}
			return out, true
		}
		if s.Tok == token.ASSIGN && len(s.Lhs) >= 2 && len(s.Rhs) == 1 {
			if _, ok := s.Rhs[0].(*ast.CallExpr); !ok {
				return nil, false
			}
			t.lastPtrArgs = nil
			y, ty := t.expr(s.Rhs[0], *c, &out)
			ptrArgs := t.lastPtrArgs
			if ty.k != "tuple" || len(ty.parts) != len(s.Lhs)+len(ptrArgs) {
				t.fail(st, "a call that does not answer %d values: %s", len(s.Lhs), t.src(s.Rhs[0]))
				return out, true
			}
			var names []string
			for range s.Lhs {
				names = append(names, t.tmp())
			}
			all := append(append([]string{}, names...), ptrArgs...)
			last := out[len(out)-1]
			out[len(out)-1] = strings.Replace(last, "do "+y+" <-", "do "+gcTuple(all)+" <-", 1)
			for i, l := range s.Lhs {
				if id, ok := l.(*ast.Ident); ok && id.Name == "_" {
					continue
				}
				_, lty := t.lvalueAny(l, *c)
				x := names[i]
				if lty != nil {
					x = t.coerce(l, x, ty.parts[i], lty)
				}
				t.store(l, x, *c, &out)
			}
			return out, true
		}
		if s.Tok != token.ASSIGN || len(s.Lhs) != 1 || len(s.Rhs) != 1 {
			return nil, false
		}
		_, lty := t.lvalueAny(s.Lhs[0], *c)
		x, ty := t.expr(s.Rhs[0], *c, &out)
		if lty != nil {
			x = t.coerce(s.Rhs[0], x, ty, lty)
		}
		t.store(s.Lhs[0], x, *c, &out)
		t.noteAssign(s.Lhs[0], s.Rhs[0])
		return out, true
	case *ast.DeclStmt:
		gd, ok := s.Decl.(*ast.GenDecl)
		if !ok || gd.Tok != token.VAR {
			return nil, false
		}
		for _, sp := range gd.Specs {
			vs := sp.(*ast.ValueSpec)
			if vs.Type == nil || len(vs.Values) != 0 {
				return nil, false
			}
			ty := t.resolve(vs.Type)
			z, ok := ty.zero()
			if !ok {
				t.fail(st, "var of a type without zero in the scheme")
			}
			for _, id := range vs.Names {
				name := t.declare(id, c, id.Name, ty)
				out = append(out, fmt.Sprintf("let %s : %s := %s in", name, ty.coq(), z))
			}
		}
		return out, true
	case *ast.IncDecStmt:
		y, ty := t.lvalueAny(s.X, *c)
		if ty == nil || ty.k != "int" {
			return nil, false
		}
		op := "+"
		if s.Tok == token.DEC {
			op = "-"
		}
		t.store(s.X, fmt.Sprintf("(%s %s 1)", y, op), *c, &out)
		return out, true
	case *ast.ExprStmt:
		ce, ok := s.X.(*ast.CallExpr)
		if !ok {
			return nil, false
		}
		fun := t.src(ce.Fun)
		needFresh := func(e ast.Expr) {
			if !t.isFresh(e, *c) {
				t.fail(st, "%s changes %s, which this function did not make (slices and maps are references)", fun, t.src(e))
			}
		}
		switch {
		case fun == "copy" && len(ce.Args) == 2:
			d, td := t.lvalue(ce.Args[0], *c)
			if td.k != "slice" {
				return nil, false
			}
			needFresh(ce.Args[0])
			x, ty := t.expr(ce.Args[1], *c, &out)
			t.coerce(ce.Args[1], x, ty, td)
			t.store(ce.Args[0], fmt.Sprintf("(gq_copy %s %s)", d, x), *c, &out)
			return out, true
		case fun == "delete" && len(ce.Args) == 2:
			d, td := t.lvalue(ce.Args[0], *c)
			if td.k != "map" {
				return nil, false
			}
			needFresh(ce.Args[0])
			k, tk := t.expr(ce.Args[1], *c, &out)
			t.coerce(ce.Args[1], k, tk, qoK("string"))
			t.store(ce.Args[0], fmt.Sprintf("(gq_mdel %s %s)", d, k), *c, &out)
			return out, true
		}
		if se, ok := ce.Fun.(*ast.SelectorExpr); ok && se.Sel.Name == "Sort" && len(ce.Args) == 0 {
			if id, ok := se.X.(*ast.Ident); ok && t.sorters[id.Name][0] != nil {
				ixE := t.sorters[id.Name][0].(ast.Expr)
				cm := t.sorters[id.Name][1].(string)
				d, _ := t.lvalue(ixE, *c)
				needFresh(ixE)
				if !qoBoundaryDeclared["qfsort_Sort"] {
					qoBoundaryDeclared["qfsort_Sort"] = true
					t.f.bvars = append(t.f.bvars, "Variable qfsort_Sort : (list A) -> (list CMP) -> outcome (list A).   (* qfsort.New(ix, columns).Sort(): ix sorted in place; translated by sorter.go *)")
				}
				v := t.tmp()
				out = append(out, fmt.Sprintf("do %s <- qfsort_Sort %s %s;", v, d, cm))
				t.store(ixE, v, *c, &out)
				return out, true
			}
		}
		if fun == "sort.Strings" && len(ce.Args) == 1 { // sorts in place: the variable sort_strings
			if _, isVar := c.lookup("sort"); !isVar {
				d, td := t.lvalue(ce.Args[0], *c)
				if td.k == "slice" && td.elem.k == "string" {
					needFresh(ce.Args[0])
					t.store(ce.Args[0], fmt.Sprintf("(sort_strings %s)", d), *c, &out)
					return out, true
				}
			}
		}
		if se, ok := ce.Fun.(*ast.SelectorExpr); ok && se.Sel.Name == "Add" && len(ce.Args) == 1 {
			d, td := t.lvalue(se.X, *c)
			if td.k == "map" && td.sname == "StringSet" {
				needFresh(se.X)
				k, tk := t.expr(ce.Args[0], *c, &out)
				t.coerce(ce.Args[0], k, tk, qoK("string"))
				t.store(se.X, fmt.Sprintf("(gq_mset %s %s tt)", d, k), *c, &out)
				return out, true
			}
		}
		return nil, false
	}
	return nil, false
}

// lvalueAny: like lvalue but also element targets (answers the type of the stored value, nil when unknown)
func (t *qoTr) lvalueAny(e ast.Expr, c qoCtx) (string, *qoT) {
	switch x := e.(type) {
	case *ast.Ident, *ast.SelectorExpr:
		return t.lvalue(x, c)
	case *ast.IndexExpr:
		_, ty := t.lvalue(x.X, c)
		if ty.k == "slice" || ty.k == "map" {
			return "", ty.elem
		}
	}
	return "", nil
}

// declareOrAssign: in a := with several names, a name of the same scope is assigned
func (t *qoTr) declareOrAssign(n ast.Node, c *qoCtx, name string, ty *qoT) string {
	if name == "_" {
		return "_"
	}
	if v, ok := c.lookup(name); ok && v.depth == c.depth && v.ty.same(ty) {
		return v.coq
	}
	return t.declare(n, c, name, ty)
}

func (t *qoTr) stmts(list []ast.Stmt, c qoCtx, k func(qoCtx) string) string {
	if len(list) == 0 {
		return k(c)
	}
	st, rest := list[0], list[1:]
	cont := func(c2 qoCtx) string { return t.stmts(rest, c2, k) }
	if lines, ok := t.simple(st, &c); ok {
		return gcJoin(lines, cont(c))
	}
	switch x := st.(type) {
	case *ast.ReturnStmt:
		if len(rest) != 0 {
			t.fail(st, "statements after return")
		}
		if len(x.Results) != len(t.f.res) {
			t.fail(st, "return with %d values in a function with %d results", len(x.Results), len(t.f.res))
			return "Panic"
		}
		var pre []string
		var ys []string
		t.inReturn = true
		for i, r := range x.Results {
			y, ty := t.expr(r, c, &pre)
			ys = append(ys, t.coerce(r, y, ty, t.f.res[i]))
		}
		t.inReturn = false
		for _, pv := range t.f.ptrs {
			ys = append(ys, pv.coq)
		}
		return gcJoin(pre, "Ok "+gcTuple(ys))
	case *ast.TypeSwitchStmt:
		return t.typeSwitch(x, c, cont)
	case *ast.IfStmt:
		return t.ifStmt(x, c, cont)
	case *ast.RangeStmt:
		return t.rangeStmt(x, c, cont)
	case *ast.BlockStmt:
		return t.stmts(x.List, c.inner(), func(c2 qoCtx) string { return cont(c) })
	}
	t.fail(st, "statement outside the scheme: %s", strings.SplitN(t.src(st), "\n", 2)[0])
	return "Panic"
}

// once: the text of a continuation that several branches share (the same context, so the same text)
func qoOnce(k func() string) func() string {
	done, text := false, ""
	return func() string {
		if !done {
			text, done = k(), true
		}
		return text
	}
}

// typeAssertInit recognises  v, ok := x.(T)  as the init statement of  if ..; ok
func (t *qoTr) typeAssertInit(x *ast.IfStmt) (v, okName string, scrut ast.Expr, d *qoDynCase, found bool) {
	as, isAs := x.Init.(*ast.AssignStmt)
	if !isAs || as.Tok != token.DEFINE || len(as.Lhs) != 2 || len(as.Rhs) != 1 {
		return
	}
	ta, isTa := as.Rhs[0].(*ast.TypeAssertExpr)
	if !isTa || ta.Type == nil {
		return
	}
	v0, ok0 := as.Lhs[0].(*ast.Ident)
	v1, ok1 := as.Lhs[1].(*ast.Ident)
	cond, okc := x.Cond.(*ast.Ident)
	if !ok0 || !ok1 || !okc || cond.Name != v1.Name {
		return
	}
	d = qoDynOf(t.src(ta.Type))
	if d == nil {
		return
	}
	return v0.Name, v1.Name, ta.X, d, true
}

func (t *qoTr) ifStmt(x *ast.IfStmt, c qoCtx, cont func(qoCtx) string) string {
	els, ok := gcElse(x)
	if !ok {
		t.fail(x, "else outside the scheme")
		return "Panic"
	}
	var pre []string
	ci := c.inner()
	cThen, cElse := ci, ci
	var head, mid, end string
	var thenPre, elsePre []string
	if v, okName, scrutE, d, isTA := t.typeAssertInit(x); x.Init != nil && isTA {
		sc, ty := t.pure(scrutE, c)
		t.coerce(scrutE, sc, ty, qoK("dyn"))
		name := t.declare(x, &cThen, v, d.ty)
		head = fmt.Sprintf("match %s with\n| %s %s =>", sc, d.ctor, name)
		mid, end = "| _ =>", "\nend"
		okThen := t.declare(x, &cThen, okName, qoK("bool"))
		thenPre = append(thenPre, fmt.Sprintf("let %s := true in", okThen))
		if v != "_" {
			if z, hasZ := d.ty.zero(); hasZ {
				zn := t.declare(x, &cElse, v, d.ty)
				elsePre = append(elsePre, fmt.Sprintf("let %s : %s := %s in", zn, d.ty.coq(), z))
			}
		}
		okElse := t.declare(x, &cElse, okName, qoK("bool"))
		elsePre = append(elsePre, fmt.Sprintf("let %s := false in", okElse))
	} else {
		if x.Init != nil {
			lines, ok := t.simple(x.Init, &ci)
			if !ok {
				t.fail(x, "if with an init statement outside the scheme")
				return "Panic"
			}
			pre = append(pre, lines...)
		}
		cond, ty := t.expr(x.Cond, ci, &pre)
		t.coerce(x.Cond, cond, ty, qoK("bool"))
		head, mid = fmt.Sprintf("if %s then", cond), "else"
		cThen, cElse = ci, ci
	}
	snapshot := qoCopySet(t.fresh)
	var elseNode ast.Node
	if x.Else != nil {
		elseNode = x.Else
	}
	if qoContainsReturn(x) {
		rest := qoOnce(func() string { t.leave(snapshot, x.Body, elseNode); return cont(c) })
		back := func(c2 qoCtx) string { return rest() }
		a := gcJoin(thenPre, t.stmts(x.Body.List, cThen.inner(), back))
		t.fresh = qoCopySet(snapshot)
		b := gcJoin(elsePre, t.stmts(els, cElse.inner(), back))
		return gcJoin(pre, fmt.Sprintf("%s\n%s\n%s\n%s%s", head, gsIndent(a), mid, gsIndent(b), end))
	}
	nodes := []ast.Node{x.Body}
	if x.Else != nil {
		nodes = append(nodes, x.Else)
	}
	res := t.assigned(c, nodes...)
	if len(res) == 0 {
		t.fail(x, "an if without return that stores into no outer variable")
	}
	innerThen, innerElse := cThen.inner(), cElse.inner()
	innerThen.top, innerElse.top = false, false
	exit := func(c2 qoCtx) string { return "Ok " + gcTuple(qoCoqNames(res)) }
	a := gcJoin(thenPre, t.stmts(x.Body.List, innerThen, exit))
	t.fresh = qoCopySet(snapshot)
	b := gcJoin(elsePre, t.stmts(els, innerElse, exit))
	t.leave(snapshot, x.Body, elseNode)
	line := fmt.Sprintf("do %s <- (\n%s\n%s\n%s\n%s%s);", gcTuple(qoCoqNames(res)), gsIndent(head), gsIndent(gsIndent(a)), gsIndent(mid), gsIndent(gsIndent(b)), gsIndent(end))
	return gcJoin(pre, line+"\n"+cont(c))
}

// switch t := x.(type): a match on the constructors of gq_dyn; the default clause (or falling out of the
// switch) is the wildcard arm, written last
func (t *qoTr) typeSwitch(x *ast.TypeSwitchStmt, c qoCtx, cont func(qoCtx) string) string {
	if x.Init != nil {
		t.fail(x, "type switch with an init statement")
		return "Panic"
	}
	bind := ""
	var ta *ast.TypeAssertExpr
	switch a := x.Assign.(type) {
	case *ast.AssignStmt:
		if len(a.Lhs) == 1 && len(a.Rhs) == 1 {
			if id, ok := a.Lhs[0].(*ast.Ident); ok {
				bind = id.Name
			}
			ta, _ = a.Rhs[0].(*ast.TypeAssertExpr)
		}
	case *ast.ExprStmt:
		ta, _ = a.X.(*ast.TypeAssertExpr)
	}
	if ta == nil {
		t.fail(x, "type switch outside the scheme")
		return "Panic"
	}
	sc, ty := t.pure(ta.X, c)
	t.coerce(ta.X, sc, ty, qoK("dyn"))
	hasRet := qoContainsReturn(x.Body)
	var res []qoVar
	var exit func(qoCtx) string
	snapshot := qoCopySet(t.fresh)
	if hasRet {
		rest := qoOnce(func() string { t.leave(snapshot, x.Body); return cont(c) })
		exit = func(c2 qoCtx) string { return rest() }
	} else {
		res = t.assigned(c, x.Body)
		if len(res) == 0 {
			t.fail(x, "a type switch without return that stores into no outer variable")
		}
		exit = func(c2 qoCtx) string { return "Ok " + gcTuple(qoCoqNames(res)) }
	}
	var arms []string
	defaultArm := ""
	seen := map[string]bool{}
	for _, cl := range x.Body.List {
		cc := cl.(*ast.CaseClause)
		t.fresh = qoCopySet(snapshot)
		ci := c.inner()
		if !hasRet {
			ci.top = false
		}
		if cc.List == nil {
			var lines []string
			if bind != "" {
				name := t.declare(cc, &ci, bind, qoK("dyn"))
				lines = append(lines, fmt.Sprintf("let %s := %s in", name, sc))
			}
			defaultArm = "| _ =>\n" + gsIndent(gcJoin(lines, t.stmts(cc.Body, ci, exit)))
			continue
		}
		if len(cc.List) != 1 {
			t.fail(cc, "a case with several types")
			continue
		}
		d := qoDynOf(t.src(cc.List[0]))
		if d == nil || seen[d.text] {
			t.fail(cc, "case type outside the scheme: %s", t.src(cc.List[0]))
			continue
		}
		seen[d.text] = true
		name := "_"
		if bind != "" {
			name = t.declare(cc, &ci, bind, d.ty)
		}
		arms = append(arms, fmt.Sprintf("| %s %s =>\n%s", d.ctor, name, gsIndent(t.stmts(cc.Body, ci, exit))))
	}
	if defaultArm == "" {
		t.fresh = qoCopySet(snapshot)
		defaultArm = "| _ =>\n" + gsIndent(exit(c))
	}
	if !hasRet {
		t.leave(snapshot, x.Body)
	}
	text := fmt.Sprintf("match %s with\n%s\n%s\nend", sc, strings.Join(arms, "\n"), defaultArm)
	if hasRet {
		return text
	}
	return fmt.Sprintf("do %s <- (\n%s);\n%s", gcTuple(qoCoqNames(res)), gsIndent(text), cont(c))
}

func qoFlatVars(c qoCtx) []qoVar {
	var out []qoVar
	seen := map[string]bool{}
	for i := len(c.vars) - 1; i >= 0; i-- {
		v := c.vars[i]
		if seen[v.name] {
			continue
		}
		seen[v.name] = true
		out = append([]qoVar{v}, out...)
	}
	return out
}

func (t *qoTr) rangeStmt(x *ast.RangeStmt, c qoCtx, cont func(qoCtx) string) string {
	if x.Tok != token.DEFINE {
		t.fail(x, "range without :=")
		return "Panic"
	}
	var pre []string
	xs, tx := t.expr(x.X, c, &pre)
	if tx.k != "slice" && tx.k != "map" {
		t.fail(x, "range over something that is neither a slice nor a map: %s", t.src(x.X))
		return "Panic"
	}
	body := c.inner()
	body.top = false
	check := func(n ast.Expr) string {
		id, ok := n.(*ast.Ident)
		if !ok {
			t.fail(x, "range variable that is not an identifier")
			return "_"
		}
		return id.Name
	}
	keyName, valName := "", "_"
	pat := ""
	elTy := ""
	keyIsCounter := tx.k == "slice"
	if tx.k == "slice" {
		elTy = tx.elem.coq()
		if x.Key != nil {
			if n := check(x.Key); n != "_" {
				keyName = t.declare(x, &body, n, qoK("int"))
			}
		}
		if x.Value != nil {
			if n := check(x.Value); n != "_" {
				valName = t.declare(x, &body, n, tx.elem)
				as, _ := qoAssignedNames(x.Body)
				if r := gcRootIdent(x.X); r != "" && as[r] {
					t.fail(x, "the body stores into the slice it ranges over by value")
				}
			}
		}
		pat = valName
	} else {
		elTy = "(bytes * " + tx.elem.coq() + ")"
		kn, vn := "_", "_"
		if x.Key != nil {
			if n := check(x.Key); n != "_" {
				kn = t.declare(x, &body, n, qoK("string"))
			}
		}
		if x.Value != nil {
			if n := check(x.Value); n != "_" {
				vn = t.declare(x, &body, n, tx.elem)
			}
		}
		as, _ := qoAssignedNames(x.Body)
		if r := gcRootIdent(x.X); r != "" && as[r] {
			t.fail(x, "the body stores into the map it ranges over")
		}
		pat = "(" + kn + ", " + vn + ")"
		t.norder++
		ord := fmt.Sprintf("%s_order%d", t.f.coq, t.norder)
		t.f.orders = append(t.f.orders, ord)
		xs = fmt.Sprintf("(%s _ %s)", ord, xs)
	}
	_ = keyIsCounter
	hasRet := qoContainsReturn(x.Body)
	res := t.assigned(c, x.Body)
	if hasRet && !c.top {
		t.fail(x, "a loop with a return inside that is not at the top level of the function")
	}
	const hole = "@LOOPARGS@"
	snapshot := qoCopySet(t.fresh)
	bodyText := t.stmts(x.Body.List, body, func(c2 qoCtx) string {
		call := "loop l'"
		if keyName != "" {
			call += " (" + keyName + " + 1)"
		}
		return call + hole
	})
	var exit, rty string
	t.leave(snapshot, x.Body)
	if hasRet {
		exit = cont(c)
		rty = t.f.resCoq()
	} else {
		exit = "Ok " + gcTuple(qoCoqNames(res))
		rty = gcTypeTuple(qoCoqTypes(res))
	}
	var params []qoVar
	isRes := map[string]bool{}
	for _, v := range res {
		isRes[v.coq] = true
	}
	for _, v := range qoFlatVars(c) {
		if isRes[v.coq] || gsMentions(bodyText, v.coq) || gsMentions(exit, v.coq) {
			params = append(params, v)
		}
	}
	args, sig, tys := "", "", ""
	for _, v := range params {
		args += " " + v.coq
		sig += fmt.Sprintf(" (%s : %s)", v.coq, v.ty.coq())
		tys += v.ty.coq() + " -> "
	}
	bodyText = strings.ReplaceAll(bodyText, hole, args)
	t.nloops++
	name := fmt.Sprintf("%s_loop%d", t.f.coq, t.nloops)
	keySig, keyTy, keyArg := "", "", ""
	if keyName != "" {
		keySig, keyTy, keyArg = " ("+keyName+" : Z)", "Z -> ", " 0"
	}
	var b strings.Builder
	fmt.Fprintf(&b, "Definition %s : list %s -> %s%soutcome %s :=\n", name, elTy, keyTy, tys, rty)
	fmt.Fprintf(&b, "  fix loop (l : list %s)%s%s {struct l} : outcome %s :=\n", elTy, keySig, sig, rty)
	fmt.Fprintf(&b, "  match l with\n  | [] =>\n%s\n  | %s :: l' =>\n%s\n  end.\n", gsIndent(gsIndent(exit)), pat, gsIndent(gsIndent(bodyText)))
	t.loops = append(t.loops, b.String())
	call := name + " " + xs + keyArg + args
	if hasRet {
		return gcJoin(pre, call)
	}
	return gcJoin(pre, fmt.Sprintf("do %s <- %s;\n%s", gcTuple(qoCoqNames(res)), call, cont(c)))
}

// ------------------------------------------------------------------ functions

func qoCoqName(fn string) string { return "gq_" + strings.ReplaceAll(fn, ".", "_") }

func qoSignature(p *pkgInfo, f *qoFunc) bool {
	t := &qoTr{p: p, f: f}
	fd := f.fd
	if fd.Recv != nil {
		if len(fd.Recv.List) != 1 || len(fd.Recv.List[0].Names) != 1 {
			t.fail(fd, "receiver outside the scheme")
			return false
		}
		if _, isPtr := fd.Recv.List[0].Type.(*ast.StarExpr); isPtr {
			t.fail(fd, "pointer receiver")
			return false
		}
		ty := t.resolve(fd.Recv.List[0].Type)
		name := fd.Recv.List[0].Names[0].Name
		f.recv = &qoVar{name, "v_" + name, ty, 0}
	}
	for _, fl := range fd.Type.Params.List {
		ty := t.resolve(fl.Type)
		for _, n := range fl.Names {
			f.params = append(f.params, qoVar{n.Name, "v_" + n.Name, ty, 0})
			if ty.ptr {
				f.ptrs = append(f.ptrs, qoVar{n.Name, "v_" + n.Name, ty, 0})
			}
		}
		if len(fl.Names) == 0 {
			t.fail(fd, "parameter without name")
		}
	}
	if fd.Type.Results == nil || len(fd.Type.Results.List) == 0 {
		t.fail(fd, "the function has no result")
		return false
	}
	for _, fl := range fd.Type.Results.List {
		n := len(fl.Names)
		for _, id := range fl.Names { // named results: accepted when the body never mentions them and never returns bare
			used := false
			ast.Inspect(fd.Body, func(m ast.Node) bool {
				switch y := m.(type) {
				case *ast.Ident:
					if y.Name == id.Name {
						used = true
					}
				case *ast.ReturnStmt:
					if len(y.Results) == 0 {
						used = true
					}
				}
				return true
			})
			if used {
				t.fail(fd, "named results that the body uses")
				return false
			}
		}
		if n == 0 {
			n = 1
		}
		for i := 0; i < n; i++ {
			f.res = append(f.res, t.resolve(fl.Type))
		}
	}
	return !t.bad
}

// resCoq: the Coq type of what the function answers: its results, then its value-result pointer parameters
func (f *qoFunc) resCoq() string {
	var rs []string
	for _, r := range f.res {
		rs = append(rs, r.coq())
	}
	for _, pv := range f.ptrs {
		rs = append(rs, pv.ty.coq())
	}
	return gcTypeTuple(rs)
}

func qoTranslate(p *pkgInfo, f *qoFunc) {
	t := &qoTr{p: p, f: f, fresh: map[string]bool{}}
	c := qoCtx{top: true}
	var sig []string
	if f.recv != nil {
		c.vars = append(c.vars, *f.recv)
		sig = append(sig, fmt.Sprintf("(%s : %s)", f.recv.coq, f.recv.ty.coq()))
	}
	for _, v := range f.params {
		c.vars = append(c.vars, v)
		sig = append(sig, fmt.Sprintf("(%s : %s)", v.coq, v.ty.coq()))
	}
	c.depth = 1
	body := t.stmts(f.fd.Body.List, c, func(c2 qoCtx) string {
		t.fail(f.fd, "the function can fall off its end")
		return "Panic"
	})
	var b strings.Builder
	pk := f.spec.pkg
	if pk == qoRoot {
		pk = "qframe"
	}
	fmt.Fprintf(&b, "(* %s\n%s *)\n", pk, gcSource(p, f.fd))
	for _, bv := range f.bvars {
		b.WriteString(bv + "\n")
	}
	for _, o := range f.orders {
		fmt.Fprintf(&b, "Variable %s : forall V : Type, gq_map V -> gq_map V.   (* the order in which this range visits the map *)\n", o)
	}
	for _, l := range t.loops {
		b.WriteString(l)
	}
	fmt.Fprintf(&b, "Definition %s %s : outcome %s :=\n%s.\n", f.coq, strings.Join(sig, " "), f.resCoq(), gsIndent(body))
	f.text = b.String()
	f.ok = !t.bad
}

func genQFrameOps() string {
	qoFuncs = map[string]*qoFunc{}
	qoBoundaryDeclared = map[string]bool{}
	root := loadPkg(qoRoot)
	strp := loadPkg(qoStrPkg)
	pkgOf := func(dir string) *pkgInfo {
		if dir == qoStrPkg {
			return strp
		}
		return root
	}
	sigOf := func(vp *pkgInfo, fd *ast.FuncDecl, withBody bool) string {
		cp := *fd
		cp.Doc = nil
		if !withBody {
			cp.Body = nil
		}
		return gcSrc(vp.fset, &cp)
	}
	for _, v := range qoVocabulary {
		vp := loadPkg(v.pkg)
		fd, ok := vp.funcs[v.fn]
		if !ok || fd.Body == nil {
			problem("qframe translation: %s not found in %s", v.fn, v.pkg)
			continue
		}
		if sigOf(vp, fd, strings.Contains(v.text, "{\n")) != v.text {
			problem("qframe translation: %s of %s is not the text the fixed vocabulary of the translation stands for", v.fn, v.pkg)
		}
	}
	for _, bd := range qoBoundary {
		vp := loadPkg(bd.pkg)
		fd, ok := vp.funcs[bd.fn]
		if !ok || fd.Body == nil {
			problem("qframe translation: %s not found in %s", bd.fn, bd.pkg)
			continue
		}
		if sigOf(vp, fd, false) != bd.sig {
			problem("qframe translation: %s of %s does not have the signature the abstraction boundary of the translation stands for", bd.fn, bd.pkg)
		}
	}
	if cp := loadPkg("internal/column"); true {
		found := false
		for _, f := range cp.files {
			for _, d := range f.Decls {
				if gd, ok := d.(*ast.GenDecl); ok && gd.Tok == token.TYPE {
					for _, s := range gd.Specs {
						ts := s.(*ast.TypeSpec)
						if it, ok := ts.Type.(*ast.InterfaceType); ok && ts.Name.Name == "Column" {
							n := 0
							for _, m := range it.Methods.List {
								if len(m.Names) == 1 && qoColMethods[m.Names[0].Name] != "" && gcSrc(cp.fset, m.Type) == qoColMethods[m.Names[0].Name] {
									n++
								}
							}
							found = n == len(qoColMethods)
						}
					}
				}
			}
		}
		if !found {
			problem("qframe translation: the interface column.Column does not have the methods Len, Apply1, Apply2 with the signatures the abstraction boundary of the translation stands for")
		}
	}
	for _, fb := range qoFrameBoundary {
		fd, ok := root.funcs["QFrame."+fb.fn]
		if !ok || fd.Body == nil {
			problem("qframe translation: QFrame.%s not found", fb.fn)
			continue
		}
		if sigOf(root, fd, false) != fb.sig {
			problem("qframe translation: QFrame.%s does not have the signature the translation stands for", fb.fn)
		}
	}
	for _, tt := range qoTypeTexts {
		tp := loadPkg(tt.pkg)
		found := false
		for _, f := range tp.files {
			for _, d := range f.Decls {
				if gd, ok := d.(*ast.GenDecl); ok && gd.Tok == token.TYPE {
					for _, s := range gd.Specs {
						ts := s.(*ast.TypeSpec)
						if ts.Name.Name == tt.name && gcSrc(tp.fset, ts.Type) == tt.text {
							found = true
						}
					}
				}
			}
		}
		if !found {
			problem("qframe translation: type %s of %s is not %s", tt.name, tt.pkg, tt.text)
		}
	}
	structsOk := qoLoadStructs()
	var fds []*ast.FuncDecl
	for _, sp := range qoSpecs {
		if fd, ok := pkgOf(sp.pkg).funcs[sp.fn]; ok && sp.pkg == qoRoot {
			fds = append(fds, fd)
		}
	}
	dynOk := qoLoadDyn(fds, root.fset)

	golden := ""
	if fl := flag.Lookup("golden"); fl != nil && fl.Value.String() != "" {
		if gb, err := os.ReadFile(filepath.Join(fl.Value.String(), "GenQFrameOps.v")); err == nil {
			golden = string(gb)
		}
	}
	var b strings.Builder
	b.WriteString(qoPreamble)
	block := func(name, text string, ok bool) {
		if !ok {
			old, found := gfGoldenBlock(golden, name)
			if !found {
				return
			}
			text = "(* FALLBACK " + name + ": not derivable from the current source; text of the last validated tree *)\n" + old
		}
		fmt.Fprintf(&b, "(* BEGIN %s *)\n%s(* END %s *)\n\n", name, text, name)
	}
	usesDyn := func(s *qoStruct) bool {
		for _, f := range s.fields {
			if strings.Contains(f.ty.coq(), "gq_dyn") {
				return true
			}
		}
		return false
	}
	for _, late := range []bool{false, true} { // the structs that hold an interface{} come after gq_dyn
		if late {
			block("gq_dyn", qoDynInductive(), dynOk && structsOk)
		}
		for _, sp := range qoStructSpecs {
			s := qoStructOf(sp.key)
			if s == nil {
				if !late {
					block("gq_"+sp.name+sp.coq, "", false)
				}
				continue
			}
			if usesDyn(s) == late {
				block("gq_"+s.name, qoRecord(s), structsOk)
			}
		}
	}
	b.WriteString(`Section GenQFrameOps.
Context {A E C F64 EC OTHER CF CL CMP CTX ECF EXPR DT : Type}.
Variable col_nil : C.                               (* the nil column.Column *)
Variable new_error : bytes -> bytes -> E.           (* qerrors.New(operation, reason, ...) *)
Variable propagate : bytes -> option E -> E.        (* qerrors.Propagate(operation, err) *)
Variable checkname_error : bytes -> E.              (* the error CheckName answers for an illegal name *)
Variable unknownCol : bytes -> bytes.               (* unknownCol(c): the message text *)
Variable ecolumn_as_Column : EC -> C.               (* an ecolumn.Column stored in a column.Column variable *)
Variable col_Len : C -> outcome Z.                  (* c.Len() of a column.Column: below the abstraction boundary *)
Variable sort_strings : list bytes -> list bytes.   (* sort.Strings(s), in place *)
Variable f64_zero : F64.                            (* the float64 zero value *)
Variable dt_zero : DT.                              (* the zero types.DataType *)
Variable gq_sprintf : bytes -> bytes.               (* fmt.Sprintf(format, ..): a text, represented by its format string *)
Variable id_int : A -> Z.                           (* a row id used as a position: s[i] for i of index.Int *)

(* qfstrings.CheckName in its translated form (Gen/GenFuncs.v) *)
Definition gq_CheckName (s : bytes) : option E :=
  if gf_strings_CheckName (map Z.of_N s) then None else Some (checkname_error s).

`)
	for _, sp := range qoSpecs {
		f := &qoFunc{spec: sp, coq: qoCoqName(sp.fn)}
		qoFuncs[sp.pkg+":"+sp.fn] = f
		p := pkgOf(sp.pkg)
		fd, ok := p.funcs[sp.fn]
		if !ok || fd.Body == nil {
			problem("qframe translation: function %s not found in %s", sp.fn, sp.pkg)
		} else {
			f.fd = fd
			if !qoSignature(p, f) {
				f.fd = nil
			}
		}
		if f.fd != nil {
			qoTranslate(p, f)
		}
		f.done = true
		block(f.coq, f.text, f.ok)
	}
	b.WriteString("End GenQFrameOps.\n")
	return b.String()
}
