package main

// genQFrameOps: placeholder until the translation of this part of the library is written (an empty generated file).
func genQFrameOps() string { return "" }
