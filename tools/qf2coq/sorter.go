package main

// Translation of internal/sort/sorter.go into Gallina (coq/Gen/GenSorter.v, tie T1 for the sorter).
//
// The functions listed in gsSpecs are translated statement by statement into state-passing definitions
// gs_<name> over an abstract sorter.  coq/Proofs/GenSorterProofs.v proves every generated definition equal to
// the hand-written loop-for-loop model of coq/Model/Sort.v (for all index lists, all ranges, all orders and all
// sufficient fuel), so that an edit of sorter.go changes the generated text and breaks a named theorem
// T1_sorter_<name> of coq/Properties/T1.v, while the correctness theorems of C03 keep talking about the model.
//
// THE SCHEME (anything that does not fit is reported through problem(...); the function then keeps the text of
// the golden copy, marked FALLBACK, so that the development still builds — the exit status says the tie is
// broken).
//
//	data        the Go code touches the data only through data.Less(i, j), data.Swap(i, j) and Len().  `data`
//	            (or the receiver of Sort) is the Coq value  s : list nat  (the row index); the comparison of
//	            two row ids is the section variable  lt : nat -> nat -> bool.  The fixed vocabulary (preamble
//	            of the generated file):
//	              gs_less s i j = lt s[i] s[j]         (Sorter.Less: di, dj := s.index[i], s.index[j]; the
//	                                                    loop over the columns is the abstract lt di dj)
//	              gs_swap s i j = s[i], s[j] := s[j], s[i]
//	              Len()         = Z.of_nat (length s)
//	            an index that is negative or not below the length answers Panic, as Go does.  The bodies of
//	            Sorter.Less / Swap / Len are compared with the text this vocabulary stands for and a
//	            difference is a problem.
//	integers    Go int/uint -> Z, NOT wrapped: + - * are exact (positions of a slice; overflow of int is
//	            outside the translation as it is outside the model); / is Z.quot (truncation towards zero),
//	            >> is Z.shiftr; the conversions that the source writes, int(e) and uint(e), ARE the 64-bit
//	            wraps gs_int / gs_uint.  x > y is written (y <? x), x >= y is (y <=? x).
//	results     every function takes  (fuel : nat)  first, then its int arguments, then s (if it has a data
//	            argument) and answers  outcome (r1 * .. * rn * list nat)  — results, then the new data;
//	            a function without data argument answers outcome (r1 * ..).  Panic = Go panic OR fuel used up.
//	fuel        gs_f fuel .. = match fuel with O => Panic | S fuel' => body end.  Inside body every loop is
//	            entered with the budget fuel' (each entry afresh), every call of a translated function gets
//	            fuel'.  So "fuel > every trip count and > the call depth" is what sufficient means; a recursive
//	            function (quickSort) is a Fixpoint on fuel.
//	statements  x := e; a, c := e1, e2; var x int; x = e; x op= e; x++; x--   -> let v_x := .. in
//	            data.Swap(i, j)                                               -> do s <- gs_swap s i j;
//	            f(data, ..) / r1, r2 := f(data, ..)                           -> do (v_r1, v_r2, s) <- gs_f fuel' .. s;
//	            a call of a translated function inside an argument list is evaluated first (do t1 <- ..;)
//	            return e1, e2 -> Ok (e1, e2, s); falling off the end of a void function -> Ok s
//	conditions  a condition without data.Less is a bool.  data.Less(i, j) -> gs_less s i j : outcome bool;
//	            !Less(..) -> do t <- ..; Ok (negb t);  A && Less(..) with A pure -> if A then .. else Ok false
//	            (Go's short circuit).  An if / loop on such a condition is  do t <- (cond); if t then .. else ..
//	if          when no branch leaves the statement (no break / return inside):
//	              do (assigned outer variables [, s]) <- (if c then ..; Ok (..) else ..; Ok (..)); rest
//	            otherwise the rest of the block is continued inside the branches that fall through.
//	loops       for init; cond; post { body }  (init, cond, post optional): the init statement, then a separate
//	            Fixpoint gs_f_loopN over its own counter k (O => Panic), numbered in order of completion (inner
//	            loops first), taking [self] [fuel'] k, then the variables it mentions, then s if it mentions it:
//	              S k' => if cond then body; post; gs_f_loopN .. k' (current values) else EXIT
//	            A loop WITHOUT return inside answers the outer variables it assigns (and s if it changes it):
//	            EXIT = Ok (those); break = EXIT; the call site is  do (those) <- gs_f_loopN fuel' fuel' ..; rest.
//	            A loop WITH a return inside (only allowed at the top level of a function) also contains the
//	            statements that follow it: EXIT = break = the rest of the function; return = the function's
//	            return; the call site is the last thing the function does.
//	recursion   inside a loop Fixpoint a recursive call of the function is the argument  self  (the call site
//	            passes  (gs_f fuel')), in the function body itself it is  gs_f fuel'.
//	rejected    continue, goto, labels, switch, range, defer, closures, shadowing, && / || with data.Less on the
//	            left or under ||, data.Less outside a condition, return in a nested loop, statements after
//	            return / break, calls of unknown functions, an if without escape that assigns nothing.

import (
	"bytes"
	"flag"
	"fmt"
	"go/ast"
	"go/printer"
	"go/token"
	"os"
	"path/filepath"
	"regexp"
	"strings"
)

const gsPkg = "internal/sort"

// in dependency order (a callee before its callers)
var gsSpecs = []string{"insertionSort", "siftDown", "heapSort", "medianOfThree", "doPivot", "quickSort", "maxDepth", "Sorter.Sort"}

// the text the fixed vocabulary stands for (bodies printed by go/printer)
var gsVocabulary = map[string]string{
	"Sorter.Len":  "{\n\treturn len(s.index)\n}",
	"Sorter.Swap": "{\n\ts.index[i], s.index[j] = s.index[j], s.index[i]\n}",
	"Sorter.Less": "{\n\tdi, dj := s.index[i], s.index[j]\n\tfor _, s := range s.columns {\n\t\tr := s.Compare(di, dj)\n\t\tif r == column.LessThan {\n\t\t\treturn true\n\t\t}\n\n\t\tif r == column.GreaterThan {\n\t\t\treturn false\n\t\t}\n\t}\n\n\treturn false\n}",
}

const gsPreamble = `(* GENERATED by tools/qf2coq (sorter.go) from internal/sort/sorter.go of tobgu/qframe — do not edit.
   One definition gs_<function> per translated Go function, one Fixpoint gs_<function>_loopN per loop; the scheme
   is described at the top of tools/qf2coq/sorter.go.  s : list nat is the row index behind data, lt the
   comparison of two row ids; integers are Z (exact; int(..) and uint(..) are the 64-bit wraps); every function
   takes fuel first: O => Panic, S fuel' => the body, whose loops and calls all get fuel'. *)
From QF Require Import Base.Prelude.
Local Open Scope Z_scope.

(* the conversions int(e) and uint(e) *)
Definition gs_uint (x : Z) : Z := x mod 18446744073709551616.
Definition gs_int (x : Z) : Z := (x + 9223372036854775808) mod 18446744073709551616 - 9223372036854775808.

Section GenSorter.
Variable lt : nat -> nat -> bool.

(* s.index[i] *)
Definition gs_idx (s : list nat) (i : Z) : outcome nat :=
  if i <? 0 then Panic else idx s (Z.to_nat i).
(* Sorter.Less(i, j): di, dj := s.index[i], s.index[j]; the loop over the columns = lt di dj *)
Definition gs_less (s : list nat) (i j : Z) : outcome bool :=
  do di <- gs_idx s i; do dj <- gs_idx s j; Ok (lt di dj).
(* Sorter.Swap(i, j): s.index[i], s.index[j] = s.index[j], s.index[i] *)
Definition gs_swap (s : list nat) (i j : Z) : outcome (list nat) :=
  do di <- gs_idx s i; do dj <- gs_idx s j; Ok (set_nth (set_nth s (Z.to_nat i) dj) (Z.to_nat j) di).

`

type gsVar struct {
	name string // Go name
	kind string // "Z" or "bool"
}

type gsFunc struct {
	goName    string
	coq       string
	fd        *ast.FuncDecl
	data      string // Go name of the Sorter argument / receiver, "" = none
	params    []gsVar
	nres      int
	recursive bool
	done      bool // translated (callable by later functions)
	ok        bool
	text      string
}

var gsFuncs = map[string]*gsFunc{}

type gsCtx struct {
	vars    []gsVar
	brk     func() string // meaning of break; nil = not inside a loop
	ret     func(res []string) string
	self    string // how a recursive call starts: "gs_f fuel'" in the body, "self" inside a loop Fixpoint
	selfArg string // what a loop call site passes for self
	inLoop  bool
}

type gsTr struct {
	p     *pkgInfo
	f     *gsFunc
	loops []string
	bad   bool
	ntmp  int
}

func (t *gsTr) fail(n ast.Node, format string, a ...interface{}) {
	pos := ""
	if n != nil {
		pos = t.p.fset.Position(n.Pos()).String() + ": "
	}
	problem("internal/sort/sorter.go translation, function %s: %s%s", t.f.goName, pos, fmt.Sprintf(format, a...))
	t.bad = true
}

func (c gsCtx) lookup(name string) (gsVar, bool) {
	for _, v := range c.vars {
		if v.name == name {
			return v, true
		}
	}
	return gsVar{}, false
}

func gsTuple(parts []string) string {
	if len(parts) == 1 {
		return parts[0]
	}
	return "(" + strings.Join(parts, ", ") + ")"
}

func gsTypeTuple(parts []string) string {
	if len(parts) == 1 {
		if strings.Contains(parts[0], " ") {
			return "(" + parts[0] + ")"
		}
		return parts[0]
	}
	return "(" + strings.Join(parts, " * ") + ")"
}

func gsMentions(text, tok string) bool {
	re := regexp.MustCompile(`(^|[^A-Za-z0-9_'])` + regexp.QuoteMeta(tok) + `($|[^A-Za-z0-9_'])`)
	return re.MatchString(text)
}

func gsIndent(s string) string {
	lines := strings.Split(strings.TrimRight(s, "\n"), "\n")
	for i := range lines {
		lines[i] = "  " + lines[i]
	}
	return strings.Join(lines, "\n")
}

// ------------------------------------------------------------------ syntactic analyses

// isDataCall reports a call data.M(..) on the sorter variable.
func (t *gsTr) isDataCall(e ast.Expr) (method string, call *ast.CallExpr, ok bool) {
	ce, isCall := e.(*ast.CallExpr)
	if !isCall {
		return "", nil, false
	}
	se, isSel := ce.Fun.(*ast.SelectorExpr)
	if !isSel {
		return "", nil, false
	}
	id, isId := se.X.(*ast.Ident)
	if !isId || t.f.data == "" || id.Name != t.f.data {
		return "", nil, false
	}
	return se.Sel.Name, ce, true
}

// isFuncCall reports a call of a function of gsSpecs.
func (t *gsTr) isFuncCall(e ast.Expr) (*gsFunc, *ast.CallExpr, bool) {
	ce, isCall := e.(*ast.CallExpr)
	if !isCall {
		return nil, nil, false
	}
	id, isId := ce.Fun.(*ast.Ident)
	if !isId {
		return nil, nil, false
	}
	g, ok := gsFuncs[id.Name]
	if !ok {
		return nil, nil, false
	}
	return g, ce, true
}

func (t *gsTr) containsLess(e ast.Expr) bool {
	found := false
	ast.Inspect(e, func(n ast.Node) bool {
		if x, ok := n.(ast.Expr); ok {
			if m, _, ok := t.isDataCall(x); ok && m == "Less" {
				found = true
			}
		}
		return true
	})
	return found
}

// escapes: the statement contains a return, or a break that leaves the statement itself.
func gsEscapes(n ast.Node) bool {
	found := false
	var walk func(n ast.Node, loopDepth int)
	walk = func(n ast.Node, loopDepth int) {
		ast.Inspect(n, func(m ast.Node) bool {
			switch x := m.(type) {
			case *ast.ReturnStmt:
				found = true
			case *ast.BranchStmt:
				if x.Tok == token.BREAK && loopDepth == 0 {
					found = true
				}
			case *ast.ForStmt:
				if m != n {
					walk(x.Body, loopDepth+1)
					return false
				}
			case *ast.FuncLit:
				return false
			}
			return true
		})
	}
	walk(n, 0)
	return found
}

func gsContainsReturn(n ast.Node) bool {
	found := false
	ast.Inspect(n, func(m ast.Node) bool {
		if _, ok := m.(*ast.ReturnStmt); ok {
			found = true
		}
		return true
	})
	return found
}

// assigned: names assigned (not declared) below n, and whether the data is changed.
func (t *gsTr) assigned(n ast.Node) (names map[string]bool, data bool) {
	names = map[string]bool{}
	ast.Inspect(n, func(m ast.Node) bool {
		switch x := m.(type) {
		case *ast.AssignStmt:
			if x.Tok != token.DEFINE {
				for _, l := range x.Lhs {
					if id, ok := l.(*ast.Ident); ok {
						names[id.Name] = true
					}
				}
			}
		case *ast.IncDecStmt:
			if id, ok := x.X.(*ast.Ident); ok {
				names[id.Name] = true
			}
		case *ast.CallExpr:
			if m, _, ok := t.isDataCall(x); ok && m == "Swap" {
				data = true
			}
			if g, _, ok := t.isFuncCall(x); ok && g.data != "" {
				data = true
			}
		}
		return true
	})
	return names, data
}

// ------------------------------------------------------------------ expressions

func (t *gsTr) expr(e ast.Expr, c gsCtx, pre *[]string) (string, string) {
	switch x := e.(type) {
	case *ast.ParenExpr:
		return t.expr(x.X, c, pre)
	case *ast.BasicLit:
		if x.Kind == token.INT {
			for _, ch := range x.Value {
				if ch < '0' || ch > '9' {
					t.fail(e, "integer literal %s is not decimal", x.Value)
					return "0", "Z"
				}
			}
			return x.Value, "Z"
		}
	case *ast.Ident:
		if x.Name == "true" || x.Name == "false" {
			return x.Name, "bool"
		}
		if v, ok := c.lookup(x.Name); ok {
			return "v_" + v.name, v.kind
		}
		t.fail(e, "unknown identifier %s", x.Name)
		return "0", "Z"
	case *ast.UnaryExpr:
		a, k := t.expr(x.X, c, pre)
		switch {
		case x.Op == token.NOT && k == "bool":
			return "(negb " + a + ")", "bool"
		case x.Op == token.SUB && k == "Z":
			return "(- " + a + ")", "Z"
		}
	case *ast.BinaryExpr:
		a, ka := t.expr(x.X, c, pre)
		b, kb := t.expr(x.Y, c, pre)
		if ka == "Z" && kb == "Z" {
			switch x.Op {
			case token.ADD:
				return "(" + a + " + " + b + ")", "Z"
			case token.SUB:
				return "(" + a + " - " + b + ")", "Z"
			case token.MUL:
				return "(" + a + " * " + b + ")", "Z"
			case token.QUO:
				return "(Z.quot " + a + " " + b + ")", "Z"
			case token.SHR:
				return "(Z.shiftr " + a + " " + b + ")", "Z"
			case token.LSS:
				return "(" + a + " <? " + b + ")", "bool"
			case token.LEQ:
				return "(" + a + " <=? " + b + ")", "bool"
			case token.GTR:
				return "(" + b + " <? " + a + ")", "bool"
			case token.GEQ:
				return "(" + b + " <=? " + a + ")", "bool"
			case token.EQL:
				return "(" + a + " =? " + b + ")", "bool"
			case token.NEQ:
				return "(negb (" + a + " =? " + b + "))", "bool"
			}
		}
		if ka == "bool" && kb == "bool" {
			switch x.Op {
			case token.LAND:
				return "(" + a + " && " + b + ")", "bool"
			case token.LOR:
				return "(" + a + " || " + b + ")", "bool"
			}
		}
	case *ast.CallExpr:
		if id, ok := x.Fun.(*ast.Ident); ok && (id.Name == "int" || id.Name == "uint") && len(x.Args) == 1 {
			if _, shadowed := c.lookup(id.Name); !shadowed {
				a, k := t.expr(x.Args[0], c, pre)
				if k == "Z" {
					return "(gs_" + id.Name + " " + a + ")", "Z"
				}
			}
		}
		if m, ce, ok := t.isDataCall(x); ok {
			if m == "Len" && len(ce.Args) == 0 {
				return "(Z.of_nat (length s))", "Z"
			}
			t.fail(e, "data.%s is only understood as a statement (Swap) or inside a condition (Less)", m)
			return "0", "Z"
		}
		if g, ce, ok := t.isFuncCall(x); ok && g.data == "" && g.nres == 1 {
			if pre == nil {
				t.fail(e, "a call of %s cannot be evaluated at this place", g.goName)
				return "0", "Z"
			}
			call := t.callText(g, ce, c, pre)
			t.ntmp++
			tmp := fmt.Sprintf("t%d", t.ntmp)
			*pre = append(*pre, "do "+tmp+" <- "+call+";\n")
			return tmp, "Z"
		}
	}
	t.fail(e, "expression not understood: %s", t.src(e))
	return "0", "Z"
}

func (t *gsTr) src(n ast.Node) string {
	var b bytes.Buffer
	printer.Fprint(&b, t.p.fset, n)
	return b.String()
}

func (t *gsTr) intExpr(e ast.Expr, c gsCtx, pre *[]string) string {
	a, k := t.expr(e, c, pre)
	if k != "Z" {
		t.fail(e, "an integer expression is expected")
	}
	return a
}

// callText: the application gs_g fuel' args [s] (without the binding of its result).
func (t *gsTr) callText(g *gsFunc, ce *ast.CallExpr, c gsCtx, pre *[]string) string {
	head := g.coq + " fuel'"
	if g == t.f {
		t.f.recursive = true
		head = c.self
	} else if !g.done {
		t.fail(ce, "%s is called before it is translated (order of gsSpecs)", g.goName)
	}
	args := ce.Args
	if g.data != "" {
		if len(args) == 0 {
			t.fail(ce, "%s needs the data argument", g.goName)
			return "Panic"
		}
		id, ok := args[0].(*ast.Ident)
		if !ok || id.Name != t.f.data {
			t.fail(ce, "the first argument of %s must be the sorter itself", g.goName)
		}
		args = args[1:]
	}
	if len(args) != len(g.params) {
		t.fail(ce, "%s takes %d integer arguments", g.goName, len(g.params))
		return "Panic"
	}
	parts := []string{head}
	for _, a := range args {
		parts = append(parts, t.intExpr(a, c, pre))
	}
	if g.data != "" {
		parts = append(parts, "s")
	}
	return strings.Join(parts, " ")
}

// cond: a condition as (text, effectful); effectful text has type outcome bool.
func (t *gsTr) cond(e ast.Expr, c gsCtx) (string, bool) {
	if !t.containsLess(e) {
		a, k := t.expr(e, c, nil)
		if k != "bool" {
			t.fail(e, "a condition is expected")
		}
		return a, false
	}
	switch x := e.(type) {
	case *ast.ParenExpr:
		return t.cond(x.X, c)
	case *ast.UnaryExpr:
		if x.Op == token.NOT {
			a, _ := t.cond(x.X, c)
			return "(do t <- " + a + "; Ok (negb t))", true
		}
	case *ast.BinaryExpr:
		if x.Op == token.LAND && !t.containsLess(x.X) {
			a, k := t.expr(x.X, c, nil)
			if k != "bool" {
				t.fail(x.X, "a condition is expected")
			}
			b, _ := t.cond(x.Y, c)
			return "(if " + a + " then " + b + " else Ok false)", true
		}
	case *ast.CallExpr:
		if m, ce, ok := t.isDataCall(x); ok && m == "Less" && len(ce.Args) == 2 {
			return "(gs_less s " + t.intExpr(ce.Args[0], c, nil) + " " + t.intExpr(ce.Args[1], c, nil) + ")", true
		}
	}
	t.fail(e, "condition with data.Less in a position that is not understood: %s", t.src(e))
	return "(Ok false)", true
}

// ------------------------------------------------------------------ statements

func gsRestrict(inner, outer gsCtx) gsCtx {
	r := outer
	r.vars = inner.vars[:len(outer.vars)]
	return r
}

// outerAssigned: the variables of c (in order) assigned below the nodes, as Coq names, plus s when changed.
func (t *gsTr) outerAssigned(c gsCtx, nodes ...ast.Node) []string {
	names := map[string]bool{}
	data := false
	for _, n := range nodes {
		m, d := t.assigned(n)
		for k := range m {
			names[k] = true
		}
		data = data || d
	}
	var out []string
	for _, v := range c.vars {
		if names[v.name] {
			out = append(out, "v_"+v.name)
		}
	}
	if data {
		out = append(out, "s")
	}
	return out
}

// simple: a statement without control flow, as a prefix "let .. in\n" / "do .. <- ..;\n"; c is extended by the
// variables it declares.  ok = false when st is not such a statement.
func (t *gsTr) simple(st ast.Stmt, c *gsCtx) (string, bool) {
	var pre []string
	wrap := func(s string) string { return strings.Join(pre, "") + s }
	switch x := st.(type) {
	case *ast.DeclStmt:
		gd, ok := x.Decl.(*ast.GenDecl)
		if !ok || gd.Tok != token.VAR {
			return "", false
		}
		out := ""
		for _, sp := range gd.Specs {
			vs := sp.(*ast.ValueSpec)
			id, isInt := vs.Type.(*ast.Ident)
			if !isInt || id.Name != "int" || len(vs.Values) != 0 {
				t.fail(st, "only `var x int` is understood")
				return "", true
			}
			for _, n := range vs.Names {
				if _, dup := c.lookup(n.Name); dup {
					t.fail(st, "%s shadows a variable", n.Name)
				}
				c.vars = append(c.vars, gsVar{n.Name, "Z"})
				out += "let v_" + n.Name + " := 0 in\n"
			}
		}
		return out, true
	case *ast.IncDecStmt:
		id, ok := x.X.(*ast.Ident)
		if !ok {
			return "", false
		}
		v, known := c.lookup(id.Name)
		if !known || v.kind != "Z" {
			t.fail(st, "%s is not an integer variable", id.Name)
			return "", true
		}
		op := " + 1"
		if x.Tok == token.DEC {
			op = " - 1"
		}
		return "let v_" + id.Name + " := (v_" + id.Name + op + ") in\n", true
	case *ast.ExprStmt:
		if m, ce, ok := t.isDataCall(x.X); ok {
			if m == "Swap" && len(ce.Args) == 2 {
				a := t.intExpr(ce.Args[0], *c, &pre)
				b := t.intExpr(ce.Args[1], *c, &pre)
				return wrap("do s <- gs_swap s " + a + " " + b + ";\n"), true
			}
			t.fail(st, "data.%s as a statement", m)
			return "", true
		}
		if g, ce, ok := t.isFuncCall(x.X); ok {
			if g.nres != 0 || g.data == "" {
				t.fail(st, "the results of %s are dropped", g.goName)
				return "", true
			}
			call := t.callText(g, ce, *c, &pre)
			return wrap("do s <- " + call + ";\n"), true
		}
		t.fail(st, "statement not understood: %s", t.src(st))
		return "", true
	case *ast.AssignStmt:
		lhs := make([]string, len(x.Lhs))
		for i, l := range x.Lhs {
			id, ok := l.(*ast.Ident)
			if !ok {
				t.fail(st, "assignment to something that is not a variable")
				return "", true
			}
			lhs[i] = id.Name
		}
		// r1, r2 := f(data, ..)
		if len(x.Rhs) == 1 {
			if g, ce, ok := t.isFuncCall(x.Rhs[0]); ok && (g.data != "" || g.nres > 1) {
				if x.Tok != token.DEFINE && x.Tok != token.ASSIGN {
					t.fail(st, "operator assignment from a call")
					return "", true
				}
				if g.nres != len(lhs) {
					t.fail(st, "%s has %d results", g.goName, g.nres)
					return "", true
				}
				call := t.callText(g, ce, *c, &pre)
				var pat []string
				for _, n := range lhs {
					_, known := c.lookup(n)
					if x.Tok == token.DEFINE {
						if known {
							t.fail(st, "%s shadows / redeclares a variable", n)
						}
						c.vars = append(c.vars, gsVar{n, "Z"})
					} else if !known {
						t.fail(st, "unknown variable %s", n)
					}
					pat = append(pat, "v_"+n)
				}
				if g.data != "" {
					pat = append(pat, "s")
				}
				return wrap("do " + gsTuple(pat) + " <- " + call + ";\n"), true
			}
		}
		if len(x.Rhs) != len(lhs) {
			t.fail(st, "assignment with %d left and %d right sides", len(lhs), len(x.Rhs))
			return "", true
		}
		switch x.Tok {
		case token.DEFINE, token.ASSIGN:
			if len(lhs) > 1 {
				for _, r := range x.Rhs {
					for _, n := range lhs {
						mention := false
						ast.Inspect(r, func(m ast.Node) bool {
							if id, ok := m.(*ast.Ident); ok && id.Name == n {
								mention = true
							}
							return true
						})
						if mention {
							t.fail(st, "parallel assignment whose right side mentions %s", n)
						}
					}
				}
			}
			out := ""
			var decl []gsVar
			for i, n := range lhs {
				if t.containsLess(x.Rhs[i]) {
					t.fail(st, "data.Less outside a condition")
					return "", true
				}
				a, k := t.expr(x.Rhs[i], *c, &pre)
				v, known := c.lookup(n)
				if x.Tok == token.DEFINE {
					if known {
						t.fail(st, "%s shadows / redeclares a variable", n)
					}
					decl = append(decl, gsVar{n, k})
				} else if !known {
					t.fail(st, "unknown variable %s", n)
				} else if v.kind != k {
					t.fail(st, "%s changes its type", n)
				}
				out += "let v_" + n + " := " + a + " in\n"
			}
			c.vars = append(c.vars, decl...)
			return wrap(out), true
		default:
			ops := map[token.Token]token.Token{token.ADD_ASSIGN: token.ADD, token.SUB_ASSIGN: token.SUB, token.MUL_ASSIGN: token.MUL,
				token.QUO_ASSIGN: token.QUO, token.SHR_ASSIGN: token.SHR}
			op, ok := ops[x.Tok]
			if !ok || len(lhs) != 1 {
				t.fail(st, "assignment operator %s", x.Tok)
				return "", true
			}
			a, k := t.expr(&ast.BinaryExpr{X: x.Lhs[0], Op: op, Y: x.Rhs[0], OpPos: x.TokPos}, *c, &pre)
			if k != "Z" {
				t.fail(st, "assignment operator on a non-integer")
			}
			return wrap("let v_" + lhs[0] + " := " + a + " in\n"), true
		}
	}
	return "", false
}

func (t *gsTr) stmts(list []ast.Stmt, c gsCtx, k func(gsCtx) string) string {
	if len(list) == 0 {
		return k(c)
	}
	st, rest := list[0], list[1:]
	memo, have := "", false
	next := func(c2 gsCtx) string {
		if !have {
			memo, have = t.stmts(rest, c2, k), true
		}
		return memo
	}
	switch x := st.(type) {
	case *ast.ReturnStmt:
		if len(rest) > 0 {
			t.fail(rest[0], "statement after return")
		}
		var pre []string
		var res []string
		for _, r := range x.Results {
			res = append(res, t.intExpr(r, c, &pre))
		}
		return strings.Join(pre, "") + c.ret(res)
	case *ast.BranchStmt:
		if x.Tok != token.BREAK || x.Label != nil || c.brk == nil {
			t.fail(st, "%s is not understood here", x.Tok)
			return "Panic"
		}
		if len(rest) > 0 {
			t.fail(rest[0], "statement after break")
		}
		return c.brk()
	case *ast.BlockStmt:
		return t.stmts(x.List, c, func(c2 gsCtx) string { return next(gsRestrict(c2, c)) })
	case *ast.IfStmt:
		if x.Init != nil {
			t.fail(st, "if with an init statement")
			return "Panic"
		}
		ct, eff := t.cond(x.Cond, c)
		head := "if " + ct + " then\n"
		if eff {
			head = "do t <- " + ct + ";\nif t then\n"
		}
		var elseList []ast.Stmt
		switch e := x.Else.(type) {
		case nil:
		case *ast.BlockStmt:
			elseList = e.List
		default:
			elseList = []ast.Stmt{e}
		}
		if !gsEscapes(x) {
			var nodes []ast.Node
			nodes = append(nodes, x.Body)
			if x.Else != nil {
				nodes = append(nodes, x.Else)
			}
			pat := t.outerAssigned(c, nodes...)
			if len(pat) == 0 {
				t.fail(st, "an if that assigns nothing")
				return "Panic"
			}
			okPat := "Ok " + gsTuple(pat)
			thenT := t.stmts(x.Body.List, c, func(gsCtx) string { return okPat })
			elseT := t.stmts(elseList, c, func(gsCtx) string { return okPat })
			inner := head + gsIndent(thenT) + "\nelse\n" + gsIndent(elseT)
			return "do " + gsTuple(pat) + " <- (\n" + gsIndent(inner) + ");\n" + next(c)
		}
		thenT := t.stmts(x.Body.List, c, func(c2 gsCtx) string { return next(gsRestrict(c2, c)) })
		elseT := t.stmts(elseList, c, func(c2 gsCtx) string { return next(gsRestrict(c2, c)) })
		return head + gsIndent(thenT) + "\nelse\n" + gsIndent(elseT)
	case *ast.ForStmt:
		return t.forStmt(x, c, next)
	}
	if text, ok := t.simple(st, &c); ok {
		return text + next(c)
	}
	t.fail(st, "statement not understood: %s", t.src(st))
	return "Panic"
}

func (t *gsTr) forStmt(x *ast.ForStmt, c gsCtx, next func(gsCtx) string) string {
	c1 := c
	initText := ""
	if x.Init != nil {
		txt, ok := t.simple(x.Init, &c1)
		if !ok {
			t.fail(x.Init, "loop init statement not understood")
		}
		initText = txt
	}
	cps := gsContainsReturn(x.Body)
	if cps && c.inLoop {
		t.fail(x, "a loop with a return inside another loop")
		return "Panic"
	}
	var nodes []ast.Node
	nodes = append(nodes, x.Body)
	if x.Post != nil {
		nodes = append(nodes, x.Post)
	}
	res := t.outerAssigned(c, nodes...)
	exit := "Ok " + gsTuple(res)
	resType := ""
	if cps {
		cr := c
		cr.self, cr.selfArg = "self", "self"
		exit = next(cr)
		resType = t.resultType()
	} else {
		if len(res) == 0 {
			t.fail(x, "a loop that changes nothing")
			return "Panic"
		}
		var tys []string
		for _, r := range res {
			if r == "s" {
				tys = append(tys, "list nat")
			} else {
				v, _ := c.lookup(strings.TrimPrefix(r, "v_"))
				tys = append(tys, v.kind)
			}
		}
		resType = "outcome " + gsTypeTuple(tys)
	}
	cb := c1
	cb.inLoop = true
	cb.self, cb.selfArg = "self", "self"
	cb.brk = func() string { return exit }
	if !cps {
		cb.ret = func([]string) string {
			t.fail(x, "return inside a loop that was classified as having none")
			return "Panic"
		}
	}
	iter := t.stmts(x.Body.List, cb, func(c2 gsCtx) string {
		c3 := gsRestrict(c2, cb)
		post := ""
		if x.Post != nil {
			txt, ok := t.simple(x.Post, &c3)
			if !ok {
				t.fail(x.Post, "loop post statement not understood")
			}
			post = txt
		}
		return post + "@REC@"
	})
	body := iter
	if x.Cond != nil {
		ct, eff := t.cond(x.Cond, c1)
		if eff {
			body = "do t <- " + ct + ";\nif t then\n" + gsIndent(iter) + "\nelse\n" + gsIndent(exit)
		} else {
			body = "if " + ct + " then\n" + gsIndent(iter) + "\nelse\n" + gsIndent(exit)
		}
	}
	// the arguments: what the text mentions
	var pnames, ptypes []string
	for _, v := range c1.vars {
		if gsMentions(body, "v_"+v.name) {
			pnames = append(pnames, "v_"+v.name)
			ptypes = append(ptypes, v.kind)
		}
	}
	useSelf := gsMentions(body, "self")
	useFuel := gsMentions(body, "fuel'")
	useS := gsMentions(body, "s")
	name := fmt.Sprintf("%s_loop%d", t.f.coq, len(t.loops)+1)
	var sig, recArgs, callArgs []string
	if useSelf {
		sig = append(sig, "(self : "+t.selfType()+")")
		recArgs = append(recArgs, "self")
		callArgs = append(callArgs, c.selfArg)
	}
	if useFuel {
		sig = append(sig, "(fuel' : nat)")
		recArgs = append(recArgs, "fuel'")
		callArgs = append(callArgs, "fuel'")
	}
	sig = append(sig, "(k : nat)")
	recArgs = append(recArgs, "k'")
	callArgs = append(callArgs, "fuel'")
	for i, n := range pnames {
		sig = append(sig, "("+n+" : "+ptypes[i]+")")
		recArgs = append(recArgs, n)
		callArgs = append(callArgs, n)
	}
	if useS {
		sig = append(sig, "(s : list nat)")
		recArgs = append(recArgs, "s")
		callArgs = append(callArgs, "s")
	}
	body = strings.ReplaceAll(body, "@REC@", name+" "+strings.Join(recArgs, " "))
	def := "Fixpoint " + name + " " + strings.Join(sig, " ") + " {struct k} : " + resType + " :=\n" +
		"  match k with\n  | O => Panic\n  | S k' =>\n" + gsIndent(gsIndent(body)) + "\n  end.\n"
	t.loops = append(t.loops, def)
	call := name + " " + strings.Join(callArgs, " ")
	if cps {
		return initText + call
	}
	return initText + "do " + gsTuple(res) + " <- " + call + ";\n" + next(c)
}

func (t *gsTr) resultType() string {
	var tys []string
	for i := 0; i < t.f.nres; i++ {
		tys = append(tys, "Z")
	}
	if t.f.data != "" {
		tys = append(tys, "list nat")
	}
	if len(tys) == 0 {
		return "outcome unit"
	}
	return "outcome " + gsTypeTuple(tys)
}

func (t *gsTr) selfType() string {
	var tys []string
	for range t.f.params {
		tys = append(tys, "Z")
	}
	if t.f.data != "" {
		tys = append(tys, "list nat")
	}
	tys = append(tys, t.resultType())
	return strings.Join(tys, " -> ")
}

// ------------------------------------------------------------------ functions

func gsIsInt(e ast.Expr) bool {
	id, ok := e.(*ast.Ident)
	return ok && id.Name == "int"
}

func gsIsSorter(e ast.Expr) bool {
	id, ok := e.(*ast.Ident)
	return ok && id.Name == "Sorter"
}

// gsSignature fills data / params / nres from the declaration.
func gsSignature(f *gsFunc) bool {
	fd := f.fd
	if fd.Recv != nil {
		if len(fd.Recv.List) != 1 || len(fd.Recv.List[0].Names) != 1 || !gsIsSorter(fd.Recv.List[0].Type) {
			problem("internal/sort/sorter.go translation, function %s: receiver not understood", f.goName)
			return false
		}
		f.data = fd.Recv.List[0].Names[0].Name
	}
	first := true
	for _, fl := range fd.Type.Params.List {
		for _, n := range fl.Names {
			switch {
			case gsIsSorter(fl.Type) && first && f.data == "":
				f.data = n.Name
			case gsIsInt(fl.Type):
				f.params = append(f.params, gsVar{n.Name, "Z"})
			default:
				problem("internal/sort/sorter.go translation, function %s: argument %s has a type that is not understood", f.goName, n.Name)
				return false
			}
			first = false
		}
	}
	if fd.Type.Results != nil {
		for _, fl := range fd.Type.Results.List {
			if !gsIsInt(fl.Type) {
				problem("internal/sort/sorter.go translation, function %s: result type not understood", f.goName)
				return false
			}
			n := len(fl.Names)
			if n == 0 {
				n = 1
			}
			f.nres += n
		}
	}
	return true
}

func gsSource(p *pkgInfo, fd *ast.FuncDecl) string {
	cp := *fd
	cp.Doc = nil
	var b bytes.Buffer
	if err := printer.Fprint(&b, p.fset, &cp); err != nil {
		return ""
	}
	s := b.String()
	s = strings.ReplaceAll(s, "(*", "( *")
	s = strings.ReplaceAll(s, "*)", "* )")
	s = strings.ReplaceAll(s, "\"", "'")
	return s
}

func gsTranslate(p *pkgInfo, f *gsFunc) {
	t := &gsTr{p: p, f: f}
	c := gsCtx{self: f.coq + " fuel'", selfArg: "(" + f.coq + " fuel')"}
	c.vars = append(c.vars, f.params...)
	c.ret = func(res []string) string {
		if len(res) != f.nres {
			t.fail(f.fd, "return with %d values, the function has %d results", len(res), f.nres)
		}
		parts := append([]string{}, res...)
		if f.data != "" {
			parts = append(parts, "s")
		}
		if len(parts) == 0 {
			return "Ok tt"
		}
		return "Ok " + gsTuple(parts)
	}
	body := t.stmts(f.fd.Body.List, c, func(c2 gsCtx) string {
		if f.nres != 0 {
			t.fail(f.fd, "the function can fall off its end")
		}
		return c.ret(nil)
	})
	var sig []string
	sig = append(sig, "(fuel : nat)")
	for _, v := range f.params {
		sig = append(sig, "(v_"+v.name+" : "+v.kind+")")
	}
	if f.data != "" {
		sig = append(sig, "(s : list nat)")
	}
	kw, st := "Definition", ""
	if f.recursive {
		kw, st = "Fixpoint", " {struct fuel}"
	}
	var b strings.Builder
	fmt.Fprintf(&b, "(* %s\n%s *)\n", gsPkg, gsSource(p, f.fd))
	for _, l := range t.loops {
		b.WriteString(l)
	}
	fmt.Fprintf(&b, "%s %s %s%s : %s :=\n  match fuel with\n  | O => Panic\n  | S fuel' =>\n%s\n  end.\n",
		kw, f.coq, strings.Join(sig, " "), st, t.resultType(), gsIndent(gsIndent(body)))
	f.text = b.String()
	f.ok = !t.bad
}

func genSorter() string {
	p := loadPkg(gsPkg)
	// the vocabulary
	for name, want := range gsVocabulary {
		fd, ok := p.funcs[name]
		if !ok || fd.Body == nil {
			problem("internal/sort/sorter.go translation: method %s not found in %s", name, gsPkg)
			continue
		}
		var b bytes.Buffer
		printer.Fprint(&b, p.fset, fd.Body)
		if b.String() != want {
			problem("internal/sort/sorter.go translation: the body of %s is not the one the vocabulary gs_less / gs_swap / Len of the translation stands for", name)
		}
	}
	var order []*gsFunc
	for _, n := range gsSpecs {
		short := n[strings.LastIndex(n, ".")+1:]
		f := &gsFunc{goName: n, coq: "gs_" + short}
		gsFuncs[short] = f
		order = append(order, f)
	}
	for _, f := range order {
		fd, ok := p.funcs[f.goName]
		if !ok || fd.Body == nil {
			problem("internal/sort/sorter.go translation: function %s not found in %s", f.goName, gsPkg)
			continue
		}
		f.fd = fd
		if !gsSignature(f) {
			f.fd = nil
		}
	}
	for _, f := range order {
		if f.fd != nil {
			gsTranslate(p, f)
		}
		f.done = true
	}
	golden := ""
	if fl := flag.Lookup("golden"); fl != nil && fl.Value.String() != "" {
		if gb, err := os.ReadFile(filepath.Join(fl.Value.String(), "GenSorter.v")); err == nil {
			golden = string(gb)
		}
	}
	var b strings.Builder
	b.WriteString(gsPreamble)
	for _, f := range order {
		text := f.text
		if !f.ok {
			old, found := gfGoldenBlock(golden, f.coq)
			if !found {
				continue
			}
			text = "(* FALLBACK " + f.coq + ": not derivable from the current source; text of the last validated tree *)\n" + old
		}
		fmt.Fprintf(&b, "(* BEGIN %s *)\n%s(* END %s *)\n\n", f.coq, text, f.coq)
	}
	b.WriteString("End GenSorter.\n")
	return b.String()
}
