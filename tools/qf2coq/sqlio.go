package main

// Translation of internal/io/sql (column.go, coerce.go, reader.go, stmt.go, the struct SQLConfig of types.go) into
// Gallina (coq/Gen/GenSqlIO.v, tie T1 for the SQL reader and writer, properties C19 / C15).
//
// The structs Column (with its anonymous struct field data) and SQLConfig become records, the functions listed in
// gxSpecs are translated statement by statement into definitions gx_<Receiver>_<name>.
// coq/Proofs/GenSqlIOProofs.v proves every generated definition equal to the hand-written model of coq/Model/Sql.v
// (the one the sql engine executes through Corr/IOCorr.v), so that an edit of these Go files changes the generated
// text and breaks a named theorem T1_sql_<name> of coq/Properties/T1Sql.v, while the theorems of C19 / C15 keep
// talking about the model.
//
// THE SCHEME (anything that does not fit is reported through problem(...); the block then keeps the text of the
// golden copy, marked FALLBACK, so that the development still builds — the exit status says the tie is broken).
//
//	*sql.Rows   THE ABSTRACTION BOUNDARY.  The result set is a value of an arbitrary type R with arbitrary answers
//	            (section variables): rows_next : R -> bool * R (rows.Next()), rows_columns : R -> list bytes *
//	            gx_error (rows.Columns()), rows_err : R -> gx_error (rows.Err()) and rows_values : R -> list dval,
//	            the driver values of the current row.  rows.Scan(dest...) is database/sql's (TRUSTED, written out
//	            as gx_Rows_Scan): the counts are compared, then the translated Column.Scan of every destination is
//	            called with its value, in order, up to the first error.  The state of rows is dropped when ReadSQL
//	            returns (its caller only closes it).
//	interface{} REFLECTION AS A TAGGED UNION, fixed per place (gxPlaces):
//	            any     a driver value (the argument of Scan and of the coercion closures): dval of Model/Sql.v,
//	                    DInt int64 | DFloat float64 (bit pattern) | DBool | DStr string | DBytes []byte | DNull
//	                    nil | DOther anything else.  switch v := t.(type) is a match on the constructor (the
//	                    cases bool, string, int64, []uint8 / []byte, float64, nil, default); v, ok := t.(T) is the
//	                    match with (zero, false) elsewhere; t == nil is gx_any_isnil.
//	            ref     Column.ptr: nil or the address of one of the slices of the column's OWN field data:
//	                    gx_ref (generated from the struct).  &c.data.F may only be stored into c.ptr of the same c
//	                    (checked); reflect.ValueOf(c.ptr).Elem().Interface() is gx_ref_elem (c.data) (c.ptr): the
//	                    CURRENT value of that slice as a gx_DataSlice (generated: one constructor per slice type),
//	                    Panic on a nil ref as reflect does.
//	            dslice  types.DataSlice / the result of Data: gx_DataSlice, nil is gx_DataSlice_nil.
//	            cols    []interface{} holding *Column only (the destinations of rows.Scan): list gx_Column;
//	                    column.(*Column) is the identity.
//	closures    DEFUNCTIONALISED.  Every package function of the shape func F(c *Column) func(t interface{}) error
//	            whose body is one return of a function literal is a constructor gx_fn_F of gx_CoerceFunc and its
//	            literal is translated as gx_F (column, t).  A CoerceFunc / closure value is option gx_CoerceFunc
//	            (None = nil).  fn(col) may only stand in  col.coerce = fn(col)  with the same col (checked): the
//	            closure stored in a column captures that very column, so c.coerce(t) is gx_apply_CoerceFunc f c t
//	            (Panic when nil).  Calling a nil fn is Panic.
//	maps        ASSOCIATION LISTS.  map[string]V is option (list (bytes * V)): None = nil map.  m[k] finds the
//	            LAST pair for k (gx_map_lookup; the list is the sequence of stores that built the map), m[k] = v
//	            replaces the first pair for k or appends (gx_map_set, Panic on a nil map), range m runs over the
//	            keys in list order (Go leaves the order open: the theorems hold for every list).  The values of
//	            CoerceMap are CoerceFunc values: option gx_CoerceFunc, None = a nil function stored in the map
//	            (what config/sql.Coerce stores for a CoercePair whose Type is none of the constants);
//	            fn, ok := m[k] gives the zero value (nil) and false where there is no entry.
//	pointers    *Column / *bytes.Buffer are the value itself, threaded through: a function answers
//	            outcome (r1 * .. * rn * out1 * ..) where the outs are its *bytes.Buffer arguments and the *Column
//	            arguments / receiver it changes (syntactic analysis).  At a call the new values are stored back
//	            into the places they were taken from.  Sound because the callee has no other access path to the
//	            pointee; a pointer variable appended to a slice may not be used afterwards (checked: moved).
//	            *string: &s is Some s, nil is None.
//	bytes.Buffer  the bytes written so far: NewBuffer(nil) is [], WriteString(s) appends s, WriteRune(r) appends
//	            utf8_encode r of Model/Sql.v (invalid runes as U+FFFD), String() is the value.
//	errors      gx_error = gx_nil | gx_err: every non-nil error is the one value gx_err (texts abstracted).
//	            qerrors.New(..) is gx_err; its arguments only build the message and are NOT translated (accepted
//	            shapes: literals, variables, err.Error(), reflect.ValueOf/TypeOf(x).Kind(); that these cannot
//	            panic on the paths they stand on — err != nil, t != nil — is not checked).
//	numbers     int, int64, rune -> Z, exact (int(x) on an int64 is the identity: 64-bit platform; overflow of
//	            counters is outside the translation as it is outside the model); float64 -> N (the bit pattern);
//	            math.NaN() -> gx_NaN; float.Fixed -> fixed, strconv.ParseFloat(s, 64) -> parse_float (section
//	            variables; the value beside a non-nil error is 0); reflect.Kind -> gx_Kind (Invalid is its zero
//	            value); fmt.Sprintf with %d verbs only -> the literal pieces and gx_itoa of the arguments.
//	strings     string / []byte -> bytes; a literal -> (bs len 0xHEX); == is bytes_eqb.  []T -> list; nil is [];
//	            x == nil on a slice is emptiness (exact here: such slices only ever grow by append from nil);
//	            append(x, y) -> x ++ [y]; len -> Z.of_nat (length x); x[i] -> gx_list_index (Panic outside).
//	records     struct -> Record gx_<T> with one projection gx_<T>_<field> and one setter gx_<T>_set_<field> per
//	            field; the anonymous struct type of Column.data is the record gx_Columndata.
//	fuel        a function that contains a for loop with a condition (or calls such a function) takes
//	            (fuel : nat) first: O => Panic | S fuel' => body; inside, every such loop is entered with the
//	            budget fuel' and every fuelled call gets fuel'.  Range loops are structural and take no fuel.
//	control     if / switch: the rest of the block is continued inside every branch that falls through.
//	            switch tag { case a: .. default: .. } is the if-chain in source order.
//	            for init; cond; post / for cond: a Fixpoint gx_f_loopN over its own counter k (O => Panic):
//	              S k' => if cond then body; post; loop k' .. else exit.          continue = post; loop; break = exit
//	            for i, x := range X (X a slice, or the keys of a map): a Fixpoint over the list (X evaluated once):
//	              [] => exit | x :: l' => body; loop l' (i + 1) ..
//	            A loop without return inside answers the outer variables it assigns.  With a return inside it
//	            answers gx_flow: gx_fall vars (left normally) | gx_ret r (the function returned r); when its body
//	            continues the labelled loop directly around it: gx_flowc with the third case gx_ccont vars.
//	rejected    goto, break with label, fallthrough, defer, go, shadowing, closures elsewhere, method values,
//	            struct copies, everything else.

import (
	"flag"
	"fmt"
	"go/ast"
	"go/token"
	"math/big"
	"os"
	"path/filepath"
	"strconv"
	"strings"
)

const gxPkg = "internal/io/sql"

// in dependency order (a callee before its callers)
var gxSpecs = []string{"Column.Null", "Column.Int", "Column.Float", "Column.String", "Column.Bool",
	"Int64ToBool", "StringToFloat", "Column.Scan", "Column.Data", "ReadSQL", "escape", "Insert"}

// the structs that become records, in dependency order
var gxStructs = []string{"Column", "SQLConfig"}

// the finer types of interface{} places ("Struct.field", "function.variable", "function.resultN")
var gxPlaces = map[string]string{
	"Column.ptr":          "ref",
	"Column.Scan.t":       "any",
	"Int64ToBool.t":       "any",
	"StringToFloat.t":     "any",
	"Column.Data.result0": "dslice",
	"ReadSQL.columns":     "cols",
}

const gxPreamble1 = `(* GENERATED by tools/qf2coq (sqlio.go) from internal/io/sql (column.go, coerce.go, reader.go, stmt.go, types.go)
   of tobgu/qframe — do not edit.  One Record per struct, one definition gx_<Receiver>_<function> per translated
   Go function, one Fixpoint .._loopN per loop; the scheme is described at the top of tools/qf2coq/sqlio.go.
   R / rows_next / rows_columns / rows_values / rows_err : the *sql.Rows (arbitrary state, arbitrary answers);
   fixed / parse_float : float.Fixed and strconv.ParseFloat (arbitrary).  A driver value (interface{}) is dval of
   Model/Sql.v; Column.ptr is a gx_ref into the column's own data, Data() answers a gx_DataSlice; closures are
   the constructors of gx_CoerceFunc; maps are option (association list); errors are gx_nil | gx_err; int, int64
   and rune are Z, float64 is its bit pattern in N, string and []byte are bytes.  *Column and *bytes.Buffer are
   the value, threaded through (answered after the Go results when the function changes it).  A function with
   a conditional loop (or calling one) takes fuel first: O => Panic, S fuel' => the body. *)
From QF Require Import Base.Prelude Model.Sql.
Local Open Scope Z_scope.

(* error values: nil, anything else *)
Inductive gx_error := gx_nil | gx_err.
Definition gx_error_isnil (e : gx_error) : bool := match e with gx_nil => true | gx_err => false end.

(* reflect.Kind, the values this package mentions; Invalid is the zero value *)
Inductive gx_Kind := gx_Invalid | gx_Bool | gx_Int | gx_Float64 | gx_String.
Definition gx_Kind_eqb (a b : gx_Kind) : bool :=
  match a, b with
  | gx_Invalid, gx_Invalid | gx_Bool, gx_Bool | gx_Int, gx_Int | gx_Float64, gx_Float64 | gx_String, gx_String => true
  | _, _ => false
  end.

(* control flow out of a loop that contains a return (and a continue of the labelled loop around it) *)
Inductive gx_flow (Rt V : Type) := gx_fall (v : V) | gx_ret (r : Rt).
Arguments gx_fall {Rt V} v.
Arguments gx_ret {Rt V} r.
Inductive gx_flowc (Rt V : Type) := gx_cfall (v : V) | gx_cret (r : Rt) | gx_ccont (v : V).
Arguments gx_cfall {Rt V} v.
Arguments gx_cret {Rt V} r.
Arguments gx_ccont {Rt V} v.

(* t == nil on a driver value; x == nil on a slice; f == nil on a function value / m == nil on a map *)
Definition gx_any_isnil (t : dval) : bool := match t with DNull => true | _ => false end.
Definition gx_isnil {T : Type} (s : list T) : bool := match s with [] => true | _ :: _ => false end.
Definition gx_opt_isnil {T : Type} (o : option T) : bool := match o with None => true | Some _ => false end.
(* x[i] *)
Definition gx_list_index {T : Type} (s : list T) (i : Z) : outcome T :=
  if i <? 0 then Panic else idx s (Z.to_nat i).
(* math.NaN() *)
Definition gx_NaN : N := 0x7FF8000000000001%N.
(* fmt.Sprintf("%d", z) *)
Definition gx_itoa (z : Z) : bytes :=
  if z <? 0 then 45%N :: itoa (Z.to_N (- z)) else itoa (Z.to_N z).
(* maps as association lists: m[k] (the last pair for k), m[k] = v, the keys in list order *)
Fixpoint gx_assoc_lookup {V : Type} (l : list (bytes * V)) (k : bytes) : option V :=
  match l with
  | [] => None
  | (k', v) :: l' =>
      match gx_assoc_lookup l' k with
      | Some v' => Some v'
      | None => if bytes_eqb k' k then Some v else None
      end
  end.
Definition gx_map_lookup {V : Type} (m : option (list (bytes * V))) (k : bytes) : option V :=
  match m with Some l => gx_assoc_lookup l k | None => None end.
Definition gx_map_set {V : Type} (m : option (list (bytes * V))) (k : bytes) (v : V) : outcome (option (list (bytes * V))) :=
  match m with Some l => Ok (Some (map_set l k v)) | None => Panic end.
Definition gx_opt_or {T : Type} (o : option T) (d : T) : T := match o with Some x => x | None => d end.
Definition gx_map_keys {V : Type} (m : option (list (bytes * V))) : list bytes :=
  match m with Some l => map fst l | None => [] end.
(* v, ok := t.(T) *)
Definition gx_assert_int64 (t : dval) : Z * bool := match t with DInt z => (z, true) | _ => (0, false) end.
Definition gx_assert_float64 (t : dval) : N * bool := match t with DFloat b => (b, true) | _ => (0%N, false) end.
Definition gx_assert_bool (t : dval) : bool * bool := match t with DBool b => (b, true) | _ => (false, false) end.
Definition gx_assert_string (t : dval) : bytes * bool := match t with DStr s => (s, true) | _ => ([], false) end.
Definition gx_assert_bytes (t : dval) : bytes * bool := match t with DBytes s => (s, true) | _ => ([], false) end.
(* fn(col) on a CoerceFunc value: the closure it makes (Panic on nil) *)
Definition gx_make_closure {F : Type} (f : option F) : outcome (option F) :=
  match f with Some g => Ok (Some g) | None => Panic end.

`

const gxPreamble2 = `
Section GenSqlIO.
Context {R : Type}.
Variable rows_next : R -> bool * R.
Variable rows_columns : R -> list bytes * gx_error.
Variable rows_values : R -> list dval.
Variable rows_err : R -> gx_error.
Variable fixed : N -> Z -> N.
Variable parse_float : bytes -> option N.

(* strconv.ParseFloat(s, 64) *)
Definition gx_ParseFloat (s : bytes) : N * gx_error :=
  match parse_float s with Some f => (f, gx_nil) | None => (0%N, gx_err) end.

`

// database/sql's Rows.Scan, written out after Column.Scan (trusted)
const gxRowsScan = `(* database/sql Rows.Scan(dest...) (trusted): the counts are compared, then every destination scans its value, in
   order, up to the first error *)
Fixpoint gx_scan_dests (fuel' : nat) (dests : list gx_Column) (vals : list dval) : outcome (gx_error * list gx_Column) :=
  match dests, vals with
  | d :: ds, v :: vs =>
      do (e, d') <- gx_Column_Scan fuel' d v;
      if gx_error_isnil e then
        do (e2, ds') <- gx_scan_dests fuel' ds vs;
        Ok (e2, d' :: ds')
      else Ok (gx_err, d' :: ds)
  | _, _ => Ok (gx_nil, dests)
  end.
Definition gx_Rows_Scan (fuel' : nat) (r : R) (dests : list gx_Column) : outcome (gx_error * list gx_Column) :=
  if Nat.eqb (length dests) (length (rows_values r)) then gx_scan_dests fuel' dests (rows_values r)
  else Ok (gx_err, dests).
`

// ------------------------------------------------------------------ types

type gxT struct {
	k     string // int i64 rune bool str buf float any err kind ref dslice optstr list struct cfn cfnv clo map rows const strconst nil bad
	sname string
	ptr   bool
	elem  *gxT
	val   *big.Rat
	sval  string
}

var (
	gxInt    = &gxT{k: "int"}
	gxI64    = &gxT{k: "i64"}
	gxRune   = &gxT{k: "rune"}
	gxBool   = &gxT{k: "bool"}
	gxStr    = &gxT{k: "str"}
	gxBuf    = &gxT{k: "buf", ptr: true}
	gxFloat  = &gxT{k: "float"}
	gxAny    = &gxT{k: "any"}
	gxErr    = &gxT{k: "err"}
	gxKind   = &gxT{k: "kind"}
	gxRef    = &gxT{k: "ref"}
	gxDSlice = &gxT{k: "dslice"}
	gxOptStr = &gxT{k: "optstr"}
	gxCfn    = &gxT{k: "cfn"}
	gxCfnV   = &gxT{k: "cfnv"}
	gxClo    = &gxT{k: "clo"}
	gxRows   = &gxT{k: "rows", ptr: true}
	gxNil    = &gxT{k: "nil"}
	gxBad    = &gxT{k: "bad"}
)

func gxList(e *gxT) *gxT { return &gxT{k: "list", elem: e} }
func gxMap(e *gxT) *gxT  { return &gxT{k: "map", elem: e} }

func (t *gxT) same(u *gxT) bool {
	if t.k != u.k || t.sname != u.sname {
		return false
	}
	if t.elem != nil || u.elem != nil {
		return t.elem != nil && u.elem != nil && t.elem.same(u.elem)
	}
	return true
}

func (t *gxT) name() string {
	switch t.k {
	case "struct":
		return t.sname
	case "list":
		return "[]" + t.elem.name()
	case "map":
		return "map of " + t.elem.name()
	}
	return t.k
}

func (t *gxT) isNum() bool { return t.k == "int" || t.k == "i64" || t.k == "rune" }

func (t *gxT) coq() string {
	switch t.k {
	case "int", "i64", "rune":
		return "Z"
	case "bool":
		return "bool"
	case "str", "buf":
		return "bytes"
	case "float":
		return "N"
	case "any":
		return "dval"
	case "err":
		return "gx_error"
	case "kind":
		return "gx_Kind"
	case "ref":
		return "gx_ref"
	case "dslice":
		return "gx_DataSlice"
	case "optstr":
		return "(option bytes)"
	case "list":
		return "(list " + t.elem.coq() + ")"
	case "struct":
		return "gx_" + t.sname
	case "cfn", "clo":
		return "(option gx_CoerceFunc)"
	case "cfnv":
		return "gx_CoerceFunc"
	case "map":
		return "(option (list (bytes * " + t.elem.coq() + ")))"
	case "rows":
		return "R"
	}
	return "BAD"
}

func (t *gxT) zero() (string, bool) {
	switch t.k {
	case "int", "i64", "rune":
		return "0", true
	case "bool":
		return "false", true
	case "str", "buf":
		return "(@nil N)", true
	case "float":
		return "0%N", true
	case "any":
		return "DNull", true
	case "err":
		return "gx_nil", true
	case "kind":
		return "gx_Invalid", true
	case "ref":
		return "gx_ref_nil", true
	case "dslice":
		return "gx_DataSlice_nil", true
	case "optstr", "cfn", "clo", "map":
		return "None", true
	case "list":
		return "(@nil " + t.elem.coq() + ")", true
	case "struct":
		s := gxStructTab[t.sname]
		if s == nil || !s.ok {
			return "BAD", false
		}
		var args []string
		for _, f := range s.fields {
			z, ok := f.t.zero()
			if !ok {
				return "BAD", false
			}
			args = append(args, z)
		}
		return "(gx_mk_" + s.name + " " + strings.Join(args, " ") + ")", true
	}
	return "BAD", false
}

type gxField struct {
	name string
	t    *gxT
}

type gxStruct struct {
	name   string
	goName string
	fields []gxField
	nested []string // names of the nested anonymous structs (declared with it)
	ok     bool
}

var gxStructTab map[string]*gxStruct
var gxStructOrder []string // all records, nested first
var gxMakers []string      // the functions of the CoerceFunc shape, in source order of gxSpecs then others

// gxResolve maps a Go type expression to a translation type; place is "Struct.field" / "func.var" / "func.resultN".
func gxResolve(p *pkgInfo, e ast.Expr, place string) *gxT {
	if st, ok := e.(*ast.StructType); ok {
		// an anonymous struct type: the record <Struct><field>
		name := strings.ReplaceAll(place, ".", "")
		if gxStructTab[name] == nil {
			gxLoadStruct(p, name, "struct type of "+place, st)
		}
		return &gxT{k: "struct", sname: name}
	}
	src := ggSrc(p.fset, e)
	switch src {
	case "int":
		return gxInt
	case "int64":
		return gxI64
	case "rune":
		return gxRune
	case "bool":
		return gxBool
	case "string":
		return gxStr
	case "float64":
		return gxFloat
	case "error":
		return gxErr
	case "reflect.Kind":
		return gxKind
	case "[]int":
		return gxList(gxInt)
	case "[]float64":
		return gxList(gxFloat)
	case "[]bool":
		return gxList(gxBool)
	case "[]*string":
		return gxList(gxOptStr)
	case "[]string":
		return gxList(gxStr)
	case "*string":
		return gxOptStr
	case "func(t interface{}) error":
		return gxClo
	case "CoerceFunc":
		return gxCfn
	case "map[string]CoerceFunc":
		return gxMap(gxCfn)
	case "map[string]types.DataSlice":
		return gxMap(gxDSlice)
	case "types.DataSlice":
		return gxDSlice
	case "*sql.Rows":
		return gxRows
	case "*bytes.Buffer":
		return gxBuf
	case "interface{}", "[]interface{}", "any", "[]any":
		switch gxPlaces[place] {
		case "ref":
			if src == "interface{}" || src == "any" {
				return gxRef
			}
		case "any":
			if src == "interface{}" || src == "any" {
				return gxAny
			}
		case "dslice":
			if src == "interface{}" || src == "any" {
				return gxDSlice
			}
		case "cols":
			if src == "[]interface{}" || src == "[]any" {
				return gxList(&gxT{k: "struct", sname: "Column", ptr: true})
			}
		}
		return gxBad
	}
	ptr := strings.HasPrefix(src, "*")
	base := strings.TrimPrefix(src, "*")
	for _, s := range gxStructs {
		if s == base {
			return &gxT{k: "struct", sname: s, ptr: ptr}
		}
	}
	return gxBad
}

func gxLoadStruct(p *pkgInfo, name, what string, st *ast.StructType) {
	s := &gxStruct{name: name, goName: what, ok: true}
	gxStructTab[name] = s
	for _, fl := range st.Fields.List {
		if len(fl.Names) == 0 {
			problem("internal/io/sql translation: %s has an embedded field", what)
			s.ok = false
		}
		for _, n := range fl.Names {
			t := gxResolve(p, fl.Type, name+"."+n.Name)
			if t.k == "bad" || t.k == "rows" || t.k == "buf" {
				problem("internal/io/sql translation: field %s.%s has a type that is not understood: %s", name, n.Name, ggSrc(p.fset, fl.Type))
				s.ok = false
				continue
			}
			if t.k == "struct" {
				in := gxStructTab[t.sname]
				if in == nil {
					problem("internal/io/sql translation: field %s.%s uses struct %s before it is declared", name, n.Name, t.sname)
					s.ok = false
					continue
				}
				if t.ptr {
					problem("internal/io/sql translation: field %s.%s is a pointer to a struct", name, n.Name)
					s.ok = false
				}
				if !in.ok {
					s.ok = false
				}
				if _, isAnon := fl.Type.(*ast.StructType); isAnon {
					s.nested = append(s.nested, t.sname)
				}
			}
			s.fields = append(s.fields, gxField{n.Name, t})
		}
	}
	gxStructOrder = append(gxStructOrder, name)
}

func gxLoadStructs(p *pkgInfo) {
	gxStructTab = map[string]*gxStruct{}
	gxStructOrder = nil
	decls := map[string]*ast.StructType{}
	for _, f := range p.files {
		for _, d := range f.Decls {
			gd, ok := d.(*ast.GenDecl)
			if !ok || gd.Tok != token.TYPE {
				continue
			}
			for _, s := range gd.Specs {
				ts := s.(*ast.TypeSpec)
				if st, ok := ts.Type.(*ast.StructType); ok {
					decls[ts.Name.Name] = st
				}
			}
		}
	}
	for _, name := range gxStructs {
		st, ok := decls[name]
		if !ok {
			problem("internal/io/sql translation: struct %s not found", name)
			gxStructTab[name] = &gxStruct{name: name}
			continue
		}
		gxLoadStruct(p, name, "struct "+name, st)
	}
}

func (s *gxStruct) field(name string) (*gxT, bool) {
	for _, f := range s.fields {
		if f.name == name {
			return f.t, true
		}
	}
	return nil, false
}

// record text of one struct
func (s *gxStruct) record() string {
	var b strings.Builder
	fmt.Fprintf(&b, "Record gx_%s := gx_mk_%s {\n", s.name, s.name)
	for i, f := range s.fields {
		sep := ";"
		if i == len(s.fields)-1 {
			sep = " }."
		}
		fmt.Fprintf(&b, "  gx_%s_%s : %s%s\n", s.name, f.name, f.t.coq(), sep)
	}
	for i, f := range s.fields {
		var args []string
		for j, g := range s.fields {
			if i == j {
				args = append(args, "v")
			} else {
				args = append(args, "(gx_"+s.name+"_"+g.name+" r)")
			}
		}
		fmt.Fprintf(&b, "Definition gx_%s_set_%s (r : gx_%s) (v : %s) : gx_%s :=\n  gx_mk_%s %s.\n", s.name, f.name, s.name, f.t.coq(), s.name, s.name, strings.Join(args, " "))
	}
	return b.String()
}

// the slices a Column.ptr can point to: (field of Column holding the nested struct, field of the nested struct, type)
type gxRefTarget struct {
	outer, inner string
	t            *gxT
}

func gxRefTargets() []gxRefTarget {
	var out []gxRefTarget
	s := gxStructTab["Column"]
	if s == nil {
		return nil
	}
	for _, f := range s.fields {
		if f.t.k != "struct" {
			continue
		}
		in := gxStructTab[f.t.sname]
		if in == nil {
			continue
		}
		for _, g := range in.fields {
			if g.t.k == "list" {
				out = append(out, gxRefTarget{f.name, g.name, g.t})
			}
		}
	}
	return out
}

// gx_ref, gx_DataSlice and gx_ref_elem, generated from the nested struct(s) of Column
func gxRefText() string {
	var b strings.Builder
	ts := gxRefTargets()
	b.WriteString("(* Column.ptr: nil or the address of one of the slices of the column's own data *)\nInductive gx_ref := gx_ref_nil")
	for _, t := range ts {
		fmt.Fprintf(&b, " | gx_ref_%s_%s", t.outer, t.inner)
	}
	b.WriteString(".\nDefinition gx_ref_isnil (r : gx_ref) : bool := match r with gx_ref_nil => true | _ => false end.\n")
	b.WriteString("(* types.DataSlice: the nil interface or one of these slices *)\nInductive gx_DataSlice := gx_DataSlice_nil")
	for _, t := range ts {
		fmt.Fprintf(&b, " | gx_DataSlice_%s (l : %s)", t.inner, t.t.coq())
	}
	b.WriteString(".\n")
	return b.String()
}

func gxRefElemText() string {
	var b strings.Builder
	ts := gxRefTargets()
	b.WriteString("(* reflect.ValueOf(c.ptr).Elem().Interface() *)\nDefinition gx_ref_elem (c : gx_Column) (r : gx_ref) : outcome gx_DataSlice :=\n  match r with\n  | gx_ref_nil => Panic\n")
	for _, t := range ts {
		in := gxStructTab["Column"]
		ft, _ := in.field(t.outer)
		fmt.Fprintf(&b, "  | gx_ref_%s_%s => Ok (gx_DataSlice_%s (gx_%s_%s (gx_Column_%s c)))\n", t.outer, t.inner, t.inner, ft.sname, t.inner, t.outer)
	}
	b.WriteString("  end.\n")
	return b.String()
}

// ------------------------------------------------------------------ translation context

type gxVar struct {
	name  string
	t     *gxT
	moved bool // a pointer that was appended to a slice: no longer usable
	local bool // a range variable: may not be assigned
}

type gxFunc struct {
	goName    string
	coq       string
	fd        *ast.FuncDecl
	body      *ast.BlockStmt
	maker     bool
	recv      string
	recvT     *gxT
	params    []gxVar
	results   []*gxT
	outs      []gxVar
	needsFuel bool
	done      bool
	ok        bool
	text      string
}

var gxFuncs map[string]*gxFunc

type gxCtx struct {
	vars       []gxVar
	brk        func() string
	cont       func() string
	loopLabel  string        // label of the innermost enclosing loop ("" = none)
	outerLabel string        // label of the loop around it
	jump       func() string // continue outerLabel
	retv       func(tuple string) string
}

type gxTr struct {
	p     *pkgInfo
	f     *gxFunc
	loops []string
	bad   bool
	ntmp  int
	nrec  int
}

func (t *gxTr) fail(n ast.Node, format string, a ...interface{}) {
	pos := ""
	if n != nil {
		pos = t.p.fset.Position(n.Pos()).String() + ": "
	}
	problem("internal/io/sql translation, function %s: %s%s", t.f.goName, pos, fmt.Sprintf(format, a...))
	t.bad = true
}

func (t *gxTr) src(n ast.Node) string { return ggSrc(t.p.fset, n) }

func (t *gxTr) tmp() string {
	t.ntmp++
	return fmt.Sprintf("t%d", t.ntmp)
}

func (c gxCtx) lookup(name string) (gxVar, bool) {
	for i := len(c.vars) - 1; i >= 0; i-- {
		if c.vars[i].name == name {
			return c.vars[i], true
		}
	}
	return gxVar{}, false
}

func gxRootOf(e ast.Expr) string {
	switch x := e.(type) {
	case *ast.Ident:
		return x.Name
	case *ast.SelectorExpr:
		return gxRootOf(x.X)
	case *ast.IndexExpr:
		return gxRootOf(x.X)
	case *ast.ParenExpr:
		return gxRootOf(x.X)
	case *ast.StarExpr:
		return gxRootOf(x.X)
	case *ast.TypeAssertExpr:
		return gxRootOf(x.X)
	case *ast.UnaryExpr:
		if x.Op == token.AND {
			return gxRootOf(x.X)
		}
	}
	return ""
}

// ------------------------------------------------------------------ expressions

func gxRatText(v *big.Rat) string {
	if v.Sign() < 0 {
		return "(" + v.Num().String() + ")"
	}
	return v.Num().String()
}

// coerce an untyped constant / nil / string literal to the wanted type
func (t *gxTr) coerce(n ast.Node, text string, ty *gxT, want *gxT) (string, *gxT) {
	switch ty.k {
	case "nil":
		switch want.k {
		case "err", "ref", "dslice", "optstr", "cfn", "clo", "map", "list", "any":
			z, _ := want.zero()
			return z, want
		}
		t.fail(n, "nil in a context of type %s", want.name())
		return text, want
	case "const":
		if !ty.val.IsInt() {
			t.fail(n, "constant %s is not an integer", ty.val.String())
			return "0", want
		}
		if want.isNum() {
			return gxRatText(ty.val), want
		}
		t.fail(n, "constant %s in a context of type %s", ty.val.String(), want.name())
		return "0", want
	}
	return text, ty
}

func (t *gxTr) selConst(e ast.Expr, c gxCtx) (string, *gxT, bool) {
	sn := ggSelName(e)
	if sn == "" {
		return "", nil, false
	}
	pk := strings.SplitN(sn, ".", 2)[0]
	if _, shadowed := c.lookup(pk); shadowed {
		return "", nil, false
	}
	switch sn {
	case "reflect.Invalid":
		return "gx_Invalid", gxKind, true
	case "reflect.Bool":
		return "gx_Bool", gxKind, true
	case "reflect.Int":
		return "gx_Int", gxKind, true
	case "reflect.Float64":
		return "gx_Float64", gxKind, true
	case "reflect.String":
		return "gx_String", gxKind, true
	}
	return "", nil, false
}

// is e the chain reflect.ValueOf(X).Elem().Interface() ?
func gxElemChain(e ast.Expr) (ast.Expr, bool) {
	c1, ok := e.(*ast.CallExpr)
	if !ok || len(c1.Args) != 0 {
		return nil, false
	}
	s1, ok := c1.Fun.(*ast.SelectorExpr)
	if !ok || s1.Sel.Name != "Interface" {
		return nil, false
	}
	c2, ok := s1.X.(*ast.CallExpr)
	if !ok || len(c2.Args) != 0 {
		return nil, false
	}
	s2, ok := c2.Fun.(*ast.SelectorExpr)
	if !ok || s2.Sel.Name != "Elem" {
		return nil, false
	}
	c3, ok := s2.X.(*ast.CallExpr)
	if !ok || len(c3.Args) != 1 || ggSelName(c3.Fun) != "reflect.ValueOf" {
		return nil, false
	}
	return c3.Args[0], true
}

// the arguments of qerrors.New only build a message
func (t *gxTr) messageArg(e ast.Expr, c gxCtx) bool {
	switch x := e.(type) {
	case *ast.BasicLit:
		return true
	case *ast.Ident:
		_, ok := c.lookup(x.Name)
		return ok
	case *ast.SelectorExpr:
		var pre []string
		_, ty := t.expr(e, c, &pre)
		return len(pre) == 0 && ty.k != "bad"
	case *ast.CallExpr:
		if se, ok := x.Fun.(*ast.SelectorExpr); ok && len(x.Args) == 0 {
			if se.Sel.Name == "Error" {
				if id, ok := se.X.(*ast.Ident); ok {
					if v, ok := c.lookup(id.Name); ok && v.t.k == "err" {
						return true
					}
				}
			}
			if se.Sel.Name == "Kind" {
				if in, ok := se.X.(*ast.CallExpr); ok && len(in.Args) == 1 {
					fn := ggSelName(in.Fun)
					if fn == "reflect.ValueOf" || fn == "reflect.TypeOf" {
						if id, ok := in.Args[0].(*ast.Ident); ok {
							_, ok := c.lookup(id.Name)
							return ok
						}
					}
				}
			}
		}
	}
	return false
}

// expr translates an expression; operations that can panic are bound in *pre.
func (t *gxTr) expr(e ast.Expr, c gxCtx, pre *[]string) (string, *gxT) {
	switch x := e.(type) {
	case *ast.ParenExpr:
		return t.expr(x.X, c, pre)
	case *ast.BasicLit:
		switch x.Kind {
		case token.INT, token.CHAR:
			if v, ok := evalConst(t.p, x); ok {
				return "", &gxT{k: "const", val: v}
			}
		case token.STRING:
			if s, err := strconv.Unquote(x.Value); err == nil {
				return coqBytes(s), gxStr
			}
		}
	case *ast.Ident:
		if v, ok := c.lookup(x.Name); ok {
			if v.moved {
				t.fail(e, "%s is used after it was appended to a slice (the pointer is shared from there on)", x.Name)
			}
			return "v_" + v.name, v.t
		}
		switch x.Name {
		case "true", "false":
			return x.Name, gxBool
		case "nil":
			return "", gxNil
		}
		if ce, ok := t.p.consts[x.Name]; ok {
			if v, ok := evalConst(t.p, ce); ok {
				return "", &gxT{k: "const", val: v}
			}
		}
		t.fail(e, "unknown identifier %s", x.Name)
		return "0", gxBad
	case *ast.SelectorExpr:
		if txt, ty, ok := t.selConst(e, c); ok {
			return txt, ty
		}
		a, ta := t.expr(x.X, c, pre)
		if ta.k == "struct" {
			s := gxStructTab[ta.sname]
			if ft, ok := s.field(x.Sel.Name); ok {
				return "(gx_" + s.name + "_" + x.Sel.Name + " " + a + ")", ft
			}
			t.fail(e, "%s has no field %s", s.name, x.Sel.Name)
			return "0", gxBad
		}
	case *ast.TypeAssertExpr:
		if x.Type != nil {
			a, ta := t.expr(x.X, c, pre)
			if ta.k == "struct" && ta.ptr && t.src(x.Type) == "*"+ta.sname {
				return a, ta
			}
		}
	case *ast.IndexExpr:
		a, ta := t.expr(x.X, c, pre)
		i, ti := t.expr(x.Index, c, pre)
		if ta.k == "list" {
			i, ti = t.coerce(x.Index, i, ti, gxInt)
			if ti.k != "int" {
				t.fail(e, "index of type %s", ti.name())
				return "0", gxBad
			}
			tmp := t.tmp()
			*pre = append(*pre, "do "+tmp+" <- gx_list_index "+a+" "+i+";\n")
			return tmp, ta.elem
		}
		t.fail(e, "indexing a %s here", ta.name())
		return "0", gxBad
	case *ast.UnaryExpr:
		switch x.Op {
		case token.NOT:
			a, ta := t.expr(x.X, c, pre)
			if ta.k == "bool" {
				return "(negb " + a + ")", gxBool
			}
		case token.AND:
			if cl, ok := x.X.(*ast.CompositeLit); ok {
				a, ta := t.composite(cl, c, pre)
				return a, &gxT{k: ta.k, sname: ta.sname, ptr: true}
			}
			a, ta := t.expr(x.X, c, pre)
			if ta.k == "str" {
				if _, isVar := x.X.(*ast.Ident); isVar {
					return "(Some " + a + ")", gxOptStr
				}
			}
			// &c.F.G : a reference into the column's own data (the caller checks where it is stored)
			if s2, ok := x.X.(*ast.SelectorExpr); ok {
				if s1, ok := s2.X.(*ast.SelectorExpr); ok {
					if id, ok := s1.X.(*ast.Ident); ok {
						if v, ok := c.lookup(id.Name); ok && v.t.k == "struct" && v.t.sname == "Column" {
							for _, rt := range gxRefTargets() {
								if rt.outer == s1.Sel.Name && rt.inner == s2.Sel.Name {
									return "gx_ref_" + rt.outer + "_" + rt.inner, &gxT{k: "ref", sname: "", sval: id.Name}
								}
							}
						}
					}
				}
			}
		}
	case *ast.BinaryExpr:
		return t.binary(x, c, pre)
	case *ast.CompositeLit:
		return t.composite(x, c, pre)
	case *ast.CallExpr:
		return t.call(x, c, pre)
	}
	t.fail(e, "expression not understood: %s", t.src(e))
	return "0", gxBad
}

func (t *gxTr) composite(cl *ast.CompositeLit, c gxCtx, pre *[]string) (string, *gxT) {
	if _, isMap := cl.Type.(*ast.MapType); isMap {
		mt := gxResolve(t.p, cl.Type, "")
		if mt.k == "map" && len(cl.Elts) == 0 {
			return "(Some (@nil (bytes * " + mt.elem.coq() + ")))", mt
		}
		t.fail(cl, "only an empty map literal is understood")
		return "None", gxBad
	}
	id, ok := cl.Type.(*ast.Ident)
	if !ok || gxStructTab[id.Name] == nil || !gxStructTab[id.Name].ok {
		t.fail(cl, "composite literal of a type that is not understood: %s", t.src(cl.Type))
		return "0", gxBad
	}
	s := gxStructTab[id.Name]
	vals := map[string]string{}
	for _, el := range cl.Elts {
		kv, ok := el.(*ast.KeyValueExpr)
		if !ok {
			t.fail(el, "%s literal without field names", s.name)
			continue
		}
		name := kv.Key.(*ast.Ident).Name
		ft, ok := s.field(name)
		if !ok {
			t.fail(el, "%s has no field %s", s.name, name)
			continue
		}
		a, ta := t.expr(kv.Value, c, pre)
		a, ta = t.coerce(kv.Value, a, ta, ft)
		if !ta.same(ft) {
			t.fail(el, "field %s.%s (a %s) initialised with a %s", s.name, name, ft.name(), ta.name())
		}
		vals[name] = a
	}
	var args []string
	for _, f := range s.fields {
		if v, ok := vals[f.name]; ok {
			args = append(args, v)
			continue
		}
		z, ok := f.t.zero()
		if !ok {
			t.fail(cl, "field %s.%s is left at its zero value, which has no translation", s.name, f.name)
		}
		args = append(args, z)
	}
	return "(gx_mk_" + s.name + " " + strings.Join(args, " ") + ")", &gxT{k: "struct", sname: s.name}
}

func (t *gxTr) binary(x *ast.BinaryExpr, c gxCtx, pre *[]string) (string, *gxT) {
	if x.Op == token.LAND || x.Op == token.LOR {
		a, ta := t.expr(x.X, c, pre)
		var preB []string
		b, tb := t.expr(x.Y, c, &preB)
		if ta.k != "bool" || tb.k != "bool" || len(preB) != 0 {
			t.fail(x, "%s on operands that are not conditions (or whose right operand can panic)", x.Op)
			return "false", gxBool
		}
		if x.Op == token.LAND {
			return "(if " + a + " then " + b + " else false)", gxBool
		}
		return "(if " + a + " then true else " + b + ")", gxBool
	}
	a, ta := t.expr(x.X, c, pre)
	b, tb := t.expr(x.Y, c, pre)
	if ta.k == "const" && tb.k == "const" {
		var v *big.Rat
		switch x.Op {
		case token.ADD:
			v = new(big.Rat).Add(ta.val, tb.val)
		case token.SUB:
			v = new(big.Rat).Sub(ta.val, tb.val)
		case token.MUL:
			v = new(big.Rat).Mul(ta.val, tb.val)
		}
		if v != nil {
			return "", &gxT{k: "const", val: v}
		}
		t.fail(x, "constant expression not understood: %s", t.src(x))
		return "0", gxBad
	}
	if ta.k == "const" || ta.k == "nil" {
		a, ta = t.coerce(x.X, a, ta, tb)
	} else if tb.k == "const" || tb.k == "nil" {
		b, tb = t.coerce(x.Y, b, tb, ta)
	}
	neg := func(s string) string {
		if x.Op == token.NEQ {
			return "(negb " + s + ")"
		}
		return s
	}
	isEq := x.Op == token.EQL || x.Op == token.NEQ
	_, nilY := x.Y.(*ast.Ident)
	nilY = nilY && t.src(x.Y) == "nil"
	if isEq && nilY && ta.same(tb) {
		switch ta.k {
		case "err":
			return neg("(gx_error_isnil " + a + ")"), gxBool
		case "ref":
			return neg("(gx_ref_isnil " + a + ")"), gxBool
		case "any":
			return neg("(gx_any_isnil " + a + ")"), gxBool
		case "list":
			return neg("(gx_isnil " + a + ")"), gxBool
		case "cfn", "clo", "map", "optstr":
			return neg("(gx_opt_isnil " + a + ")"), gxBool
		}
	}
	if ta.isNum() && ta.same(tb) {
		switch x.Op {
		case token.ADD:
			if ta.k == "int" {
				return "(" + a + " + " + b + ")", ta
			}
		case token.SUB:
			if ta.k == "int" {
				return "(" + a + " - " + b + ")", ta
			}
		case token.LSS:
			return "(" + a + " <? " + b + ")", gxBool
		case token.LEQ:
			return "(" + a + " <=? " + b + ")", gxBool
		case token.GTR:
			return "(" + b + " <? " + a + ")", gxBool
		case token.GEQ:
			return "(" + b + " <=? " + a + ")", gxBool
		case token.EQL, token.NEQ:
			return neg("(" + a + " =? " + b + ")"), gxBool
		}
	}
	if isEq && ta.same(tb) {
		switch ta.k {
		case "str":
			return neg("(bytes_eqb " + a + " " + b + ")"), gxBool
		case "kind":
			return neg("(gx_Kind_eqb " + a + " " + b + ")"), gxBool
		case "bool":
			return neg("(Bool.eqb " + a + " " + b + ")"), gxBool
		}
	}
	if x.Op == token.ADD && ta.k == "str" && tb.k == "str" {
		return "(" + a + " ++ " + b + ")", gxStr
	}
	t.fail(x, "operator %s on %s and %s is not understood", x.Op, ta.name(), tb.name())
	return "0", gxBad
}

// fmt.Sprintf(format, ints...) with %d verbs only
func (t *gxTr) sprintf(x *ast.CallExpr, c gxCtx, pre *[]string) (string, *gxT) {
	if len(x.Args) < 1 {
		t.fail(x, "fmt.Sprintf without format")
		return "[]", gxStr
	}
	lit, ok := x.Args[0].(*ast.BasicLit)
	if !ok || lit.Kind != token.STRING {
		t.fail(x, "fmt.Sprintf with a format that is not a literal")
		return "[]", gxStr
	}
	f, err := strconv.Unquote(lit.Value)
	if err != nil {
		t.fail(x, "format literal not understood")
		return "[]", gxStr
	}
	var parts []string
	arg := 1
	cur := ""
	for i := 0; i < len(f); i++ {
		if f[i] != '%' {
			cur += string(f[i])
			continue
		}
		if i+1 < len(f) && f[i+1] == '%' {
			cur += "%"
			i++
			continue
		}
		if i+1 < len(f) && f[i+1] == 'd' && arg < len(x.Args) {
			a, ta := t.expr(x.Args[arg], c, pre)
			a, ta = t.coerce(x.Args[arg], a, ta, gxInt)
			if !ta.isNum() {
				t.fail(x.Args[arg], "%%d applied to a %s", ta.name())
			}
			if cur != "" {
				parts = append(parts, coqBytes(cur))
				cur = ""
			}
			parts = append(parts, "gx_itoa "+a)
			arg++
			i++
			continue
		}
		t.fail(x, "format verb not understood in %s", lit.Value)
		return "[]", gxStr
	}
	if cur != "" {
		parts = append(parts, coqBytes(cur))
	}
	if arg != len(x.Args) {
		t.fail(x, "fmt.Sprintf: %d arguments for %d verbs", len(x.Args)-1, arg-1)
	}
	if len(parts) == 0 {
		return "(@nil N)", gxStr
	}
	return "(" + strings.Join(parts, " ++ ") + ")", gxStr
}

// call: calls that are plain expressions; calls that change state are statements (callStmt)
func (t *gxTr) call(x *ast.CallExpr, c gxCtx, pre *[]string) (string, *gxT) {
	if arg, ok := gxElemChain(x); ok {
		a, ta := t.expr(arg, c, pre)
		if ta.k == "ref" {
			// the ref is a field of a column: the slice is read in that column
			if se, ok := arg.(*ast.SelectorExpr); ok {
				o, to := t.expr(se.X, c, pre)
				if to.k == "struct" && to.sname == "Column" {
					tmp := t.tmp()
					*pre = append(*pre, "do "+tmp+" <- gx_ref_elem "+o+" "+a+";\n")
					return tmp, gxDSlice
				}
			}
		}
		t.fail(x, "reflect.ValueOf(..).Elem().Interface() on something that is not the ptr field of a column")
		return "gx_DataSlice_nil", gxDSlice
	}
	if id, ok := x.Fun.(*ast.Ident); ok {
		if v, isVar := c.lookup(id.Name); isVar {
			if v.t.k == "cfn" && len(x.Args) == 1 {
				// fn(col): the caller checks that it is stored into col.coerce
				if aid, ok := x.Args[0].(*ast.Ident); ok {
					if av, ok := c.lookup(aid.Name); ok && av.t.k == "struct" && av.t.sname == "Column" && av.t.ptr {
						tmp := t.tmp()
						*pre = append(*pre, "do "+tmp+" <- gx_make_closure v_"+v.name+";\n")
						return tmp, &gxT{k: "clo", sval: aid.Name}
					}
				}
			}
			t.fail(x, "call of the variable %s is not understood", id.Name)
			return "0", gxBad
		}
		switch id.Name {
		case "len":
			if len(x.Args) == 1 {
				a, ta := t.expr(x.Args[0], c, pre)
				if ta.k == "list" || ta.k == "str" {
					return "(Z.of_nat (length " + a + "))", gxInt
				}
			}
		case "append":
			if len(x.Args) == 2 && x.Ellipsis == token.NoPos {
				a, ta := t.expr(x.Args[0], c, pre)
				b, tb := t.expr(x.Args[1], c, pre)
				if ta.k == "list" {
					b, tb = t.coerce(x.Args[1], b, tb, ta.elem)
					if tb.same(ta.elem) {
						return "(" + a + " ++ [" + b + "])", ta
					}
				}
			}
		case "int", "int64":
			if len(x.Args) == 1 {
				a, ta := t.expr(x.Args[0], c, pre)
				want := gxInt
				if id.Name == "int64" {
					want = gxI64
				}
				a, ta = t.coerce(x.Args[0], a, ta, want)
				if ta.k == "int" || ta.k == "i64" {
					return a, want
				}
			}
		case "string":
			if len(x.Args) == 1 {
				a, ta := t.expr(x.Args[0], c, pre)
				if ta.k == "str" {
					return a, gxStr
				}
			}
		}
	}
	switch ggSelName(x.Fun) {
	case "math.NaN":
		if _, sh := c.lookup("math"); !sh && len(x.Args) == 0 {
			return "gx_NaN", gxFloat
		}
	case "float.Fixed":
		if _, sh := c.lookup("float"); !sh && len(x.Args) == 2 {
			a, ta := t.expr(x.Args[0], c, pre)
			b, tb := t.expr(x.Args[1], c, pre)
			b, tb = t.coerce(x.Args[1], b, tb, gxInt)
			if ta.k == "float" && tb.k == "int" {
				return "(fixed " + a + " " + b + ")", gxFloat
			}
		}
	case "fmt.Sprintf":
		if _, sh := c.lookup("fmt"); !sh {
			return t.sprintf(x, c, pre)
		}
	case "qerrors.New":
		if _, sh := c.lookup("qerrors"); !sh {
			for _, a := range x.Args {
				if !t.messageArg(a, c) {
					t.fail(a, "argument of qerrors.New of a shape that is not understood: %s", t.src(a))
				}
			}
			return "gx_err", gxErr
		}
	case "bytes.NewBuffer":
		if _, sh := c.lookup("bytes"); !sh && len(x.Args) == 1 && t.src(x.Args[0]) == "nil" {
			return "(@nil N)", gxBuf
		}
	}
	if se, ok := x.Fun.(*ast.SelectorExpr); ok && se.Sel.Name == "String" && len(x.Args) == 0 {
		var p2 []string
		a, ta := t.expr(se.X, c, &p2)
		if ta.k == "buf" && len(p2) == 0 {
			return a, gxStr
		}
	}
	t.fail(x, "call not understood (a call that changes state may only stand as a statement, a whole right-hand side, a whole condition or the only returned value): %s", t.src(x))
	return "0", gxBad
}

// ------------------------------------------------------------------ statements

func gxTupleOrUnit(parts []string) string {
	if len(parts) == 0 {
		return "tt"
	}
	return ggTuple(parts)
}

func gxTypeTupleOrUnit(parts []string) string {
	if len(parts) == 0 {
		return "unit"
	}
	return ggTypeTuple(parts)
}

func gxVarNames(vs []gxVar) []string {
	var out []string
	for _, v := range vs {
		out = append(out, "v_"+v.name)
	}
	return out
}

func gxVarTypes(vs []gxVar) []string {
	var out []string
	for _, v := range vs {
		out = append(out, v.t.coq())
	}
	return out
}

func (t *gxTr) noAlias(n ast.Node, ty *gxT) {
	if ty.sval != "" && (ty.k == "ref" || ty.k == "clo") {
		t.fail(n, "a reference into / a closure over the column %s may only be stored into that column's own field", ty.sval)
	}
}

func (t *gxTr) declare(n ast.Node, c *gxCtx, name string, ty *gxT) {
	if _, dup := c.lookup(name); dup {
		t.fail(n, "%s shadows / redeclares a variable", name)
	}
	if _, isFn := gxFuncs[name]; isFn {
		t.fail(n, "%s shadows a function", name)
	}
	switch name {
	case "reflect", "math", "float", "fmt", "qerrors", "bytes", "strconv", "len", "append", "int", "int64", "string", "nil", "true", "false":
		t.fail(n, "%s shadows a name of the vocabulary", name)
	}
	t.noAlias(n, ty)
	if ty.k == "const" || ty.k == "nil" || ty.k == "bad" {
		t.fail(n, "variable %s of a type that is not understood", name)
		ty = gxInt
	}
	cp := *ty
	vars := append([]gxVar{}, c.vars...)
	c.vars = append(vars, gxVar{name: name, t: &cp})
}

// store: the statement(s) that give the place lhs the value val.
func (t *gxTr) store(lhs ast.Expr, val string, tv *gxT, c *gxCtx, pre *[]string) string {
	switch x := lhs.(type) {
	case *ast.ParenExpr:
		return t.store(x.X, val, tv, c, pre)
	case *ast.StarExpr:
		return t.store(x.X, val, tv, c, pre)
	case *ast.Ident:
		if x.Name == "_" {
			return ""
		}
		v, ok := c.lookup(x.Name)
		if !ok {
			t.fail(lhs, "unknown variable %s", x.Name)
			return ""
		}
		if v.local {
			t.fail(lhs, "assignment to the range variable %s", x.Name)
		}
		if v.moved {
			t.fail(lhs, "%s is changed after it was appended to a slice", x.Name)
		}
		if !tv.same(v.t) {
			t.fail(lhs, "assignment to %s: a %s where a %s is expected", x.Name, tv.name(), v.t.name())
		}
		t.noAlias(lhs, tv)
		return "let v_" + x.Name + " := " + val + " in\n"
	case *ast.SelectorExpr:
		a, ta := t.expr(x.X, *c, pre)
		if ta.k != "struct" {
			t.fail(lhs, "assignment to a field of a %s", ta.name())
			return ""
		}
		s := gxStructTab[ta.sname]
		ft, ok := s.field(x.Sel.Name)
		if !ok {
			t.fail(lhs, "%s has no field %s", s.name, x.Sel.Name)
			return ""
		}
		if !tv.same(ft) {
			t.fail(lhs, "assignment to .%s: a %s where a %s is expected", x.Sel.Name, tv.name(), ft.name())
		}
		if tv.sval != "" && (tv.k == "ref" || tv.k == "clo") {
			if id, isId := x.X.(*ast.Ident); !isId || id.Name != tv.sval {
				t.fail(lhs, "a reference into / a closure over the column %s is stored outside that column", tv.sval)
			}
		}
		plain := *ta
		return t.store(x.X, "(gx_"+s.name+"_set_"+x.Sel.Name+" "+a+" "+val+")", &plain, c, pre)
	case *ast.IndexExpr:
		a, ta := t.expr(x.X, *c, pre)
		k, tk := t.expr(x.Index, *c, pre)
		if ta.k != "map" || tk.k != "str" || !tv.same(ta.elem) {
			t.fail(lhs, "index assignment not understood")
			return ""
		}
		t.noAlias(lhs, tv)
		tmp := t.tmp()
		return "do " + tmp + " <- gx_map_set " + a + " " + k + " " + val + ";\n" + t.store(x.X, tmp, ta, c, pre)
	}
	t.fail(lhs, "assignment to %s", t.src(lhs))
	return ""
}

// callStmt: a call that changes state (a translated function, a closure, a method of rows / a buffer,
// strconv.ParseFloat) with the stores of its outs.  Answers the text (ending in a newline), the temporaries
// holding the Go results and their types.
func (t *gxTr) callStmt(ce *ast.CallExpr, c *gxCtx) (string, []string, []*gxT, bool) {
	var pre []string
	type back struct {
		lval ast.Expr
		ty   *gxT
		tmp  string
	}
	var backs []back
	var head string
	var resT []*gxT
	monadic := true
	fuelArg := func(g *gxFunc) string {
		if g.needsFuel {
			return " fuel'"
		}
		return ""
	}
	args := func(g *gxFunc, parts []string) []string {
		if len(ce.Args) != len(g.params) {
			t.fail(ce, "%s takes %d arguments", g.goName, len(g.params))
			return parts
		}
		for i, a := range ce.Args {
			want := g.params[i].t
			isOut := false
			for _, o := range g.outs {
				if o.name == g.params[i].name {
					isOut = true
				}
			}
			lv := a
			if u, ok := a.(*ast.UnaryExpr); ok && u.Op == token.AND && want.k == "struct" {
				lv = u.X
			}
			txt, ty := t.expr(lv, *c, &pre)
			txt, ty = t.coerce(a, txt, ty, want)
			if !ty.same(want) {
				t.fail(a, "argument of type %s where %s expects %s", ty.name(), g.goName, want.name())
			}
			t.noAlias(a, ty)
			parts = append(parts, txt)
			if isOut {
				if gxRootOf(lv) == "" {
					t.fail(a, "a pointer argument that is not a place")
				}
				backs = append(backs, back{lval: lv, ty: want})
			}
		}
		return parts
	}
	switch fn := ce.Fun.(type) {
	case *ast.Ident:
		if _, shadowed := c.lookup(fn.Name); shadowed {
			return "", nil, nil, false
		}
		g, ok := gxFuncs[fn.Name]
		if !ok || g.recv != "" || g.maker {
			return "", nil, nil, false
		}
		if g == t.f {
			t.fail(ce, "recursion")
		} else if !g.done {
			t.fail(ce, "%s is called before it is translated (order of gxSpecs)", g.goName)
		}
		head = strings.Join(args(g, []string{g.coq + fuelArg(g)}), " ")
		resT = g.results
	case *ast.SelectorExpr:
		if ggSelName(fn) == "strconv.ParseFloat" {
			if _, sh := c.lookup("strconv"); sh {
				return "", nil, nil, false
			}
			if len(ce.Args) != 2 || t.src(ce.Args[1]) != "64" {
				t.fail(ce, "strconv.ParseFloat(s, 64) is expected")
				return "Panic\n", nil, nil, true
			}
			a, ta := t.expr(ce.Args[0], *c, &pre)
			if ta.k != "str" {
				t.fail(ce, "strconv.ParseFloat of a %s", ta.name())
			}
			head, resT, monadic = "gx_ParseFloat "+a, []*gxT{gxFloat, gxErr}, false
			break
		}
		r := gxRootOf(fn.X)
		if r == "" {
			return "", nil, nil, false
		}
		if _, known := c.lookup(r); !known {
			return "", nil, nil, false
		}
		var p0 []string
		_, tr := t.expr(fn.X, *c, &p0)
		switch tr.k {
		case "rows":
			rx, _ := t.expr(fn.X, *c, &pre)
			switch {
			case fn.Sel.Name == "Next" && len(ce.Args) == 0:
				head, resT, monadic = "rows_next "+rx, []*gxT{gxBool}, false
				backs = append(backs, back{lval: fn.X, ty: gxRows})
			case fn.Sel.Name == "Columns" && len(ce.Args) == 0:
				head, resT, monadic = "rows_columns "+rx, []*gxT{gxList(gxStr), gxErr}, false
			case fn.Sel.Name == "Err" && len(ce.Args) == 0:
				head, resT, monadic = "rows_err "+rx, []*gxT{gxErr}, false
			case fn.Sel.Name == "Scan" && len(ce.Args) == 1 && ce.Ellipsis != token.NoPos:
				a, ta := t.expr(ce.Args[0], *c, &pre)
				if ta.k != "list" || ta.elem.k != "struct" || ta.elem.sname != "Column" || !ta.elem.ptr {
					t.fail(ce, "rows.Scan on destinations that are not columns")
				}
				g := gxFuncs["Column.Scan"]
				if g == nil || !g.done {
					t.fail(ce, "rows.Scan before Column.Scan is translated")
					return "Panic\n", nil, nil, true
				}
				head, resT = "gx_Rows_Scan"+fuelArg(g)+" "+rx+" "+a, []*gxT{gxErr}
				backs = append(backs, back{lval: ce.Args[0], ty: ta})
			default:
				t.fail(ce, "method %s of *sql.Rows is not understood", fn.Sel.Name)
				return "Panic\n", nil, nil, true
			}
		case "buf":
			bx, _ := t.expr(fn.X, *c, &pre)
			if len(ce.Args) != 1 {
				return "", nil, nil, false
			}
			a, ta := t.expr(ce.Args[0], *c, &pre)
			switch {
			case fn.Sel.Name == "WriteString" && ta.k == "str":
				var p2 []string
				return strings.Join(pre, "") + t.store(fn.X, "("+bx+" ++ "+a+")", gxBuf, c, &p2), nil, nil, true
			case fn.Sel.Name == "WriteRune" && ta.k == "rune":
				var p2 []string
				return strings.Join(pre, "") + t.store(fn.X, "("+bx+" ++ utf8_encode "+a+")", gxBuf, c, &p2), nil, nil, true
			}
			t.fail(ce, "method %s of *bytes.Buffer is not understood here", fn.Sel.Name)
			return "Panic\n", nil, nil, true
		case "struct":
			g, ok := gxFuncs[tr.sname+"."+fn.Sel.Name]
			if !ok {
				// X.coerce(t): the closure stored in the column X, which captured X itself
				ft, isField := gxStructTab[tr.sname].field(fn.Sel.Name)
				if !isField || ft.k != "clo" {
					return "", nil, nil, false
				}
				if tr.sname != "Column" || !tr.ptr || len(ce.Args) != 1 {
					t.fail(ce, "call of a closure that is not the coerce field of a column")
					return "Panic\n", nil, nil, true
				}
				ox, _ := t.expr(fn.X, *c, &pre)
				a, ta := t.expr(ce.Args[0], *c, &pre)
				if ta.k != "any" {
					t.fail(ce, "closure called with a %s", ta.name())
				}
				cl, _ := t.expr(fn, *c, &pre)
				fa := ""
				if gxApplyFuel {
					fa = " fuel'"
				}
				head = "match " + cl + " with Some f => gx_apply_CoerceFunc" + fa + " f " + ox + " " + a + " | None => Panic end"
				resT = []*gxT{gxErr}
				backs = append(backs, back{lval: fn.X, ty: tr})
				break
			}
			if g == t.f {
				t.fail(ce, "recursion")
			} else if !g.done {
				t.fail(ce, "%s is called before it is translated (order of gxSpecs)", g.goName)
			}
			rx, _ := t.expr(fn.X, *c, &pre)
			parts := args(g, []string{g.coq + fuelArg(g), rx})
			for _, o := range g.outs {
				if o.name == g.recv {
					backs = append(backs, back{lval: fn.X, ty: g.recvT})
				}
			}
			head = strings.Join(parts, " ")
			resT = g.results
		default:
			return "", nil, nil, false
		}
	default:
		return "", nil, nil, false
	}
	var pat, res []string
	for range resT {
		tmp := t.tmp()
		pat = append(pat, tmp)
		res = append(res, tmp)
	}
	for i := range backs {
		backs[i].tmp = t.tmp()
		pat = append(pat, backs[i].tmp)
	}
	text := strings.Join(pre, "")
	if monadic {
		text += "do " + gxTupleOrUnit(pat) + " <- " + head + ";\n"
	} else if len(pat) == 1 {
		text += "let " + pat[0] + " := " + head + " in\n"
	} else {
		text += "let '" + gxTupleOrUnit(pat) + " := " + head + " in\n"
	}
	for i := len(backs) - 1; i >= 0; i-- {
		bk := backs[i]
		var p2 []string
		text += t.store(bk.lval, bk.tmp, bk.ty, c, &p2)
		if len(p2) != 0 {
			t.fail(ce, "storing back the result of the call needs an operation that can panic")
		}
	}
	return text, res, resT, true
}

var gxApplyFuel bool

// simple: a statement without control flow, as a prefix "let .. in\n" / "do .. <- ..;\n"
func (t *gxTr) simple(st ast.Stmt, c *gxCtx) (string, bool) {
	var pre []string
	wrap := func(s string) string { return strings.Join(pre, "") + s }
	switch x := st.(type) {
	case *ast.DeclStmt:
		gd, ok := x.Decl.(*ast.GenDecl)
		if !ok || gd.Tok != token.VAR {
			return "", false
		}
		text := ""
		for _, sp := range gd.Specs {
			vs := sp.(*ast.ValueSpec)
			if vs.Type == nil || len(vs.Values) != 0 {
				t.fail(st, "only `var x T` is understood")
				return "", true
			}
			for _, n := range vs.Names {
				ty := gxResolve(t.p, vs.Type, t.f.goName+"."+n.Name)
				z, ok := ty.zero()
				if ty.k == "bad" || !ok {
					t.fail(st, "variable %s has a type that is not understood: %s", n.Name, t.src(vs.Type))
					return "", true
				}
				t.declare(st, c, n.Name, ty)
				text += "let v_" + n.Name + " := " + z + " in\n"
			}
		}
		return text, true
	case *ast.IncDecStmt:
		a, ta := t.expr(x.X, *c, &pre)
		if ta.k != "int" {
			t.fail(st, "%s on a %s", x.Tok, ta.name())
			return "", true
		}
		op := " + 1"
		if x.Tok == token.DEC {
			op = " - 1"
		}
		return wrap(t.store(x.X, "("+a+op+")", ta, c, &pre)), true
	case *ast.ExprStmt:
		ce, ok := x.X.(*ast.CallExpr)
		if !ok {
			return "", false
		}
		if text, _, _, ok := t.callStmt(ce, c); ok {
			return text, true
		}
		t.fail(st, "statement not understood: %s", t.src(st))
		return "", true
	case *ast.AssignStmt:
		if x.Tok != token.DEFINE && x.Tok != token.ASSIGN {
			t.fail(st, "assignment operator %s", x.Tok)
			return "", true
		}
		bind := func(text string, res []string, resT []*gxT) (string, bool) {
			if len(res) != len(x.Lhs) {
				t.fail(st, "%d values assigned to %d places", len(res), len(x.Lhs))
				return "", true
			}
			for i, l := range x.Lhs {
				if x.Tok == token.DEFINE {
					id, ok := l.(*ast.Ident)
					if !ok {
						t.fail(st, ":= on something that is not a variable")
						return "", true
					}
					if id.Name == "_" {
						continue
					}
					t.declare(st, c, id.Name, resT[i])
					text += "let v_" + id.Name + " := " + res[i] + " in\n"
				} else {
					var p2 []string
					stx := t.store(l, res[i], resT[i], c, &p2)
					text += strings.Join(p2, "") + stx
				}
			}
			return text, true
		}
		if len(x.Rhs) == 1 {
			if ce, ok := x.Rhs[0].(*ast.CallExpr); ok {
				if text, res, resT, ok := t.callStmt(ce, c); ok {
					return bind(text, res, resT)
				}
			}
			if len(x.Lhs) == 2 {
				switch r := x.Rhs[0].(type) {
				case *ast.TypeAssertExpr: // v, ok := t.(T)
					a, ta := t.expr(r.X, *c, &pre)
					if ta.k == "any" && r.Type != nil {
						fn, ty := "", gxBad
						switch t.src(r.Type) {
						case "int64":
							fn, ty = "gx_assert_int64", gxI64
						case "float64":
							fn, ty = "gx_assert_float64", gxFloat
						case "bool":
							fn, ty = "gx_assert_bool", gxBool
						case "string":
							fn, ty = "gx_assert_string", gxStr
						case "[]byte", "[]uint8":
							fn, ty = "gx_assert_bytes", gxStr
						}
						if fn != "" {
							t1, t2 := t.tmp(), t.tmp()
							return bind(wrap("let '("+t1+", "+t2+") := "+fn+" "+a+" in\n"), []string{t1, t2}, []*gxT{ty, gxBool})
						}
					}
					t.fail(st, "type assertion not understood: %s", t.src(r))
					return "", true
				case *ast.IndexExpr: // fn, ok := m[k]
					a, ta := t.expr(r.X, *c, &pre)
					k, tk := t.expr(r.Index, *c, &pre)
					if ta.k == "map" && tk.k == "str" {
						if z, ok := ta.elem.zero(); ok {
							t1 := t.tmp()
							return bind(wrap("let "+t1+" := gx_map_lookup "+a+" "+k+" in\n"), []string{"(gx_opt_or " + t1 + " " + z + ")", "(negb (gx_opt_isnil " + t1 + "))"}, []*gxT{ta.elem, gxBool})
						}
					}
					t.fail(st, "map lookup not understood: %s", t.src(r))
					return "", true
				}
			}
		}
		if len(x.Rhs) != len(x.Lhs) || len(x.Lhs) != 1 {
			t.fail(st, "assignment with %d left and %d right sides", len(x.Lhs), len(x.Rhs))
			return "", true
		}
		a, ta := t.expr(x.Rhs[0], *c, &pre)
		if x.Tok == token.DEFINE {
			id, ok := x.Lhs[0].(*ast.Ident)
			if !ok {
				t.fail(st, ":= on something that is not a variable")
				return "", true
			}
			if ta.k == "const" {
				a, ta = t.coerce(x.Rhs[0], a, ta, gxInt)
			}
			t.declare(st, c, id.Name, ta)
			return wrap("let v_" + id.Name + " := " + a + " in\n"), true
		}
		if ta.k == "const" || ta.k == "nil" {
			var p2 []string
			_, tl := t.expr(x.Lhs[0], *c, &p2)
			a, ta = t.coerce(x.Rhs[0], a, ta, tl)
		}
		text := wrap(t.store(x.Lhs[0], a, ta, c, &pre))
		// x = append(x, p) with a pointer p: p is shared from here on
		if ce, ok := x.Rhs[0].(*ast.CallExpr); ok && t.src(ce.Fun) == "append" && len(ce.Args) == 2 {
			if id, ok := ce.Args[1].(*ast.Ident); ok {
				for i := range c.vars {
					if c.vars[i].name == id.Name && c.vars[i].t.k == "struct" && c.vars[i].t.ptr {
						vars := append([]gxVar{}, c.vars...)
						vars[i].moved = true
						c.vars = vars
					}
				}
			}
		}
		return text, true
	}
	return "", false
}

func gxRestrict(inner, outer gxCtx) gxCtx {
	r := outer
	r.vars = inner.vars[:len(outer.vars)]
	return r
}

// cond: a condition, possibly a call with side effects; answers the prefix and the boolean text
func (t *gxTr) cond(e ast.Expr, c *gxCtx) (string, string) {
	if ce, ok := e.(*ast.CallExpr); ok {
		if text, res, resT, ok := t.callStmt(ce, c); ok {
			if len(res) != 1 || resT[0].k != "bool" {
				t.fail(e, "a call used as a condition must answer one bool")
				return text, "false"
			}
			return text, res[0]
		}
	}
	var pre []string
	ct, tc := t.expr(e, *c, &pre)
	if tc.k != "bool" {
		t.fail(e, "a condition is expected")
		return "", "false"
	}
	return strings.Join(pre, ""), ct
}

func (t *gxTr) stmts(list []ast.Stmt, c gxCtx, k func(gxCtx) string) string {
	if len(list) == 0 {
		return k(c)
	}
	st, rest := list[0], list[1:]
	memo, have := "", false
	next := func(c2 gxCtx) string {
		if !have {
			memo, have = t.stmts(rest, c2, k), true
		}
		return memo
	}
	switch x := st.(type) {
	case *ast.ReturnStmt:
		return t.ret(x, c)
	case *ast.BranchStmt:
		switch x.Tok {
		case token.BREAK:
			if x.Label != nil || c.brk == nil {
				t.fail(st, "break is not understood here (with a label, inside a switch, or outside a loop)")
				return "Panic"
			}
			return c.brk()
		case token.CONTINUE:
			if x.Label != nil && x.Label.Name != c.loopLabel {
				if x.Label.Name == c.outerLabel && c.jump != nil {
					return c.jump()
				}
				t.fail(st, "continue %s: only the loop itself or the labelled loop directly around it can be continued", x.Label.Name)
				return "Panic"
			}
			if c.cont == nil {
				t.fail(st, "continue outside a loop")
				return "Panic"
			}
			return c.cont()
		}
		t.fail(st, "%s is not understood", x.Tok)
		return "Panic"
	case *ast.BlockStmt:
		return t.stmts(x.List, c, func(c2 gxCtx) string { return next(gxRestrict(c2, c)) })
	case *ast.IfStmt:
		return t.ifStmt(x, c, next)
	case *ast.SwitchStmt:
		return t.switchStmt(x, c, next)
	case *ast.TypeSwitchStmt:
		return t.typeSwitch(x, c, next)
	case *ast.ForStmt:
		return t.forStmt(x, "", c, next)
	case *ast.RangeStmt:
		return t.rangeStmt(x, "", c, next)
	case *ast.LabeledStmt:
		switch l := x.Stmt.(type) {
		case *ast.ForStmt:
			return t.forStmt(l, x.Label.Name, c, next)
		case *ast.RangeStmt:
			return t.rangeStmt(l, x.Label.Name, c, next)
		}
		t.fail(st, "a label on something that is not a loop")
		return "Panic"
	}
	if text, ok := t.simple(st, &c); ok {
		return text + next(c)
	}
	t.fail(st, "statement not understood: %s", t.src(st))
	return "Panic"
}

func (t *gxTr) ifStmt(x *ast.IfStmt, c gxCtx, next func(gxCtx) string) string {
	c1 := c
	initText := ""
	if x.Init != nil {
		txt, ok := t.simple(x.Init, &c1)
		if !ok {
			t.fail(x.Init, "if init statement not understood")
		}
		initText = txt
	}
	pre, ct := t.cond(x.Cond, &c1)
	back := func(c2 gxCtx) string { return next(gxRestrict(c2, c)) }
	thenT := t.stmts(x.Body.List, c1, back)
	elseT := t.stmts(ggElse(x), c1, back)
	return initText + pre + "if " + ct + " then\n" + gsIndent(thenT) + "\nelse\n" + gsIndent(elseT)
}

func (t *gxTr) switchStmt(x *ast.SwitchStmt, c gxCtx, next func(gxCtx) string) string {
	if x.Init != nil || x.Tag == nil {
		t.fail(x, "only `switch tag { .. }` is understood")
		return "Panic"
	}
	var pre []string
	tag, tt := t.expr(x.Tag, c, &pre)
	if tt.k != "kind" && !tt.isNum() {
		t.fail(x.Tag, "switch on a %s", tt.name())
		return "Panic"
	}
	c1 := c
	c1.brk = nil
	back := func(c2 gxCtx) string { return next(gxRestrict(c2, c)) }
	var deflt *ast.CaseClause
	var cases []*ast.CaseClause
	for i, s := range x.Body.List {
		cc := s.(*ast.CaseClause)
		if cc.List == nil {
			deflt = cc
			if i != len(x.Body.List)-1 {
				t.fail(cc, "default is not the last case")
			}
		} else {
			cases = append(cases, cc)
		}
		for _, b := range cc.Body {
			if bs, ok := b.(*ast.BranchStmt); ok && bs.Tok == token.FALLTHROUGH {
				t.fail(b, "fallthrough")
			}
		}
	}
	var chain func(i int) string
	chain = func(i int) string {
		if i == len(cases) {
			if deflt != nil {
				return t.stmts(deflt.Body, c1, back)
			}
			return back(c1)
		}
		var conds []string
		for _, e := range cases[i].List {
			var p2 []string
			v, tv := t.expr(e, c, &p2)
			v, tv = t.coerce(e, v, tv, tt)
			if len(p2) != 0 || !tv.same(tt) {
				t.fail(e, "case expression not understood")
				continue
			}
			if tt.k == "kind" {
				conds = append(conds, "(gx_Kind_eqb "+tag+" "+v+")")
			} else {
				conds = append(conds, "("+tag+" =? "+v+")")
			}
		}
		ct := strings.Join(conds, " || ")
		if len(conds) == 0 {
			ct = "false"
		}
		body := t.stmts(cases[i].Body, c1, back)
		return "if " + ct + " then\n" + gsIndent(body) + "\nelse\n" + gsIndent(chain(i+1))
	}
	return strings.Join(pre, "") + chain(0)
}

// switch v := t.(type) on a driver value: a match on the constructor
func (t *gxTr) typeSwitch(x *ast.TypeSwitchStmt, c gxCtx, next func(gxCtx) string) string {
	if x.Init != nil {
		t.fail(x, "type switch with an init statement")
		return "Panic"
	}
	bound := ""
	var ta *ast.TypeAssertExpr
	switch a := x.Assign.(type) {
	case *ast.AssignStmt:
		if len(a.Lhs) == 1 && len(a.Rhs) == 1 && a.Tok == token.DEFINE {
			bound = a.Lhs[0].(*ast.Ident).Name
			ta, _ = a.Rhs[0].(*ast.TypeAssertExpr)
		}
	case *ast.ExprStmt:
		ta, _ = a.X.(*ast.TypeAssertExpr)
	}
	if ta == nil || ta.Type != nil {
		t.fail(x, "type switch not understood")
		return "Panic"
	}
	var pre []string
	scrut, ts := t.expr(ta.X, c, &pre)
	if ts.k != "any" {
		t.fail(x, "type switch on a %s", ts.name())
		return "Panic"
	}
	type arm struct {
		con string
		ty  *gxT
	}
	arms := []arm{{"DInt", gxI64}, {"DFloat", gxFloat}, {"DBool", gxBool}, {"DStr", gxStr}, {"DBytes", gxStr}, {"DNull", nil}, {"DOther", nil}}
	byType := map[string]int{"int64": 0, "float64": 1, "bool": 2, "string": 3, "[]byte": 4, "[]uint8": 4, "nil": 5}
	bodies := make([]*ast.CaseClause, len(arms))
	var deflt *ast.CaseClause
	c1 := c
	c1.brk = nil
	for _, s := range x.Body.List {
		cc := s.(*ast.CaseClause)
		for _, b := range cc.Body {
			if bs, ok := b.(*ast.BranchStmt); ok && bs.Tok == token.FALLTHROUGH {
				t.fail(b, "fallthrough")
			}
		}
		if cc.List == nil {
			deflt = cc
			continue
		}
		if len(cc.List) != 1 {
			t.fail(cc, "a case of a type switch with several types")
			continue
		}
		i, ok := byType[t.src(cc.List[0])]
		if !ok {
			t.fail(cc, "a case of a type switch on a type that is not a driver value: %s", t.src(cc.List[0]))
			continue
		}
		if bodies[i] != nil {
			t.fail(cc, "duplicate case")
		}
		bodies[i] = cc
	}
	back := func(c2 gxCtx) string { return next(gxRestrict(c2, c)) }
	var b strings.Builder
	b.WriteString(strings.Join(pre, "") + "match " + scrut + " with\n")
	for i, a := range arms {
		cc := bodies[i]
		pat := a.con
		ci := c1
		if a.ty != nil {
			if cc != nil && bound != "" {
				pat += " v_" + bound
				t.declare(cc, &ci, bound, a.ty)
				ci.vars[len(ci.vars)-1].local = true
			} else {
				pat += " _"
			}
		}
		var body string
		switch {
		case cc != nil:
			body = t.stmts(cc.Body, ci, back)
		case deflt != nil:
			body = t.stmts(deflt.Body, c1, back)
		default:
			body = back(c1)
		}
		b.WriteString("| " + pat + " =>\n" + gsIndent(gsIndent(body)) + "\n")
	}
	b.WriteString("end")
	return b.String()
}

func (t *gxTr) outsTuple(res []string) string {
	parts := append([]string{}, res...)
	for _, o := range t.f.outs {
		parts = append(parts, "v_"+o.name)
	}
	return gxTupleOrUnit(parts)
}

func (t *gxTr) resultType() string {
	var tys []string
	for _, r := range t.f.results {
		tys = append(tys, r.coq())
	}
	for _, o := range t.f.outs {
		tys = append(tys, o.t.coq())
	}
	return gxTypeTupleOrUnit(tys)
}

func (t *gxTr) ret(x *ast.ReturnStmt, c gxCtx) string {
	if len(x.Results) == 1 {
		if ce, ok := x.Results[0].(*ast.CallExpr); ok {
			if text, res, resT, ok := t.callStmt(ce, &c); ok {
				if len(res) != len(t.f.results) {
					t.fail(x, "return of a call with %d values, the function has %d results", len(res), len(t.f.results))
					return "Panic"
				}
				for i := range res {
					if !resT[i].same(t.f.results[i]) {
						t.fail(x, "result %d: a %s where a %s is expected", i, resT[i].name(), t.f.results[i].name())
					}
				}
				return text + c.retv(t.outsTuple(res))
			}
		}
	}
	var pre []string
	var res []string
	if len(x.Results) != len(t.f.results) {
		t.fail(x, "return with %d values, the function has %d results", len(x.Results), len(t.f.results))
		return "Panic"
	}
	for i, r := range x.Results {
		a, ta := t.expr(r, c, &pre)
		a, ta = t.coerce(r, a, ta, t.f.results[i])
		if !ta.same(t.f.results[i]) {
			t.fail(r, "result %d: a %s where a %s is expected", i, ta.name(), t.f.results[i].name())
		}
		t.noAlias(r, ta)
		res = append(res, a)
	}
	return strings.Join(pre, "") + c.retv(t.outsTuple(res))
}

// ------------------------------------------------------------------ loops

// assigned: the variables of c (in order) that the nodes may change (an over-approximation).
func (t *gxTr) assigned(c gxCtx, nodes ...ast.Node) []gxVar {
	names := map[string]bool{}
	mark := func(e ast.Expr) {
		if r := gxRootOf(e); r != "" {
			names[r] = true
		}
	}
	markPtr := func(e ast.Expr) {
		if r := gxRootOf(e); r != "" {
			if v, ok := c.lookup(r); ok && (v.t.ptr || v.t.k == "list" && v.t.elem.ptr) {
				names[r] = true
			}
		}
	}
	for _, n := range nodes {
		if n == nil {
			continue
		}
		ast.Inspect(n, func(m ast.Node) bool {
			switch x := m.(type) {
			case *ast.AssignStmt:
				if x.Tok != token.DEFINE {
					for _, l := range x.Lhs {
						mark(l)
					}
				}
			case *ast.IncDecStmt:
				mark(x.X)
			case *ast.CallExpr:
				if se, ok := x.Fun.(*ast.SelectorExpr); ok {
					markPtr(se.X)
				}
				for _, a := range x.Args {
					markPtr(a)
				}
			}
			return true
		})
	}
	var out []gxVar
	for _, v := range c.vars {
		if names[v.name] {
			out = append(out, v)
		}
	}
	return out
}

// does the body contain a return / a continue of a label other than its own?
func gxLoopShape(body *ast.BlockStmt, own string) (hasRet, jumps bool) {
	inner := map[string]bool{own: true}
	ast.Inspect(body, func(m ast.Node) bool {
		if ls, ok := m.(*ast.LabeledStmt); ok {
			inner[ls.Label.Name] = true
		}
		return true
	})
	ast.Inspect(body, func(m ast.Node) bool {
		switch x := m.(type) {
		case *ast.ReturnStmt:
			hasRet = true
		case *ast.BranchStmt:
			if x.Tok == token.CONTINUE && x.Label != nil && !inner[x.Label.Name] {
				jumps = true
			}
		case *ast.FuncLit:
			return false
		}
		return true
	})
	return
}

type gxLoop struct {
	t       *gxTr
	c       gxCtx // the context around the loop
	res     []gxVar
	hasRet  bool
	jumps   bool
	recMark string
	vtuple  string
	vtype   string
	resType string
	exit    string
	bodyCtx gxCtx
}

// newLoop prepares the translation of a loop whose body (and condition / post) are nodes
func (t *gxTr) newLoop(c gxCtx, label string, body *ast.BlockStmt, nodes ...ast.Node) *gxLoop {
	l := &gxLoop{t: t, c: c}
	l.res = t.assigned(c, nodes...)
	l.hasRet, l.jumps = gxLoopShape(body, label)
	t.nrec++
	l.recMark = fmt.Sprintf("@REC%d@", t.nrec)
	l.vtuple = gxTupleOrUnit(gxVarNames(l.res))
	l.vtype = gxTypeTupleOrUnit(gxVarTypes(l.res))
	cb := c
	cb.loopLabel = label
	cb.outerLabel = c.loopLabel
	cb.cont = func() string { return l.recMark }
	cb.jump = nil
	switch {
	case l.jumps:
		cb.retv = func(tp string) string { return "Ok (gx_cret " + tp + ")" }
		cb.jump = func() string { return "Ok (gx_ccont " + l.vtuple + ")" }
		l.exit = "Ok (gx_cfall " + l.vtuple + ")"
		l.resType = "(gx_flowc " + t.resultType() + " " + l.vtype + ")"
		if c.loopLabel == "" || c.cont == nil {
			t.fail(body, "a labelled continue that leaves a loop which is not directly inside the labelled loop")
		}
	case l.hasRet:
		cb.retv = func(tp string) string { return "Ok (gx_ret " + tp + ")" }
		l.exit = "Ok (gx_fall " + l.vtuple + ")"
		l.resType = "(gx_flow " + t.resultType() + " " + l.vtype + ")"
	default:
		l.exit = "Ok " + l.vtuple
		l.resType = l.vtype
	}
	cb.brk = func() string { return l.exit }
	l.bodyCtx = cb
	return l
}

// finish emits the Fixpoint and answers the text of the call site followed by the rest
func (l *gxLoop) finish(cIn gxCtx, head, structArg, matchHead, body string, firstArgs []string, recFirst []string, extra []gxVar, next func(gxCtx) string) string {
	t := l.t
	var ps []gxVar
	for _, v := range cIn.vars {
		if gsMentions(body, "v_"+v.name) {
			ps = append(ps, v)
		}
	}
	for _, r := range l.res {
		found := false
		for _, v := range ps {
			if v.name == r.name {
				found = true
			}
		}
		if !found {
			ps = append(ps, r)
		}
	}
	// variables introduced by the loop head itself (range index) are passed explicitly
	var ps2 []gxVar
	for _, v := range ps {
		skip := false
		for _, e := range extra {
			if e.name == v.name {
				skip = true
			}
		}
		if !skip {
			ps2 = append(ps2, v)
		}
	}
	ps = ps2
	name := fmt.Sprintf("%s_loop%d", t.f.coq, len(t.loops)+1)
	var sig, recArgs, callArgs []string
	if gsMentions(body, "fuel'") {
		sig = append(sig, "(fuel' : nat)")
		recArgs = append(recArgs, "fuel'")
		callArgs = append(callArgs, "fuel'")
	}
	sig = append(sig, head)
	recArgs = append(recArgs, recFirst...)
	callArgs = append(callArgs, firstArgs...)
	for _, v := range ps {
		sig = append(sig, "(v_"+v.name+" : "+v.t.coq()+")")
		recArgs = append(recArgs, "v_"+v.name)
		callArgs = append(callArgs, "v_"+v.name)
	}
	body = strings.ReplaceAll(body, l.recMark, name+" "+strings.Join(recArgs, " "))
	def := "Fixpoint " + name + " " + strings.Join(sig, " ") + " {struct " + structArg + "} : outcome " + l.resType + " :=\n" +
		"  " + matchHead + "\n" + gsIndent(gsIndent(body)) + "\n  end.\n"
	t.loops = append(t.loops, def)
	call := name + " " + strings.Join(callArgs, " ")
	c := l.c
	switch {
	case l.jumps:
		tmp, r := t.tmp(), t.tmp()
		contT := "Panic"
		if c.cont != nil {
			contT = c.cont()
		}
		return "do " + tmp + " <- " + call + ";\nmatch " + tmp + " with\n| gx_cfall " + l.vtuple + " =>\n" + gsIndent(next(c)) +
			"\n| gx_cret " + r + " => " + c.retv(r) + "\n| gx_ccont " + l.vtuple + " =>\n" + gsIndent(contT) + "\nend"
	case l.hasRet:
		tmp, r := t.tmp(), t.tmp()
		return "do " + tmp + " <- " + call + ";\nmatch " + tmp + " with\n| gx_fall " + l.vtuple + " =>\n" + gsIndent(next(c)) +
			"\n| gx_ret " + r + " => " + c.retv(r) + "\nend"
	}
	return "do " + l.vtuple + " <- " + call + ";\n" + next(c)
}

func (t *gxTr) forStmt(x *ast.ForStmt, label string, c gxCtx, next func(gxCtx) string) string {
	c1 := c
	initText := ""
	if x.Init != nil {
		txt, ok := t.simple(x.Init, &c1)
		if !ok {
			t.fail(x.Init, "loop init statement not understood")
		}
		initText = txt
	}
	if x.Cond == nil {
		t.fail(x, "a for loop without condition")
		return "Panic"
	}
	var nodes []ast.Node
	nodes = append(nodes, x.Body, x.Cond)
	if x.Post != nil {
		nodes = append(nodes, x.Post)
	}
	l := t.newLoop(c1, label, x.Body, nodes...)
	// the loop answers only the variables of the context around it
	outer := t.assigned(c, nodes...)
	l.vtuple = gxTupleOrUnit(gxVarNames(outer))
	l.vtype = gxTypeTupleOrUnit(gxVarTypes(outer))
	l2 := t.newLoopTypes(l, outer)
	_ = l2
	cb := l.bodyCtx
	post := func(c2 gxCtx) string {
		if x.Post == nil {
			return l.recMark
		}
		cp := gxRestrict(c2, c1)
		txt, ok := t.simple(x.Post, &cp)
		if !ok {
			t.fail(x.Post, "loop post statement not understood")
		}
		return txt + l.recMark
	}
	cb.cont = func() string { return post(cb) }
	cc := cb
	pre, ct := t.cond(x.Cond, &cc)
	iter := t.stmts(x.Body.List, cc, post)
	body := "| O => Panic\n| S k' =>\n" + gsIndent(pre+"if "+ct+" then\n"+gsIndent(iter)+"\nelse\n"+gsIndent(l.exit))
	l.c = c
	rest := l.finish(c1, "(k : nat)", "k", "match k with", body, []string{"fuel'"}, []string{"k'"}, nil, next)
	return initText + rest
}

// newLoopTypes recomputes the exit / result texts of l for the answered variables vs
func (t *gxTr) newLoopTypes(l *gxLoop, vs []gxVar) *gxLoop {
	l.res = vs
	switch {
	case l.jumps:
		l.exit = "Ok (gx_cfall " + l.vtuple + ")"
		l.resType = "(gx_flowc " + t.resultType() + " " + l.vtype + ")"
	case l.hasRet:
		l.exit = "Ok (gx_fall " + l.vtuple + ")"
		l.resType = "(gx_flow " + t.resultType() + " " + l.vtype + ")"
	default:
		l.exit = "Ok " + l.vtuple
		l.resType = l.vtype
	}
	return l
}

func (t *gxTr) rangeStmt(x *ast.RangeStmt, label string, c gxCtx, next func(gxCtx) string) string {
	if x.Tok != token.DEFINE && (x.Key != nil || x.Value != nil) {
		t.fail(x, "range with = instead of :=")
		return "Panic"
	}
	var pre []string
	over, to := t.expr(x.X, c, &pre)
	var elemT *gxT
	list := over
	isMap := false
	switch to.k {
	case "list":
		elemT = to.elem
	case "map":
		elemT, isMap = gxStr, true
		list = "(gx_map_keys " + over + ")"
	default:
		t.fail(x, "range over a %s", to.name())
		return "Panic"
	}
	c1 := c
	keyName, valName := "", ""
	if id, ok := x.Key.(*ast.Ident); ok && id.Name != "_" {
		keyName = id.Name
	}
	if x.Value != nil {
		if id, ok := x.Value.(*ast.Ident); ok && id.Name != "_" {
			valName = id.Name
		}
	}
	if isMap {
		if valName != "" {
			t.fail(x, "range over a map with a value variable")
		}
		valName, keyName = keyName, ""
	}
	var extra []gxVar
	if keyName != "" {
		t.declare(x, &c1, keyName, gxInt)
		c1.vars[len(c1.vars)-1].local = true
		extra = append(extra, c1.vars[len(c1.vars)-1])
	}
	if valName != "" {
		t.declare(x, &c1, valName, elemT)
		c1.vars[len(c1.vars)-1].local = true
		extra = append(extra, c1.vars[len(c1.vars)-1])
	}
	l := t.newLoop(c1, label, x.Body, x.Body)
	outer := t.assigned(c, x.Body)
	l.vtuple = gxTupleOrUnit(gxVarNames(outer))
	l.vtype = gxTypeTupleOrUnit(gxVarTypes(outer))
	t.newLoopTypes(l, outer)
	cb := l.bodyCtx
	iter := t.stmts(x.Body.List, cb, func(gxCtx) string { return l.recMark })
	pat := "_"
	if valName != "" {
		pat = "v_" + valName
	}
	body := "| [] => " + l.exit + "\n| " + pat + " :: l' =>\n" + gsIndent(iter)
	head := "(l : list " + elemT.coq() + ")"
	first, rec := []string{list}, []string{"l'"}
	if keyName != "" {
		head += " (v_" + keyName + " : Z)"
		first = append(first, "0")
		rec = append(rec, "(v_"+keyName+" + 1)")
	}
	l.c = c
	return strings.Join(pre, "") + l.finish(c1, head, "l", "match l with", body, first, rec, extra, next)
}

// ------------------------------------------------------------------ functions

// is fd of the shape  func F(c *Column) func(t interface{}) error { return func(t interface{}) error { .. } } ?
func gxIsMaker(p *pkgInfo, fd *ast.FuncDecl) (*ast.FuncLit, bool) {
	if fd.Recv != nil || fd.Body == nil || fd.Type.Results == nil || len(fd.Type.Results.List) != 1 || len(fd.Type.Params.List) != 1 {
		return nil, false
	}
	if len(fd.Type.Params.List[0].Names) != 1 || ggSrc(p.fset, fd.Type.Params.List[0].Type) != "*Column" {
		return nil, false
	}
	if ggSrc(p.fset, fd.Type.Results.List[0].Type) != "func(t interface{}) error" {
		return nil, false
	}
	if len(fd.Body.List) != 1 {
		return nil, true
	}
	rs, ok := fd.Body.List[0].(*ast.ReturnStmt)
	if !ok || len(rs.Results) != 1 {
		return nil, true
	}
	fl, ok := rs.Results[0].(*ast.FuncLit)
	if !ok {
		return nil, true
	}
	return fl, true
}

// does the body change the pointee of the struct pointer variable name?
func gxMutates(body *ast.BlockStmt, name string, ty *gxT) bool {
	mut := false
	ast.Inspect(body, func(m ast.Node) bool {
		switch x := m.(type) {
		case *ast.AssignStmt:
			if x.Tok != token.DEFINE {
				for _, l := range x.Lhs {
					if gxRootOf(l) == name {
						mut = true
					}
				}
			}
		case *ast.IncDecStmt:
			if gxRootOf(x.X) == name {
				mut = true
			}
		case *ast.CallExpr:
			if se, ok := x.Fun.(*ast.SelectorExpr); ok && gxRootOf(se.X) == name {
				if id, ok := se.X.(*ast.Ident); ok && id.Name == name {
					if g, ok := gxFuncs[ty.sname+"."+se.Sel.Name]; ok {
						for _, o := range g.outs {
							if o.name == g.recv {
								mut = true
							}
						}
					} else {
						mut = true // a closure stored in it, or something not understood
					}
				} else {
					mut = true
				}
			}
			for _, a := range x.Args {
				if id, ok := a.(*ast.Ident); ok && id.Name == name {
					mut = true
				}
				if u, ok := a.(*ast.UnaryExpr); ok && u.Op == token.AND && gxRootOf(u.X) == name {
					mut = true
				}
			}
		}
		return true
	})
	return mut
}

func gxSignature(p *pkgInfo, f *gxFunc) bool {
	fd := f.fd
	bad := func(format string, a ...interface{}) bool {
		problem("internal/io/sql translation, function %s: %s", f.goName, fmt.Sprintf(format, a...))
		return false
	}
	ftype := fd.Type
	f.body = fd.Body
	if fl, isMaker := gxIsMaker(p, fd); isMaker {
		if fl == nil {
			return bad("a function of the CoerceFunc shape whose body is not one return of a function literal")
		}
		f.maker = true
		f.body = fl.Body
		n := fd.Type.Params.List[0].Names[0].Name
		f.params = append(f.params, gxVar{name: n, t: &gxT{k: "struct", sname: "Column", ptr: true}})
		f.outs = append(f.outs, f.params[0])
		ftype = fl.Type
	} else if fd.Recv != nil {
		if len(fd.Recv.List) != 1 || len(fd.Recv.List[0].Names) != 1 {
			return bad("receiver not understood")
		}
		rt := gxResolve(p, fd.Recv.List[0].Type, "")
		if rt.k != "struct" || !rt.ptr {
			return bad("receiver type not understood (a pointer to a translated struct is expected)")
		}
		f.recv = fd.Recv.List[0].Names[0].Name
		f.recvT = rt
	}
	for _, fl := range ftype.Params.List {
		if len(fl.Names) == 0 {
			return bad("an argument without name")
		}
		for _, n := range fl.Names {
			ty := gxResolve(p, fl.Type, f.goName+"."+n.Name)
			if ty.k == "bad" {
				return bad("argument %s has a type that is not understood: %s", n.Name, ggSrc(p.fset, fl.Type))
			}
			f.params = append(f.params, gxVar{name: n.Name, t: ty})
			if ty.k == "buf" || ty.k == "struct" && ty.ptr && gxMutates(f.body, n.Name, ty) {
				f.outs = append(f.outs, gxVar{name: n.Name, t: ty})
			}
		}
	}
	if f.recv != "" && gxMutates(f.body, f.recv, f.recvT) {
		f.outs = append(f.outs, gxVar{name: f.recv, t: f.recvT})
	}
	if ftype.Results != nil {
		i := 0
		for _, fl := range ftype.Results.List {
			if len(fl.Names) > 0 {
				return bad("named results")
			}
			ty := gxResolve(p, fl.Type, fmt.Sprintf("%s.result%d", f.goName, i))
			if ty.k == "bad" || ty.k == "rows" || ty.k == "buf" || ty.k == "struct" {
				return bad("result type not understood: %s", ggSrc(p.fset, fl.Type))
			}
			f.results = append(f.results, ty)
			i++
		}
	}
	if f.maker {
		if len(f.params) != 2 || f.params[1].t.k != "any" || len(f.results) != 1 || f.results[0].k != "err" {
			return bad("closure signature not understood")
		}
	}
	return true
}

func gxTranslate(p *pkgInfo, f *gxFunc) {
	t := &gxTr{p: p, f: f}
	c := gxCtx{retv: func(tp string) string { return "Ok " + tp }}
	if f.recv != "" {
		c.vars = append(c.vars, gxVar{name: f.recv, t: f.recvT})
	}
	c.vars = append(c.vars, f.params...)
	for _, v := range c.vars {
		if _, isFn := gxFuncs[v.name]; isFn {
			t.fail(f.fd, "argument %s shadows a function", v.name)
		}
	}
	body := t.stmts(f.body.List, c, func(c2 gxCtx) string {
		if len(f.results) != 0 {
			t.fail(f.fd, "the function can fall off its end")
		}
		return "Ok " + t.outsTuple(nil)
	})
	var sig []string
	f.needsFuel = gsMentions(body, "fuel'")
	for _, l := range t.loops {
		if gsMentions(l, "fuel'") {
			f.needsFuel = true
		}
	}
	if f.needsFuel {
		sig = append(sig, "(fuel : nat)")
	}
	for _, v := range c.vars {
		sig = append(sig, "(v_"+v.name+" : "+v.t.coq()+")")
	}
	var b strings.Builder
	fmt.Fprintf(&b, "(* %s\n%s *)\n", gxPkg, gsSource(p, f.fd))
	for _, l := range t.loops {
		b.WriteString(l)
	}
	if f.needsFuel {
		fmt.Fprintf(&b, "Definition %s %s : outcome %s :=\n  match fuel with\n  | O => Panic\n  | S fuel' =>\n%s\n  end.\n",
			f.coq, strings.Join(sig, " "), t.resultType(), gsIndent(gsIndent(body)))
	} else {
		fmt.Fprintf(&b, "Definition %s %s : outcome %s :=\n%s.\n", f.coq, strings.Join(sig, " "), t.resultType(), gsIndent(body))
	}
	f.text = b.String()
	f.ok = !t.bad
}

func genSqlIO() string {
	p := loadPkg(gxPkg)
	gxFuncs = map[string]*gxFunc{}
	gxApplyFuel = false
	// the functions of the CoerceFunc shape: the constructors of gx_CoerceFunc (sorted by name)
	gxMakers = nil
	for _, fname := range []string{"coerce.go", "column.go", "reader.go", "stmt.go", "types.go"} {
		if _, ok := p.files[fname]; !ok {
			problem("internal/io/sql translation: file %s not found", fname)
		}
	}
	var allNames []string
	for n := range p.funcs {
		allNames = append(allNames, n)
	}
	sortStrings(allNames)
	for _, n := range allNames {
		if _, isMaker := gxIsMaker(p, p.funcs[n]); isMaker {
			gxMakers = append(gxMakers, n)
			inSpecs := false
			for _, s := range gxSpecs {
				if s == n {
					inSpecs = true
				}
			}
			if !inSpecs {
				problem("internal/io/sql translation: %s has the shape of a CoerceFunc but is not among the translated functions (gxSpecs)", n)
			}
		}
	}
	gxLoadStructs(p)
	var order []*gxFunc
	for _, n := range gxSpecs {
		f := &gxFunc{goName: n, coq: "gx_" + strings.ReplaceAll(n, ".", "_")}
		gxFuncs[n] = f
		order = append(order, f)
	}
	structsOK := true
	for _, s := range gxStructOrder {
		if !gxStructTab[s].ok {
			structsOK = false
		}
	}
	for _, s := range gxStructs {
		if gxStructTab[s] == nil || !gxStructTab[s].ok {
			structsOK = false
		}
	}
	golden := ""
	if fl := flag.Lookup("golden"); fl != nil && fl.Value.String() != "" {
		if gb, err := os.ReadFile(filepath.Join(fl.Value.String(), "GenSqlIO.v")); err == nil {
			golden = string(gb)
		}
	}
	block := func(b *strings.Builder, name, text string, ok bool) {
		if !ok {
			old, found := gfGoldenBlock(golden, name)
			if !found {
				return
			}
			text = "(* FALLBACK " + name + ": not derivable from the current source; text of the last validated tree *)\n" + old
		}
		fmt.Fprintf(b, "(* BEGIN %s *)\n%s(* END %s *)\n\n", name, text, name)
	}
	var b strings.Builder
	b.WriteString(gxPreamble1)
	// gx_CoerceFunc
	{
		text := "(* the functions of the shape func F(c *Column) func(t interface{}) error *)\nInductive gx_CoerceFunc :="
		for i, m := range gxMakers {
			if i > 0 {
				text += " |"
			}
			text += " gx_fn_" + m
		}
		text += ".\n"
		if len(gxMakers) == 0 {
			problem("internal/io/sql translation: no function of the CoerceFunc shape found")
		}
		block(&b, "gx_CoerceFunc", text, len(gxMakers) > 0)
	}
	// records; gx_ref / gx_DataSlice go in front of Column, gx_ref_elem behind it
	for _, sn := range gxStructs {
		s := gxStructTab[sn]
		ok := s != nil && s.ok
		text := ""
		if ok {
			text = "(* " + gxPkg + "\n" + ggStructSource(p, sn) + " *)\n"
			for _, nn := range s.nested {
				text += gxStructTab[nn].record()
			}
			if sn == "Column" {
				text += gxRefText()
			}
			text += s.record()
			if sn == "Column" {
				text += gxRefElemText()
			}
		}
		block(&b, "gx_"+sn, text, ok)
	}
	b.WriteString(gxPreamble2)
	for _, f := range order {
		fd, ok := p.funcs[f.goName]
		if !ok || fd.Body == nil {
			problem("internal/io/sql translation: function %s not found in %s", f.goName, gxPkg)
			f.done = true
			block(&b, f.coq, "", false)
			continue
		}
		f.fd = fd
		if structsOK && gxSignature(p, f) {
			gxTranslate(p, f)
		}
		f.done = true
		block(&b, f.coq, f.text, f.ok)
		// after the last closure: the dispatcher; after Column.Scan: database/sql's Rows.Scan
		if f.maker {
			last := true
			seen := false
			for _, g := range order {
				if g == f {
					seen = true
					continue
				}
				if seen {
					if _, isMaker := gxIsMaker(p, p.funcs[g.goName]); p.funcs[g.goName] != nil && isMaker {
						last = false
					}
				}
			}
			if last {
				allOK := true
				for _, m := range gxMakers {
					if g := gxFuncs[m]; g == nil || !g.ok {
						allOK = false
					} else if g.needsFuel {
						gxApplyFuel = true
					}
				}
				text := "(* c.coerce(t): the closure made by f for the column c, applied to t *)\nDefinition gx_apply_CoerceFunc "
				if gxApplyFuel {
					text += "(fuel' : nat) "
				}
				text += "(f : gx_CoerceFunc) (c : gx_Column) (t : dval) : outcome (gx_error * gx_Column) :=\n  match f with\n"
				for _, m := range gxMakers {
					fa := ""
					if g := gxFuncs[m]; g != nil && g.needsFuel {
						fa = " fuel'"
					}
					text += "  | gx_fn_" + m + " => gx_" + m + fa + " c t\n"
				}
				text += "  end.\n"
				block(&b, "gx_apply_CoerceFunc", text, allOK)
			}
		}
		if f.goName == "Column.Scan" {
			text := gxRowsScan
			if !f.needsFuel {
				text = strings.ReplaceAll(text, "(fuel' : nat) ", "")
				text = strings.ReplaceAll(text, " fuel'", "")
			}
			block(&b, "gx_Rows_Scan", text, f.ok)
		}
	}
	b.WriteString("End GenSqlIO.\n")
	return b.String()
}

func sortStrings(s []string) {
	for i := 1; i < len(s); i++ {
		for j := i; j > 0 && s[j] < s[j-1]; j-- {
			s[j], s[j-1] = s[j-1], s[j]
		}
	}
}
