package main

// Translation of the enum factory of internal/ecolumn/column.go and of the record assembly of the serializers of
// qframe.go into Gallina (coq/Gen/GenEnumFac.v, tie T1 for the enum columns, QFrame.ToJSON and QFrame.ToCSV).
//
// Three groups, one generated file:
//   1 internal/ecolumn/column.go: the struct types Column and Factory become records, the functions listed in
//     gefSpecs (NewFactory, the appends, enumVal, ToColumn, New, NewConst, Len, StringAt, equalTypes, Equals) are
//     translated statement by statement into definitions gef_<Receiver>_<name>;
//   2 Column.AppendByteStringAt (gekSpecs) inside Section GenEnumRender, whose one variable is
//     qfstrings.AppendQuotedString (translated on its own by strser.go);
//   3 qframe.go: QFrame.ToJSON, QFrame.Len, QFrame.ToCSV (gejSpecs) inside Section GenSerializers with the struct
//     QFrame as a record.  THE ABSTRACTION BOUNDARY of this group are the section variables: C = namedColumn (its
//     declaration is text-matched) seen only through col.name, col.AppendByteStringAt(buf, i), col.StringAt(i, na)
//     (a column.Column of this group is the namedColumn it was taken from); qfstrings.QuotedBytes; the io.Writer as
//     a state W with writer.Write : W -> bytes -> n * error * W (io.Writer contract: Write does not retain or
//     modify the slice); csv.NewToConfig(confFuncs) : F -> gef_ToConfig (Header; Columns, nil = None);
//     encoding/csv's Writer as a state K with NewWriter / Write / Flush / Error and the writer underneath it.
//     A function with an io.Writer argument answers the final state of that writer after its results.
// coq/Proofs/GenEnumFacProofs.v proves every generated definition equal to the hand-written model (Model/Ops.v:
// enum_new / enum_step / find_value_last / nodup_bytes / enum_new_const / col_equals, Model/Frame.v cell_at,
// Model/Filter.v equal_types, Model/Json.v to_json_writes, Model/JsonRead.v frame_to_json, Model/CsvWrite.v
// to_csv_records), so that an edit of these Go functions changes the generated text and breaks a named theorem
// T1_enum_<name> / T1_json_<name> / T1_csv_<name> of coq/Properties/T1Enum.v, while the theorems of C17 / C14 / C13
// keep talking about the model.
//
// THE SCHEME (anything that does not fit is reported through problem(...); the block then keeps the text of the
// golden copy, marked FALLBACK, so that the development still builds — the exit status says the tie is broken).
//
//	integers    Go int -> Z, exact (lengths, positions, counters; overflow of int is outside the translation as it
//	            is outside the model).  enumVal (uint8) and uint32 are Z inside the range of the type: the
//	            conversion enumVal(e) is the wrap gef_u8 e = e mod 256, an untyped constant is range-checked.
//	            Package constants (maxCardinality, nullValue) are folded to their value.  x > y is (y <? x).
//	strings     string and []byte -> bytes (list N); string(b) is the identity; a literal is its byte list;
//	            == / != are bytes_eqb.
//	slices      []T -> list T; nil and the empty slice are both [].  make([]T, 0, c) -> gef_make0 c (Panic for a
//	            negative c; the capacity is not kept), make([]T, 0) -> [], s[i] -> gef_index s i (Panic outside the
//	            range), len(s) -> Z.of_nat (length s).  append is accepted only as  X = append(X, e)  on one and the
//	            same place X (-> X ++ [e]): the result replaces the only access path the translated code has to the
//	            slice, so the value reading is exact.  THE STATEMENT THAT MAKES THIS SOUND for the value table is the
//	            first one of NewFactory after the length test,
//	                values = append(make([]string, 0, len(values)), values...)
//	            (-> do t <- gef_make0 (len values); let v_values := t ++ v_values: a fresh array, the same list):
//	            f.column.values is then an array no caller can reach, and the appends of newEnumVal replace the only
//	            access path to it.  Without it the column kept the slice the CALLER passed; for an empty slice with
//	            spare capacity (vals[:0]) the enum is not strict and newEnumVal appended INTO THE CALLER'S ARRAY, so
//	            that two columns declared with one such slice overwrote each other's value tables (finding F27:
//	            New({A: [x y x], B: [p q p]}, Enums{A: v, B: v}) with v := backing[:0] read A back as p q p).  The
//	            translator therefore REJECTS a slice argument of a function that is stored into a struct (composite
//	            literal field or x.f = arg) without having been replaced by such a copy first: reverting the repair
//	            is a translator problem, not a silently wrong value reading.
//	maps        map[string]V -> gef_map V = association list (key, value), keys unique, insertion order (not
//	            observable: the translated code never ranges over a map).  make(map[..]..., n) -> [] (the size
//	            hint is not observable), m[k] = v -> gef_map_set m k v (replaces the binding or appends one),
//	            v, ok := m[k] -> gef_map_get2 zero m k : V * bool.
//	records     struct -> Record gef_<T> with one projection gef_<T>_<field> and one setter gef_<T>_set_<field> per
//	            field, generated from the type declarations; T{f: e} is the constructor with the missing fields zero.
//	            x.f.g = e is the nested setter.
//	pointers    *T for a struct T as a RECEIVER is the T value itself, threaded through: a method that stores into
//	            its receiver (directly or through such a method) answers its results and last the new receiver; one
//	            that never does is passed the value only.  A local variable of type *T (the result of NewFactory) is
//	            option T (nil = None); x.m(..) dereferences it (Panic for nil) and stores the new value back.  Sound
//	            because the pointer is never copied: such a variable may only be a receiver, be compared with nil,
//	            be dereferenced by a field selection or be returned.  &T{..} -> Some (..).  *string -> option bytes,
//	            *p -> gef_deref p (Panic for nil).
//	errors      error -> gef_error = option (bytes * bytes) (nil = None); qerrors.New(op, format, args..) ->
//	            Some (op, format) with the two string literals as byte strings (the arguments are evaluated —
//	            a nil dereference among them stays a Panic — and dropped: they only fill in the text).
//	interface   column.Column -> gef_anycolumn = gef_col_enum c | gef_col_other (a tagged union: the enum column or
//	            any other implementation); v, ok := x.(Column) -> gef_as_Column x : gef_Column * bool.
//	vocabulary  v.isNull() on an enumVal -> gf_ecolumn_enumVal_isNull v (its translation in Gen/GenFuncs.v).
//	results     every function answers outcome T (Panic = Go panic), T the tuple of its results (unit for none)
//	            followed by the new receiver for a method that stores into its receiver.  There is NO fuel: every
//	            loop is a range loop over a slice evaluated once, or a counting loop  for i := a; i < b; i++  whose
//	            body stores neither into i nor into the variables of b (-> a loop over gef_count a b).
//	statements  x := e; a, b := f(..); v, ok := m[k]; v, ok := x.(T); x = e; x.f.g = e; m[k] = e; x++; x.m(..);
//	            X = append(make([]T, 0, c), Y...) (the fresh copy above)
//	calls       a call of a translated function is  do t <- gef_f ..;  a call of a method that stores into its
//	            receiver may only stand as a statement, as the only right-hand side of an assignment / if-init or
//	            as the only returned value.
//	conditions  a && b, a || b: when b can panic the whole condition is bound first
//	            (do t <- (if a then (..; Ok b) else Ok false)), otherwise andb / orb (b is total).
//	if          with or without init statement (the init is a statement in front, scoped to the if).  When nothing
//	            inside leaves the statement (no return / continue): do (assigned outer variables) <- (if c then ..;
//	            Ok (..) else ..; Ok (..)); rest.  Otherwise the rest of the block is continued inside the branches
//	            that fall through.
//	range       for i, v := range X { body }: Definition gef_f_loopN := fix loop (l : list T) [(v_i : Z)]
//	            (variables it mentions) {struct l}, numbered in order of completion; [] => EXIT, v :: l' => body;
//	            loop l' [(v_i + 1)] (current values); continue = the next trip.  A loop without return answers the
//	            outer variables it assigns (EXIT = Ok (those)).  A loop with a return inside (only at the top level
//	            of a function) also contains the statements that follow it (EXIT = the rest of the function).  When
//	            the value variable is used the body must not store into X.
//	bytes       byte -> N; a character literal or byte(c) is its code; []byte{c, ..} is the list; b[i] -> gef_index;
//	            s[:0] -> []; s[:n] -> gef_prefix s n (Panic for n < 0 or n > len(s): a reslice beyond the length but
//	            inside the capacity is outside the translation — it would read stale bytes); make([]T, n) ->
//	            gef_make zero n; s[i] = v -> gef_update (Panic outside the range); return append(X, e) / append(X,
//	            e...) hands X ++ .. to the caller.  A buffer that is cut back with s[:0] and appended to again
//	            (jsonBuf, row) reuses its array: exact under the io.Writer / csv.Writer contract above.
//	nil slices  a struct FIELD that the code compares with nil (conf.Columns) is option (list T); everywhere else it is
//	            read through gef_nslice (None = []).  if X == nil { X = make([]T, 0) } on a slice VARIABLE is the
//	            identity (nil and the empty slice are the same list) and is only commented.
//	m[k] value  the one-value form of a map index is gef_map_get1 zero m k (the zero value for a missing key).
//	var         var x T -> let v_x := (zero : T).
//	for bound   the bound b of a counting loop may call len or a translated method without arguments on a variable
//	            the body does not store into (qf.Len()): it is evaluated once in front of the loop.
//	errors 2    qerrors.Propagate(op, err) -> gef_propagate op err (some error; only nil-ness is observable here);
//	            the format of qerrors.New may be fmt.Sprintf(format, args..): the format literal is kept.
//	rejected    for with any other header, break, goto, labels, switch, defer, closures, range over a map, stores
//	            through pointers other than receivers, copies of struct pointers, shadowing of an outer variable that
//	            is stored into, everything else.

import (
	"bytes"
	"flag"
	"fmt"
	"go/ast"
	"go/printer"
	"go/token"
	"os"
	"path/filepath"
	"regexp"
	"strconv"
	"strings"
)

const gefPkg = "internal/ecolumn"

// in dependency order (a callee before its callers)
var gefSpecs = []string{"NewFactory", "Factory.AppendEnum", "Factory.AppendNil", "Factory.newEnumVal",
	"Factory.appendString", "Factory.AppendString", "Factory.AppendByteString", "Factory.enumVal", "Factory.ToColumn",
	"New", "NewConst", "Column.Len", "Column.StringAt", "equalTypes", "Column.Equals"}

// the structs that become records, in dependency order
var gefStructs = []string{"Column", "Factory"}

// the rendering of an enum cell for ToJSON, inside a section of its own
var gekSpecs = []string{"Column.AppendByteStringAt"}

const gekPreamble = `Section GenEnumRender.
Variable append_quoted_string : bytes -> bytes -> outcome bytes.         (* qfstrings.AppendQuotedString(buf, s) *)

`

// the second group: the record assembly of the serializers (package qframe, qframe.go), inside a section whose
// variables are the abstraction boundary of that group
const gejPkg = "."

var gejStructs = []string{"QFrame"}
var gejSpecs = []string{"QFrame.ToJSON", "QFrame.Len", "QFrame.ToCSV"}

// the text the fixed vocabulary of the second group stands for
const gejNamedColumn = "struct {\n\tcolumn.Column\n\tname\tstring\n\tpos\tint\n}"

const gejPreamble = `(* ------------------------------------------------------------------ qframe.go: the serializers' assembly
   C = namedColumn (abstract: its name, its renderings), W = the state of the io.Writer.  The variables are the
   abstraction boundary: the per-type renderings of a cell, the quoting of a column name, the writer. *)
Section GenSerializers.
Context {C W F K : Type}.
Variable col_zero : C.                                                  (* the zero namedColumn *)
Variable col_name : C -> bytes.                                         (* col.name *)
Variable col_AppendByteStringAt : C -> bytes -> Z -> outcome bytes.     (* col.AppendByteStringAt(buf, i) *)
Variable col_StringAt : C -> Z -> bytes -> outcome bytes.               (* col.StringAt(i, naRep) *)
Variable quoted_bytes : bytes -> outcome bytes.                         (* qfstrings.QuotedBytes(s) *)
Variable writer_Write : W -> bytes -> Z * gef_error * W.                (* writer.Write(p): n, err, next state *)
Variable new_to_config : F -> gef_ToConfig.                             (* csv.NewToConfig(confFuncs) *)
Variable csv_NewWriter : W -> K.                                        (* encoding/csv NewWriter(writer) *)
Variable csvw_Write : K -> list bytes -> gef_error * K.                 (* w.Write(record): err, next state *)
Variable csvw_Flush : K -> K.                                           (* w.Flush() *)
Variable csvw_Error : K -> gef_error.                                   (* w.Error() *)
Variable csvw_underlying : K -> W.                                      (* the writer underneath the csv.Writer *)

`

const gefPreamble1 = `(* GENERATED by tools/qf2coq (enumfac.go) from internal/ecolumn/column.go (the enum factory and column) and
   qframe.go (QFrame.ToJSON, QFrame.Len, QFrame.ToCSV) of tobgu/qframe — do not edit.
   One Record per struct, one definition gef_<Receiver>_<function> per translated Go function, one Definition
   .._loopN (a fix over the ranged list) per loop; the scheme is described at the top of tools/qf2coq/enumfac.go.
   Integers (int, enumVal, uint32) are Z, strings are bytes, a map is an association list with unique keys, an
   error is option (operation, format), *T is option T except for receivers, which are threaded through (a method
   that stores into its receiver answers the new receiver last), column.Column is the tagged union gef_anycolumn.
   Every function answers outcome T (Panic = Go panic); there is no fuel.  The serializers live in Section
   GenSerializers, whose variables are their abstraction boundary (the column level, the io.Writer, encoding/csv);
   a function with an io.Writer argument answers the final state of that writer last. *)
From QF Require Import Base.Prelude Gen.GenFuncs.
Local Open Scope Z_scope.

(* error values: nil or qerrors.New(operation, format, ...) *)
Definition gef_error : Type := option (bytes * bytes).
(* enumVal(e) *)
Definition gef_u8 (x : Z) : Z := x mod 256.
(* x == nil for an error or a pointer, *p *)
Definition gef_isnil {T : Type} (p : option T) : bool := match p with None => true | Some _ => false end.
Definition gef_deref {T : Type} (p : option T) : outcome T := match p with Some x => Ok x | None => Panic end.
(* make([]T, 0, c), s[i], for i := a; i < b; i++ *)
Definition gef_make0 {T : Type} (c : Z) : outcome (list T) := if c <? 0 then Panic else Ok [].
Definition gef_index {T : Type} (s : list T) (i : Z) : outcome T :=
  if i <? 0 then Panic else idx s (Z.to_nat i).
Definition gef_count (a b : Z) : list unit := repeat tt (Z.to_nat (b - a)).
(* make([]T, n), s[i] = v, s[:n] for n <= len(s) (a longer reslice inside the capacity is outside the translation) *)
Definition gef_make {T : Type} (zero : T) (n : Z) : outcome (list T) :=
  if n <? 0 then Panic else Ok (repeat zero (Z.to_nat n)).
Definition gef_update {T : Type} (s : list T) (i : Z) (v : T) : outcome (list T) :=
  if i <? 0 then Panic else do _ <- idx s (Z.to_nat i); Ok (set_nth s (Z.to_nat i) v).
Definition gef_prefix {T : Type} (s : list T) (n : Z) : outcome (list T) :=
  if (n <? 0) || (Z.of_nat (length s) <? n) then Panic else Ok (firstn (Z.to_nat n) s).
(* m[k] as a value: the zero value for a missing key *)
Definition gef_map_get1 {V : Type} (zero : V) (m : list (bytes * V)) (k : bytes) : V :=
  (fix get (m : list (bytes * V)) : V :=
     match m with [] => zero | (k', v) :: r => if bytes_eqb k' k then v else get r end) m.
(* a slice field that is compared with nil: None = nil *)
Definition gef_nslice {T : Type} (s : option (list T)) : list T := match s with Some l => l | None => [] end.
(* csv.ToConfig = internal/io ToCsvConfig: Header bool; Columns []string (nil = not given) *)
Record gef_ToConfig := gef_mk_ToConfig { gef_ToConfig_Header : bool; gef_ToConfig_Columns : option (list bytes) }.
(* qerrors.Propagate(operation, err) *)
Definition gef_propagate (op : bytes) (e : gef_error) : gef_error := Some (op, ([] : bytes)).
(* maps with string keys: association lists with unique keys *)
Definition gef_map (V : Type) : Type := list (bytes * V).
Fixpoint gef_map_get {V : Type} (m : gef_map V) (k : bytes) : option V :=
  match m with
  | [] => None
  | (k', v) :: r => if bytes_eqb k' k then Some v else gef_map_get r k
  end.
Definition gef_map_get2 {V : Type} (zero : V) (m : gef_map V) (k : bytes) : V * bool :=
  match gef_map_get m k with Some v => (v, true) | None => (zero, false) end.
Fixpoint gef_map_set {V : Type} (m : gef_map V) (k : bytes) (v : V) : gef_map V :=
  match m with
  | [] => [(k, v)]
  | (k', v') :: r => if bytes_eqb k' k then (k', v) :: r else (k', v') :: gef_map_set r k v
  end.

`

const gefPreamble2 = `(* column.Column: the enum column or any other implementation; v, ok := x.(Column) *)
Inductive gef_anycolumn := gef_col_enum (c : gef_Column) | gef_col_other.
Definition gef_as_Column (x : gef_anycolumn) : gef_Column * bool :=
  match x with gef_col_enum c => (c, true) | gef_col_other => (gef_zero_Column, false) end.

`

// ------------------------------------------------------------------ small helpers

func gefSrc(fset *token.FileSet, n ast.Node) string {
	var b bytes.Buffer
	printer.Fprint(&b, fset, n)
	return b.String()
}

func gefIndent(s string) string {
	lines := strings.Split(strings.TrimRight(s, "\n"), "\n")
	for i := range lines {
		lines[i] = "  " + lines[i]
	}
	return strings.Join(lines, "\n")
}

func gefMentions(text, tok string) bool {
	re := regexp.MustCompile(`(^|[^A-Za-z0-9_'])` + regexp.QuoteMeta(tok) + `($|[^A-Za-z0-9_'])`)
	return re.MatchString(text)
}

func gefGoldenBlock(golden, name string) (string, bool) {
	b := "(* BEGIN " + name + " *)\n"
	e := "(* END " + name + " *)\n"
	i := strings.Index(golden, b)
	if i < 0 {
		return "", false
	}
	j := strings.Index(golden[i:], e)
	if j < 0 {
		return "", false
	}
	return golden[i+len(b) : i+j], true
}

func gefBytesLit(s string) string {
	if len(s) == 0 {
		return "([] : bytes)"
	}
	var parts []string
	for i := 0; i < len(s); i++ {
		parts = append(parts, fmt.Sprintf("%d%%N", s[i]))
	}
	return "[" + strings.Join(parts, "; ") + "]"
}

func gefTuple(parts []string) string {
	if len(parts) == 0 {
		return "tt"
	}
	if len(parts) == 1 {
		return parts[0]
	}
	return "(" + strings.Join(parts, ", ") + ")"
}

func gefPat(parts []string) string {
	if len(parts) == 0 {
		return "_"
	}
	if len(parts) == 1 {
		return parts[0]
	}
	return "(" + strings.Join(parts, ", ") + ")"
}

func gefTypeTuple(parts []string) string {
	if len(parts) == 0 {
		return "unit"
	}
	if len(parts) == 1 {
		return parts[0]
	}
	return "(" + strings.Join(parts, " * ") + ")"
}

// ------------------------------------------------------------------ types

type gefT struct {
	k     string // int bool string ev u32 err slice ptr struct map anycol nil const
	sname string
	el    *gefT
}

func gefK(k string) *gefT { return &gefT{k: k} }

var gefBad = gefK("bad")

// the group being translated ("ecolumn" / "qframe")
var gefGroup string

func (t *gefT) same(u *gefT) bool {
	if t.k != u.k || t.sname != u.sname {
		return false
	}
	if (t.el == nil) != (u.el == nil) {
		return false
	}
	return t.el == nil || t.el.same(u.el)
}

func (t *gefT) isNum() bool { return t.k == "int" || t.k == "ev" || t.k == "u32" || t.k == "const" }

func (t *gefT) name() string {
	switch t.k {
	case "slice":
		return "[]" + t.el.name()
	case "ptr":
		return "*" + t.el.name()
	case "map":
		return "map[string]" + t.el.name()
	case "struct":
		return t.sname
	}
	return t.k
}

func (t *gefT) coq() string {
	switch t.k {
	case "int", "ev", "u32", "const":
		return "Z"
	case "bool":
		return "bool"
	case "string":
		return "bytes"
	case "err":
		return "gef_error"
	case "slice":
		return "(list " + t.el.coq() + ")"
	case "ptr":
		return "(option " + t.el.coq() + ")"
	case "map":
		return "(gef_map " + t.el.coq() + ")"
	case "struct":
		return "gef_" + t.sname
	case "anycol":
		return "gef_anycolumn"
	case "byte":
		return "N"
	case "ncol":
		return "C"
	case "writer":
		return "W"
	case "conffuncs":
		return "F"
	case "toconf":
		return "gef_ToConfig"
	case "nslice":
		return "(option (list " + t.el.coq() + "))"
	case "csvw":
		return "K"
	}
	return "unit"
}

func (t *gefT) zero() (string, bool) {
	switch t.k {
	case "int", "ev", "u32":
		return "0", true
	case "bool":
		return "false", true
	case "string":
		return "([] : bytes)", true
	case "err", "ptr":
		return "None", true
	case "slice", "map":
		return "[]", true
	case "struct":
		return "gef_zero_" + t.sname, true
	case "byte":
		return "0%N", true
	case "ncol":
		return "col_zero", true
	}
	return "", false
}

func gefResolveText(s string) *gefT {
	switch s {
	case "int":
		return gefK("int")
	case "bool":
		return gefK("bool")
	case "string", "[]byte":
		return gefK("string")
	case "enumVal":
		return gefK("ev")
	case "uint32":
		return gefK("u32")
	case "error":
		return gefK("err")
	case "index.Int":
		return &gefT{k: "slice", el: gefK("u32")}
	case "column.Column":
		if gefGroup == "qframe" { // a namedColumn seen through the interface it embeds
			return gefK("ncol")
		}
		return gefK("anycol")
	case "byte":
		return gefK("byte")
	case "namedColumn":
		return gefK("ncol")
	case "io.Writer":
		return gefK("writer")
	}
	for _, n := range append(append([]string{}, gefStructs...), gejStructs...) {
		if s == n {
			return &gefT{k: "struct", sname: n}
		}
	}
	if strings.HasPrefix(s, "[]") {
		el := gefResolveText(s[2:])
		if el.k == "bad" {
			return gefBad
		}
		return &gefT{k: "slice", el: el}
	}
	if strings.HasPrefix(s, "*") {
		el := gefResolveText(s[1:])
		if el.k != "struct" && el.k != "string" {
			return gefBad
		}
		return &gefT{k: "ptr", el: el}
	}
	if strings.HasPrefix(s, "map[string]") {
		el := gefResolveText(s[len("map[string]"):])
		if el.k == "bad" {
			return gefBad
		}
		return &gefT{k: "map", el: el}
	}
	return gefBad
}

type gefField struct {
	name string
	ty   *gefT
}

type gefStruct struct {
	name   string
	fields []gefField
	src    string
	ok     bool
	pkg    string
}

var gefStructTab map[string]*gefStruct

func gefLoadStructs(p *pkgInfo, names []string, pkgName string) {
	if gefStructTab == nil {
		gefStructTab = map[string]*gefStruct{}
	}
	for _, f := range p.files {
		for _, d := range f.Decls {
			gd, ok := d.(*ast.GenDecl)
			if !ok || gd.Tok != token.TYPE {
				continue
			}
			for _, s := range gd.Specs {
				ts := s.(*ast.TypeSpec)
				want := false
				for _, n := range names {
					if n == ts.Name.Name {
						want = true
					}
				}
				if !want {
					continue
				}
				st, ok := ts.Type.(*ast.StructType)
				if !ok {
					problem("enum factory translation: type %s is not a struct", ts.Name.Name)
					continue
				}
				g := &gefStruct{name: ts.Name.Name, ok: true, pkg: pkgName}
				cp := *st
				fl := *st.Fields
				cp.Fields = &fl
				var plain []*ast.Field
				for _, fd := range st.Fields.List {
					c := *fd
					c.Doc, c.Comment = nil, nil
					plain = append(plain, &c)
				}
				cp.Fields.List = plain
				g.src = "type " + ts.Name.Name + " " + gefSrc(p.fset, &cp)
				for _, fd := range st.Fields.List {
					ty := gefResolveText(gefSrc(p.fset, fd.Type))
					if ty.k == "bad" {
						problem("enum factory translation: field type outside the scheme in %s: %s", ts.Name.Name, gefSrc(p.fset, fd.Type))
						g.ok = false
					}
					if len(fd.Names) == 0 {
						problem("enum factory translation: embedded field in %s", ts.Name.Name)
						g.ok = false
					}
					for _, n := range fd.Names {
						g.fields = append(g.fields, gefField{n.Name, ty})
					}
				}
				gefStructTab[g.name] = g
			}
		}
	}
	for _, n := range names {
		if _, ok := gefStructTab[n]; !ok {
			problem("enum factory translation: type %s not found in %s", n, pkgName)
		}
	}
}

func (s *gefStruct) field(name string) (*gefT, bool) {
	for _, f := range s.fields {
		if f.name == name {
			return f.ty, true
		}
	}
	return nil, false
}

func gefCommentSafe(s string) string {
	s = strings.ReplaceAll(s, "(*", "( *")
	s = strings.ReplaceAll(s, "*)", "* )")
	s = strings.ReplaceAll(s, "\"", "'")
	return s
}

func (s *gefStruct) record() string {
	var b strings.Builder
	fmt.Fprintf(&b, "(* %s\n%s *)\n", s.pkg, gefCommentSafe(s.src))
	fmt.Fprintf(&b, "Record gef_%s := gef_mk_%s {\n", s.name, s.name)
	for i, f := range s.fields {
		sep := ";"
		if i+1 == len(s.fields) {
			sep = " }."
		}
		fmt.Fprintf(&b, "  gef_%s_%s : %s%s\n", s.name, f.name, f.ty.coq(), sep)
	}
	for i, f := range s.fields {
		var args []string
		for j, g := range s.fields {
			if i == j {
				args = append(args, "v")
			} else {
				args = append(args, fmt.Sprintf("(gef_%s_%s r)", s.name, g.name))
			}
		}
		fmt.Fprintf(&b, "Definition gef_%s_set_%s (r : gef_%s) (v : %s) : gef_%s :=\n  gef_mk_%s %s.\n", s.name, f.name, s.name, f.ty.coq(), s.name, s.name, strings.Join(args, " "))
	}
	var zs []string
	for _, f := range s.fields {
		z, _ := f.ty.zero()
		zs = append(zs, z)
	}
	fmt.Fprintf(&b, "Definition gef_zero_%s : gef_%s := gef_mk_%s %s.\n", s.name, s.name, s.name, strings.Join(zs, " "))
	return b.String()
}

// ------------------------------------------------------------------ translation state

type gefVar struct {
	name string
	coq  string
	ty   *gefT
}

type gefFunc struct {
	fn      string // Go name ("T.m" or "f")
	fd      *ast.FuncDecl
	coq     string
	recv    *gefVar
	params  []gefVar
	results []*gefT
	mut     bool     // stores into its (pointer) receiver: the new receiver is answered last
	outs    []gefVar // io.Writer arguments: their final state is answered after the results
	group   string
	pkg     string
	text    string
	ok      bool
	done    bool
}

var gefFuncs map[string]*gefFunc

// the names of the io.Writer arguments of the function being translated
var gefWriterNames = map[string]bool{}

type gefCtx struct {
	vars []gefVar
	top  bool                // the continuation of this block is the tail of the function
	next func(gefCtx) string // continue: the next trip of the enclosing loop (nil outside loops)
}

type gefTr struct {
	p      *pkgInfo
	f      *gefFunc
	bad    bool
	ntmp   int
	loops  []string
	nloops int
	fresh  map[string]bool // slice arguments that were replaced by a fresh copy: X = append(make([]T, 0, c), X...)
}

func (t *gefTr) fail(n ast.Node, format string, a ...interface{}) {
	if !t.bad {
		pos := ""
		if n != nil {
			pos = t.p.fset.Position(n.Pos()).String()
			pos = strings.TrimPrefix(pos, repo+"/") + ": "
		}
		problem("enum factory translation of %s: %s%s", t.f.fn, pos, fmt.Sprintf(format, a...))
	}
	t.bad = true
}

func (t *gefTr) src(n ast.Node) string { return gefSrc(t.p.fset, n) }

func (t *gefTr) tmp() string {
	t.ntmp++
	return fmt.Sprintf("t%d", t.ntmp)
}

func (c gefCtx) lookup(name string) (gefVar, bool) {
	for i := len(c.vars) - 1; i >= 0; i-- {
		if c.vars[i].name == name {
			return c.vars[i], true
		}
	}
	return gefVar{}, false
}

func (t *gefTr) resolve(e ast.Expr) *gefT {
	ty := gefResolveText(t.src(e))
	if ty.k == "bad" {
		t.fail(e, "type outside the scheme: %s", t.src(e))
	}
	return ty
}

// coerce checks that a value of type have can stand where want is expected
func (t *gefTr) coerce(n ast.Node, text string, have, want *gefT) string {
	if have.k == "bad" || want.k == "bad" {
		return text
	}
	if have.same(want) {
		return text
	}
	if have.k == "nil" {
		switch want.k {
		case "err", "ptr":
			return "None"
		case "slice":
			return "[]"
		}
	}
	if have.k == "const" && (want.k == "int" || want.k == "ev" || want.k == "u32") {
		v, err := strconv.ParseInt(strings.Trim(text, "()"), 10, 64)
		if err == nil && (want.k == "int" || v >= 0 && (want.k == "ev" && v < 256 || want.k == "u32" && v < 4294967296)) {
			return text
		}
	}
	if have.k == "const" && want.k == "byte" {
		v, err := strconv.ParseInt(strings.Trim(text, "()"), 10, 64)
		if err == nil && v >= 0 && v < 256 {
			return fmt.Sprintf("%d%%N", v)
		}
	}
	t.fail(n, "a value of type %s stands where %s is expected: %s", have.name(), want.name(), t.src(n))
	return text
}

// packageConst folds a package level integer constant
func (t *gefTr) packageConst(name string, depth int) (int64, bool) {
	e, ok := t.p.consts[name]
	if !ok || depth > 8 {
		return 0, false
	}
	switch x := e.(type) {
	case *ast.BasicLit:
		if x.Kind == token.INT {
			v, err := strconv.ParseInt(x.Value, 0, 64)
			return v, err == nil
		}
	case *ast.Ident:
		return t.packageConst(x.Name, depth+1)
	}
	return 0, false
}

func gefConstText(v int64) string {
	if v < 0 {
		return fmt.Sprintf("(%d)", v)
	}
	return fmt.Sprintf("%d", v)
}

// ------------------------------------------------------------------ expressions

// asSlice reads a nilable slice (a struct field that is compared with nil) as the slice it is
func gefAsSlice(text string, ty *gefT) (string, *gefT) {
	if ty.k == "nslice" {
		return "(gef_nslice " + text + ")", &gefT{k: "slice", el: ty.el}
	}
	return text, ty
}

// structOf: the struct a value or pointer expression denotes (dereferencing a pointer)
func (t *gefTr) structOf(e ast.Expr, c gefCtx, pre *[]string) (string, *gefStruct) {
	x, ty := t.expr(e, c, pre)
	switch {
	case ty.k == "struct":
		return x, gefStructTab[ty.sname]
	case ty.k == "ptr" && ty.el.k == "struct":
		v := t.tmp()
		*pre = append(*pre, fmt.Sprintf("do %s <- gef_deref %s;", v, x))
		return v, gefStructTab[ty.el.sname]
	}
	return x, nil
}

func (t *gefTr) expr(e ast.Expr, c gefCtx, pre *[]string) (string, *gefT) {
	switch x := e.(type) {
	case *ast.ParenExpr:
		return t.expr(x.X, c, pre)
	case *ast.BasicLit:
		switch x.Kind {
		case token.INT:
			v, err := strconv.ParseInt(x.Value, 0, 64)
			if err != nil {
				t.fail(e, "integer literal outside the scheme: %s", x.Value)
			}
			return gefConstText(v), gefK("const")
		case token.STRING:
			s, err := strconv.Unquote(x.Value)
			if err != nil {
				t.fail(e, "string literal outside the scheme: %s", x.Value)
			}
			return gefBytesLit(s), gefK("string")
		case token.CHAR:
			r, _, _, err := strconv.UnquoteChar(strings.Trim(x.Value, "'"), '\'')
			if err != nil || r >= 128 {
				t.fail(e, "character literal outside the scheme: %s", x.Value)
			}
			return gefConstText(int64(r)), gefK("const")
		}
	case *ast.Ident:
		switch x.Name {
		case "nil":
			return "None", gefK("nil")
		case "true", "false":
			if _, shadowed := c.lookup(x.Name); !shadowed {
				return x.Name, gefK("bool")
			}
		}
		if v, ok := c.lookup(x.Name); ok {
			return v.coq, v.ty
		}
		if v, ok := t.packageConst(x.Name, 0); ok {
			return gefConstText(v), gefK("const")
		}
	case *ast.SelectorExpr:
		if id, ok := x.X.(*ast.Ident); ok {
			if v, isVar := c.lookup(id.Name); isVar && v.ty.k == "ncol" && x.Sel.Name == "name" {
				return fmt.Sprintf("(col_name %s)", v.coq), gefK("string")
			}
			if v, isVar := c.lookup(id.Name); isVar && v.ty.k == "toconf" {
				switch x.Sel.Name {
				case "Header":
					return fmt.Sprintf("(gef_ToConfig_Header %s)", v.coq), gefK("bool")
				case "Columns":
					return fmt.Sprintf("(gef_ToConfig_Columns %s)", v.coq), &gefT{k: "nslice", el: gefK("string")}
				}
			}
		}
		s, st := t.structOf(x.X, c, pre)
		if st != nil {
			if fty, ok := st.field(x.Sel.Name); ok {
				return fmt.Sprintf("(gef_%s_%s %s)", st.name, x.Sel.Name, s), fty
			}
		}
	case *ast.StarExpr:
		s, ty := t.expr(x.X, c, pre)
		if ty.k == "ptr" && ty.el.k == "string" {
			v := t.tmp()
			*pre = append(*pre, fmt.Sprintf("do %s <- gef_deref %s;", v, s))
			return v, ty.el
		}
	case *ast.IndexExpr:
		s, ty := t.expr(x.X, c, pre)
		s, ty = gefAsSlice(s, ty)
		i, ti := t.expr(x.Index, c, pre)
		if ty.k == "map" && ti.k == "string" {
			if z, ok := ty.el.zero(); ok {
				return fmt.Sprintf("(gef_map_get1 %s %s %s)", z, s, i), ty.el
			}
		}
		if ty.k == "slice" && ti.isNum() {
			v := t.tmp()
			*pre = append(*pre, fmt.Sprintf("do %s <- gef_index %s %s;", v, s, i))
			return v, ty.el
		}
		if ty.k == "string" && ti.isNum() {
			v := t.tmp()
			*pre = append(*pre, fmt.Sprintf("do %s <- gef_index %s %s;", v, s, i))
			return v, gefK("byte")
		}
	case *ast.SliceExpr:
		s, ty := t.expr(x.X, c, pre)
		if (ty.k == "slice" || ty.k == "string") && x.Low == nil && x.High != nil && !x.Slice3 {
			h, th := t.expr(x.High, c, pre)
			if th.k == "const" && h == "0" {
				return fmt.Sprintf("([] : %s)", ty.coq()), ty
			}
			if th.k == "int" {
				v := t.tmp()
				*pre = append(*pre, fmt.Sprintf("do %s <- gef_prefix %s %s;", v, s, h))
				return v, ty
			}
		}
	case *ast.UnaryExpr:
		switch x.Op {
		case token.NOT:
			s, ty := t.expr(x.X, c, pre)
			if ty.k == "bool" {
				return "(negb " + s + ")", ty
			}
		case token.SUB:
			if lit, ok := x.X.(*ast.BasicLit); ok && lit.Kind == token.INT {
				v, err := strconv.ParseInt(lit.Value, 0, 64)
				if err == nil {
					return gefConstText(-v), gefK("const")
				}
			}
		case token.AND:
			if cl, ok := x.X.(*ast.CompositeLit); ok {
				s, ty := t.composite(cl, c, pre)
				if ty.k == "struct" {
					return "(Some " + s + ")", &gefT{k: "ptr", el: ty}
				}
			}
		}
	case *ast.CompositeLit:
		return t.composite(x, c, pre)
	case *ast.BinaryExpr:
		return t.binary(x, c, pre)
	case *ast.CallExpr:
		rs, tys := t.call(x, c, pre, false)
		if len(rs) == 1 {
			return rs[0], tys[0]
		}
		if len(rs) > 1 {
			t.fail(e, "a call with %d results inside an expression", len(rs))
			return "tt", gefBad
		}
		if t.bad {
			return "tt", gefBad
		}
	}
	t.fail(e, "expression outside the scheme: %s", t.src(e))
	return "tt", gefBad
}

// sharedArgument rejects a slice ARGUMENT of the function stored into a struct as it is: its array would stay
// shared with the caller, and the value reading of the appends made to the field later on would be wrong (the
// defect repaired in NewFactory).  The argument must have been replaced by a fresh copy first.
func (t *gefTr) sharedArgument(e ast.Expr, ty *gefT) {
	id, ok := e.(*ast.Ident)
	if !ok || ty.k != "slice" {
		return
	}
	for _, p := range t.f.params {
		if p.name == id.Name && !t.fresh[id.Name] {
			t.fail(e, "the slice argument %s is stored into a struct without a copy: its array stays shared with the caller and later appends to the field would write into it (expected %s = append(make([]T, 0, len(%s)), %s...) first)", id.Name, id.Name, id.Name, id.Name)
		}
	}
}

func (t *gefTr) composite(cl *ast.CompositeLit, c gefCtx, pre *[]string) (string, *gefT) {
	ty := t.resolve(cl.Type)
	if ty.k == "string" && t.src(cl.Type) == "[]byte" {
		var parts []string
		for _, el := range cl.Elts {
			s, te := t.expr(el, c, pre)
			parts = append(parts, t.coerce(el, s, te, gefK("byte")))
		}
		if len(parts) == 0 {
			return "([] : bytes)", ty
		}
		return "[" + strings.Join(parts, "; ") + "]", ty
	}
	if ty.k != "struct" {
		t.fail(cl, "composite literal outside the scheme: %s", t.src(cl))
		return "tt", gefBad
	}
	st := gefStructTab[ty.sname]
	vals := map[string]string{}
	for _, el := range cl.Elts {
		kv, ok := el.(*ast.KeyValueExpr)
		if !ok {
			t.fail(el, "composite literal element without field name")
			continue
		}
		id, ok := kv.Key.(*ast.Ident)
		if !ok {
			t.fail(el, "composite literal key outside the scheme")
			continue
		}
		fty, ok := st.field(id.Name)
		if !ok {
			t.fail(el, "unknown field %s of %s", id.Name, st.name)
			continue
		}
		if _, dup := vals[id.Name]; dup {
			t.fail(el, "field %s given twice", id.Name)
		}
		s, vty := t.expr(kv.Value, c, pre)
		t.sharedArgument(kv.Value, vty)
		vals[id.Name] = t.coerce(kv.Value, s, vty, fty)
	}
	if len(cl.Elts) == 0 {
		return "gef_zero_" + st.name, ty
	}
	parts := []string{"gef_mk_" + st.name}
	for _, f := range st.fields {
		if v, ok := vals[f.name]; ok {
			parts = append(parts, v)
		} else {
			z, _ := f.ty.zero()
			parts = append(parts, z)
		}
	}
	return "(" + strings.Join(parts, " ") + ")", ty
}

func (t *gefTr) binary(x *ast.BinaryExpr, c gefCtx, pre *[]string) (string, *gefT) {
	if x.Op == token.LAND || x.Op == token.LOR {
		a, ta := t.expr(x.X, c, pre)
		var pre2 []string
		b, tb := t.expr(x.Y, c, &pre2)
		if ta.k != "bool" || tb.k != "bool" {
			t.fail(x, "logical operator on something that is not a bool: %s", t.src(x))
			return "false", gefK("bool")
		}
		if len(pre2) == 0 {
			if x.Op == token.LAND {
				return fmt.Sprintf("(%s && %s)", a, b), ta
			}
			return fmt.Sprintf("(%s || %s)", a, b), ta
		}
		v := t.tmp()
		inner := gefIndent(strings.Join(append(pre2, "Ok "+b), "\n"))
		if x.Op == token.LAND {
			*pre = append(*pre, fmt.Sprintf("do %s <- (if %s then (\n%s)\n  else Ok false);", v, a, inner))
		} else {
			*pre = append(*pre, fmt.Sprintf("do %s <- (if %s then Ok true else (\n%s));", v, a, inner))
		}
		return v, ta
	}
	a, ta := t.expr(x.X, c, pre)
	b, tb := t.expr(x.Y, c, pre)
	if ta.k == "bad" || tb.k == "bad" {
		return "tt", gefBad
	}
	numOk := ta.isNum() && tb.isNum() && (ta.k == tb.k || ta.k == "const" || tb.k == "const")
	resNum := ta
	if ta.k == "const" {
		resNum = tb
	}
	switch x.Op {
	case token.EQL, token.NEQ:
		var r string
		switch {
		case numOk:
			r = fmt.Sprintf("(%s =? %s)", a, b)
		case ta.k == "string" && tb.k == "string":
			r = fmt.Sprintf("(bytes_eqb %s %s)", a, b)
		case ta.k == "byte" && (tb.k == "const" || tb.k == "byte"):
			r = fmt.Sprintf("(%s =? %s)%%N", a, t.coerce(x.Y, b, tb, ta))
		case ta.k == "bool" && tb.k == "bool":
			r = fmt.Sprintf("(Bool.eqb %s %s)", a, b)
		case (ta.k == "err" || ta.k == "ptr" || ta.k == "nslice") && tb.k == "nil":
			r = fmt.Sprintf("(gef_isnil %s)", a)
		case ta.k == "slice" && tb.k == "nil":
			r = fmt.Sprintf("(Z.of_nat (length %s) =? 0)", a)
			t.fail(x, "comparison of a slice with nil (nil and empty are not told apart)")
		default:
			t.fail(x, "comparison outside the scheme: %s", t.src(x))
			return "false", gefK("bool")
		}
		if x.Op == token.NEQ {
			r = "(negb " + r + ")"
		}
		return r, gefK("bool")
	case token.LSS, token.LEQ, token.GTR, token.GEQ:
		if !numOk {
			t.fail(x, "ordering outside the scheme: %s", t.src(x))
			return "false", gefK("bool")
		}
		switch x.Op {
		case token.LSS:
			return fmt.Sprintf("(%s <? %s)", a, b), gefK("bool")
		case token.LEQ:
			return fmt.Sprintf("(%s <=? %s)", a, b), gefK("bool")
		case token.GTR:
			return fmt.Sprintf("(%s <? %s)", b, a), gefK("bool")
		}
		return fmt.Sprintf("(%s <=? %s)", b, a), gefK("bool")
	case token.ADD, token.SUB:
		if numOk && (resNum.k == "int" || resNum.k == "const") {
			op := "+"
			if x.Op == token.SUB {
				op = "-"
			}
			if resNum.k == "const" {
				t.fail(x, "constant arithmetic outside the scheme: %s", t.src(x))
			}
			return fmt.Sprintf("(%s %s %s)", a, op, b), resNum
		}
	}
	t.fail(x, "operator outside the scheme: %s", t.src(x))
	return "tt", gefBad
}

// ------------------------------------------------------------------ calls

func (t *gefTr) args(g *gefFunc, ce *ast.CallExpr, c gefCtx, pre *[]string) []string {
	var out []string
	if len(ce.Args) != len(g.params) || ce.Ellipsis.IsValid() {
		t.fail(ce, "call of %s with %d arguments (it has %d parameters)", g.fn, len(ce.Args), len(g.params))
		return out
	}
	for i, a := range ce.Args {
		s, ty := t.expr(a, c, pre)
		if ty.k == "ptr" && ty.el.k == "struct" {
			t.fail(a, "a struct pointer is copied into an argument: %s", t.src(a))
		}
		out = append(out, t.coerce(a, s, ty, g.params[i].ty))
	}
	return out
}

// call translates a call; the results are bound to fresh names by lines added to pre.  A method that stores into
// its receiver is only accepted when allowMut is set (statement level); its receiver must be a variable.
func (t *gefTr) call(x *ast.CallExpr, c gefCtx, pre *[]string, allowMut bool) ([]string, []*gefT) {
	one := func(s string, ty *gefT) ([]string, []*gefT) { return []string{s}, []*gefT{ty} }
	badRes := func() ([]string, []*gefT) { return []string{"tt"}, []*gefT{gefBad} }
	invoke := func(g *gefFunc, recvArg string, store func(string)) ([]string, []*gefT) {
		if !g.done || g.text == "" {
			t.fail(x, "call of %s, which is not translated before this function", g.fn)
			return badRes()
		}
		parts := []string{g.coq}
		if recvArg != "" {
			parts = append(parts, recvArg)
		}
		parts = append(parts, t.args(g, x, c, pre)...)
		var names []string
		for range g.results {
			names = append(names, t.tmp())
		}
		pat := append([]string{}, names...)
		newRecv := ""
		if g.mut {
			newRecv = t.tmp()
			pat = append(pat, newRecv)
		}
		*pre = append(*pre, fmt.Sprintf("do %s <- %s;", gefPat(pat), strings.Join(parts, " ")))
		if g.mut {
			store(newRecv)
		}
		return names, g.results
	}
	switch fn := x.Fun.(type) {
	case *ast.Ident:
		if _, isVar := c.lookup(fn.Name); isVar {
			t.fail(x, "call of a variable: %s", t.src(x))
			return badRes()
		}
		switch fn.Name {
		case "len":
			if len(x.Args) == 1 {
				s, ty := t.expr(x.Args[0], c, pre)
				s, ty = gefAsSlice(s, ty)
				if ty.k == "slice" || ty.k == "string" {
					return one(fmt.Sprintf("(Z.of_nat (length %s))", s), gefK("int"))
				}
			}
		case "enumVal":
			if len(x.Args) == 1 {
				s, ty := t.expr(x.Args[0], c, pre)
				if ty.k == "int" {
					return one(fmt.Sprintf("(gef_u8 %s)", s), gefK("ev"))
				}
				if ty.k == "ev" || ty.k == "const" {
					return one(t.coerce(x.Args[0], s, ty, gefK("ev")), gefK("ev"))
				}
			}
		case "int":
			if len(x.Args) == 1 {
				s, ty := t.expr(x.Args[0], c, pre)
				if ty.k == "int" || ty.k == "ev" || ty.k == "u32" {
					return one(s, gefK("int"))
				}
			}
		case "string":
			if len(x.Args) == 1 {
				s, ty := t.expr(x.Args[0], c, pre)
				if ty.k == "string" {
					return one(s, ty)
				}
			}
		case "byte":
			if len(x.Args) == 1 {
				s, ty := t.expr(x.Args[0], c, pre)
				if ty.k == "const" || ty.k == "byte" {
					return one(t.coerce(x.Args[0], s, ty, gefK("byte")), gefK("byte"))
				}
			}
		case "make":
			if len(x.Args) >= 2 {
				ty := t.resolve(x.Args[0])
				if ty.k == "map" && len(x.Args) == 2 {
					_, tn := t.expr(x.Args[1], c, pre)
					if tn.isNum() {
						return one(fmt.Sprintf("([] : %s)", ty.coq()), ty)
					}
				}
				if ty.k == "slice" && len(x.Args) == 2 {
					if z, ok := ty.el.zero(); ok && t.src(x.Args[1]) != "0" {
						n, tn := t.expr(x.Args[1], c, pre)
						if tn.k == "int" {
							v := t.tmp()
							*pre = append(*pre, fmt.Sprintf("do %s <- gef_make %s %s;", v, z, n))
							return one(v, ty)
						}
					}
				}
				if ty.k == "slice" {
					n, tn := t.expr(x.Args[1], c, pre)
					if tn.k == "const" && n == "0" {
						if len(x.Args) == 2 {
							return one(fmt.Sprintf("([] : %s)", ty.coq()), ty)
						}
						cp, tc := t.expr(x.Args[2], c, pre)
						if tc.isNum() {
							v := t.tmp()
							*pre = append(*pre, fmt.Sprintf("do %s <- gef_make0 (T := %s) %s;", v, ty.el.coq(), cp))
							return one(v, ty)
						}
					}
				}
			}
		default:
			if g, ok := gefFuncs[fn.Name]; ok && g.recv == nil {
				return invoke(g, "", nil)
			}
		}
	case *ast.SelectorExpr:
		if id, ok := fn.X.(*ast.Ident); ok && id.Name == "qerrors" && fn.Sel.Name == "New" {
			if _, isVar := c.lookup("qerrors"); !isVar && len(x.Args) >= 2 {
				op, t1 := t.expr(x.Args[0], c, pre)
				second := x.Args[1]
				var extra []ast.Expr
				if sp, ok := second.(*ast.CallExpr); ok && t.src(sp.Fun) == "fmt.Sprintf" && len(sp.Args) >= 1 {
					second, extra = sp.Args[0], sp.Args[1:]
				}
				fm, t2 := t.expr(second, c, pre)
				for _, a := range extra {
					t.expr(a, c, pre)
				}
				_, lit1 := x.Args[0].(*ast.BasicLit)
				_, lit2 := second.(*ast.BasicLit)
				if t1.k == "string" && t2.k == "string" && lit1 && lit2 {
					for _, a := range x.Args[2:] {
						t.expr(a, c, pre) // evaluated (a nil dereference stays a Panic), dropped
					}
					return one(fmt.Sprintf("(Some (%s, %s))", op, fm), gefK("err"))
				}
			}
			break
		}
		if id, ok := fn.X.(*ast.Ident); ok && id.Name == "qerrors" && fn.Sel.Name == "Propagate" && len(x.Args) == 2 {
			if _, isVar := c.lookup("qerrors"); !isVar {
				op, t1 := t.expr(x.Args[0], c, pre)
				e, t2 := t.expr(x.Args[1], c, pre)
				_, lit1 := x.Args[0].(*ast.BasicLit)
				if t1.k == "string" && t2.k == "err" && lit1 {
					return one(fmt.Sprintf("(gef_propagate %s %s)", op, e), gefK("err"))
				}
			}
			break
		}
		if id, ok := fn.X.(*ast.Ident); ok && t.f.group == "qframe" {
			_, isVar := c.lookup(id.Name)
			switch {
			case !isVar && id.Name == "csv" && fn.Sel.Name == "NewToConfig" && len(x.Args) == 1:
				a, ta := t.expr(x.Args[0], c, pre)
				if ta.k == "conffuncs" {
					return one(fmt.Sprintf("(new_to_config %s)", a), gefK("toconf"))
				}
			case !isVar && id.Name == "stdcsv" && fn.Sel.Name == "NewWriter" && len(x.Args) == 1:
				a, ta := t.expr(x.Args[0], c, pre)
				if ta.k == "writer" {
					return one(fmt.Sprintf("(csv_NewWriter %s)", a), gefK("csvw"))
				}
			}
			if v, ok := c.lookup(id.Name); ok && v.ty.k == "csvw" {
				switch {
				case fn.Sel.Name == "Write" && len(x.Args) == 1 && allowMut:
					a, ta := t.expr(x.Args[0], c, pre)
					if ta.k == "slice" && ta.el.k == "string" {
						e, k := t.tmp(), t.tmp()
						*pre = append(*pre, fmt.Sprintf("let '(%s, %s) := csvw_Write %s %s in", e, k, v.coq, a))
						*pre = append(*pre, fmt.Sprintf("let %s := %s in", v.coq, k))
						return one(e, gefK("err"))
					}
				case fn.Sel.Name == "Flush" && len(x.Args) == 0 && allowMut:
					*pre = append(*pre, fmt.Sprintf("let %s := csvw_Flush %s in", v.coq, v.coq))
					return nil, nil
				case fn.Sel.Name == "Error" && len(x.Args) == 0:
					return one(fmt.Sprintf("(csvw_Error %s)", v.coq), gefK("err"))
				}
			}
		}
		// ix.Len() on an index.Int (body text-matched)
		if fn.Sel.Name == "Len" && len(x.Args) == 0 && t.f.group == "qframe" {
			var pre3 []string
			if s3, t3 := t.expr(fn.X, c, &pre3); t3.k == "slice" && t3.el.k == "u32" && len(pre3) == 0 {
				return one(fmt.Sprintf("(Z.of_nat (length %s))", s3), gefK("int"))
			}
		}
		if id, ok := fn.X.(*ast.Ident); ok && id.Name == "qfstrings" && fn.Sel.Name == "AppendQuotedString" && len(x.Args) == 2 && t.f.group == "ecolumnR" {
			if _, isVar := c.lookup("qfstrings"); !isVar {
				a, ta := t.expr(x.Args[0], c, pre)
				b, tb := t.expr(x.Args[1], c, pre)
				if ta.k == "string" && tb.k == "string" {
					v := t.tmp()
					*pre = append(*pre, fmt.Sprintf("do %s <- append_quoted_string %s %s;", v, a, b))
					return one(v, gefK("string"))
				}
			}
			break
		}
		if id, ok := fn.X.(*ast.Ident); ok && id.Name == "qfstrings" && fn.Sel.Name == "QuotedBytes" && len(x.Args) == 1 && t.f.group == "qframe" {
			if _, isVar := c.lookup("qfstrings"); !isVar {
				a, ta := t.expr(x.Args[0], c, pre)
				if ta.k == "string" {
					v := t.tmp()
					*pre = append(*pre, fmt.Sprintf("do %s <- quoted_bytes %s;", v, a))
					return one(v, gefK("string"))
				}
			}
			break
		}
		if id, ok := fn.X.(*ast.Ident); ok {
			if v, isVar := c.lookup(id.Name); isVar && v.ty.k == "ncol" {
				switch {
				case fn.Sel.Name == "AppendByteStringAt" && len(x.Args) == 2:
					a, ta := t.expr(x.Args[0], c, pre)
					b, tb := t.expr(x.Args[1], c, pre)
					if ta.k == "string" && tb.k == "u32" {
						r := t.tmp()
						*pre = append(*pre, fmt.Sprintf("do %s <- col_AppendByteStringAt %s %s %s;", r, v.coq, a, b))
						return one(r, gefK("string"))
					}
				case fn.Sel.Name == "StringAt" && len(x.Args) == 2:
					a, ta := t.expr(x.Args[0], c, pre)
					b, tb := t.expr(x.Args[1], c, pre)
					if ta.k == "u32" && tb.k == "string" {
						r := t.tmp()
						*pre = append(*pre, fmt.Sprintf("do %s <- col_StringAt %s %s %s;", r, v.coq, a, b))
						return one(r, gefK("string"))
					}
				}
				break
			}
			if v, isVar := c.lookup(id.Name); isVar && v.ty.k == "writer" {
				if fn.Sel.Name == "Write" && len(x.Args) == 1 && allowMut {
					a, ta := t.expr(x.Args[0], c, pre)
					if ta.k == "string" {
						n, e, w := t.tmp(), t.tmp(), t.tmp()
						*pre = append(*pre, fmt.Sprintf("let '(%s, %s, %s) := writer_Write %s %s in", n, e, w, v.coq, a))
						*pre = append(*pre, fmt.Sprintf("let %s := %s in", v.coq, w))
						return []string{n, e}, []*gefT{gefK("int"), gefK("err")}
					}
				}
				break
			}
		}
		// a method of enumVal
		if id, ok := fn.X.(*ast.Ident); ok {
			if v, isVar := c.lookup(id.Name); isVar && v.ty.k == "ev" {
				if fn.Sel.Name == "isNull" && len(x.Args) == 0 {
					return one(fmt.Sprintf("(gf_ecolumn_enumVal_isNull %s)", v.coq), gefK("bool"))
				}
				break
			}
		}
		// a translated method
		var pre2 []string
		_, rty := t.expr(fn.X, c, &pre2)
		sname := ""
		isPtr := false
		switch {
		case rty.k == "struct":
			sname = rty.sname
		case rty.k == "ptr" && rty.el.k == "struct":
			sname, isPtr = rty.el.sname, true
		}
		g, ok := gefFuncs[sname+"."+fn.Sel.Name]
		if sname == "" || !ok || g.recv == nil {
			break
		}
		if !g.mut {
			s, _ := t.structOf(fn.X, c, pre)
			return invoke(g, s, nil)
		}
		id, isId := fn.X.(*ast.Ident)
		if !allowMut || !isId {
			t.fail(x, "a call of %s, which stores into its receiver, outside statement level or on something that is not a variable", g.fn)
			return badRes()
		}
		v, _ := c.lookup(id.Name)
		if isPtr {
			d := t.tmp()
			*pre = append(*pre, fmt.Sprintf("do %s <- gef_deref %s;", d, v.coq))
			return invoke(g, d, func(n string) { *pre = append(*pre, fmt.Sprintf("let %s := Some %s in", v.coq, n)) })
		}
		return invoke(g, v.coq, func(n string) { *pre = append(*pre, fmt.Sprintf("let %s := %s in", v.coq, n)) })
	}
	t.fail(x, "call outside the scheme: %s", t.src(x))
	return badRes()
}

// ------------------------------------------------------------------ statements

func gefRootIdent(e ast.Expr) string {
	switch x := e.(type) {
	case *ast.Ident:
		return x.Name
	case *ast.SelectorExpr:
		return gefRootIdent(x.X)
	case *ast.IndexExpr:
		return gefRootIdent(x.X)
	case *ast.ParenExpr:
		return gefRootIdent(x.X)
	case *ast.StarExpr:
		return "*"
	}
	return ""
}

// gefMutMethod: some translated method of that name stores into its receiver
func gefMutMethod(name string) bool {
	for k, g := range gefFuncs {
		if strings.HasSuffix(k, "."+name) && g.mut {
			return true
		}
	}
	return false
}

// gefAssignedNames collects the names stored into and the names declared inside the nodes
func gefAssignedNames(nodes ...ast.Node) (assigned, declared map[string]bool) {
	assigned, declared = map[string]bool{}, map[string]bool{}
	for _, n := range nodes {
		if n == nil {
			continue
		}
		ast.Inspect(n, func(m ast.Node) bool {
			switch s := m.(type) {
			case *ast.AssignStmt:
				for _, l := range s.Lhs {
					if s.Tok == token.DEFINE {
						declared[gefRootIdent(l)] = true
					} else {
						assigned[gefRootIdent(l)] = true
					}
				}
			case *ast.IncDecStmt:
				assigned[gefRootIdent(s.X)] = true
			case *ast.RangeStmt:
				if s.Key != nil {
					declared[gefRootIdent(s.Key)] = true
				}
				if s.Value != nil {
					declared[gefRootIdent(s.Value)] = true
				}
			case *ast.ValueSpec:
				for _, id := range s.Names {
					declared[id.Name] = true
				}
			case *ast.CallExpr:
				if se, ok := s.Fun.(*ast.SelectorExpr); ok && gefMutMethod(se.Sel.Name) {
					assigned[gefRootIdent(se.X)] = true
				}
				if se, ok := s.Fun.(*ast.SelectorExpr); ok && gefWriterNames[gefRootIdent(se.X)] && (se.Sel.Name == "Write" || se.Sel.Name == "Flush") {
					assigned[gefRootIdent(se.X)] = true
				}
			}
			return true
		})
	}
	delete(declared, "_")
	delete(assigned, "_")
	return
}

// assigned: the variables of c stored into inside the nodes, in context order
func (t *gefTr) assigned(c gefCtx, nodes ...ast.Node) []gefVar {
	as, decl := gefAssignedNames(nodes...)
	var out []gefVar
	seen := map[string]bool{}
	var at ast.Node
	for _, n := range nodes {
		if n != nil {
			at = n
			break
		}
	}
	for i := len(c.vars) - 1; i >= 0; i-- {
		v := c.vars[i]
		if seen[v.name] {
			continue
		}
		seen[v.name] = true
		if as[v.name] {
			if decl[v.name] {
				t.fail(at, "the variable %s is stored into in a block that also declares a variable of that name", v.name)
			}
			out = append([]gefVar{v}, out...)
		}
	}
	if as["*"] {
		t.fail(at, "store through a pointer")
	}
	return out
}

func gefCoqNames(vs []gefVar) []string {
	var out []string
	for _, v := range vs {
		out = append(out, v.coq)
	}
	return out
}

func gefCoqTypes(vs []gefVar) []string {
	var out []string
	for _, v := range vs {
		out = append(out, v.ty.coq())
	}
	return out
}

// scope: the position in c.vars where the innermost block begins is kept in a variable named "{"
func gefOpen(c gefCtx) gefCtx {
	r := c
	r.vars = append(append([]gefVar{}, c.vars...), gefVar{name: "{"})
	return r
}

func (c gefCtx) inScope(name string) (gefVar, bool) {
	for i := len(c.vars) - 1; i >= 0; i-- {
		if c.vars[i].name == "{" {
			break
		}
		if c.vars[i].name == name {
			return c.vars[i], true
		}
	}
	return gefVar{}, false
}

// declare introduces a variable of the innermost block; one that shadows an outer variable gets a fresh Coq name
func (t *gefTr) declare(n ast.Node, c *gefCtx, name string, ty *gefT) string {
	if name == "_" {
		return "_"
	}
	coq := "v_" + name
	if _, ok := c.lookup(name); ok {
		k := 2
		for {
			coq = fmt.Sprintf("v_%s_%d", name, k)
			used := false
			for _, v := range c.vars {
				if v.coq == coq {
					used = true
				}
			}
			if !used {
				break
			}
			k++
		}
	}
	c.vars = append(append([]gefVar{}, c.vars...), gefVar{name, coq, ty})
	if ty.k == "csvw" {
		gefWriterNames[name] = true
	}
	return coq
}

// store translates lhs = val
func (t *gefTr) store(lhs ast.Expr, val string, tv *gefT, c *gefCtx, pre *[]string) {
	switch x := lhs.(type) {
	case *ast.ParenExpr:
		t.store(x.X, val, tv, c, pre)
		return
	case *ast.Ident:
		if x.Name == "_" {
			return
		}
		v, ok := c.lookup(x.Name)
		if !ok {
			t.fail(lhs, "store into something that is not a variable: %s", x.Name)
			return
		}
		if tv.k == "ptr" && tv.el.k == "struct" {
			t.fail(lhs, "a struct pointer is copied: %s", t.src(lhs))
		}
		*pre = append(*pre, fmt.Sprintf("let %s := %s in", v.coq, t.coerce(lhs, val, tv, v.ty)))
		return
	case *ast.SelectorExpr:
		s, ty := t.expr(x.X, *c, pre)
		if ty.k == "struct" {
			st := gefStructTab[ty.sname]
			if fty, ok := st.field(x.Sel.Name); ok {
				t.store(x.X, fmt.Sprintf("(gef_%s_set_%s %s %s)", st.name, x.Sel.Name, s, t.coerce(lhs, val, tv, fty)), ty, c, pre)
				return
			}
		}
	case *ast.IndexExpr:
		s, ty := t.expr(x.X, *c, pre)
		if ty.k == "map" {
			k, tk := t.expr(x.Index, *c, pre)
			if tk.k == "string" {
				t.store(x.X, fmt.Sprintf("(gef_map_set %s %s %s)", s, k, t.coerce(lhs, val, tv, ty.el)), ty, c, pre)
				return
			}
		}
		if ty.k == "slice" {
			i, ti := t.expr(x.Index, *c, pre)
			if ti.isNum() {
				v := t.tmp()
				*pre = append(*pre, fmt.Sprintf("do %s <- gef_update %s %s %s;", v, s, i, t.coerce(lhs, val, tv, ty.el)))
				t.store(x.X, v, ty, c, pre)
				return
			}
		}
	}
	t.fail(lhs, "store outside the scheme: %s", t.src(lhs))
}

// bind gives the value (text, type) to the left-hand side of := or =
func (t *gefTr) bind(st *ast.AssignStmt, lhs ast.Expr, val string, tv *gefT, c *gefCtx, pre *[]string) {
	if st.Tok == token.DEFINE {
		id, ok := lhs.(*ast.Ident)
		if !ok {
			t.fail(st, "declaration of something that is not an identifier")
			return
		}
		if id.Name == "_" {
			return
		}
		if v, ok := c.inScope(id.Name); ok { // redeclared in the same block: an assignment
			*pre = append(*pre, fmt.Sprintf("let %s := %s in", v.coq, t.coerce(lhs, val, tv, v.ty)))
			return
		}
		ty := tv
		switch tv.k {
		case "const":
			ty = gefK("int")
		case "nil", "bad":
			if tv.k == "nil" {
				t.fail(st, "declaration from nil")
			}
			return
		}
		name := t.declare(st, c, id.Name, ty)
		*pre = append(*pre, fmt.Sprintf("let %s := %s in", name, val))
		return
	}
	t.store(lhs, val, tv, c, pre)
}

// simple translates a statement without control flow into lines that end in "in" or ";"
func (t *gefTr) simple(st ast.Stmt, c *gefCtx) ([]string, bool) {
	var pre []string
	switch x := st.(type) {
	case *ast.ExprStmt:
		ce, ok := x.X.(*ast.CallExpr)
		if !ok {
			return nil, false
		}
		t.call(ce, *c, &pre, true)
		return pre, true
	case *ast.IncDecStmt:
		s, ty := t.expr(x.X, *c, &pre)
		if ty.k != "int" {
			t.fail(st, "++ / -- on something that is not an int")
		}
		op := "+"
		if x.Tok == token.DEC {
			op = "-"
		}
		t.store(x.X, fmt.Sprintf("(%s %s 1)", s, op), ty, c, &pre)
		return pre, true
	case *ast.DeclStmt:
		gd, ok := x.Decl.(*ast.GenDecl)
		if !ok || gd.Tok != token.VAR {
			return nil, false
		}
		for _, sp := range gd.Specs {
			vs := sp.(*ast.ValueSpec)
			if vs.Type == nil || len(vs.Values) != 0 {
				t.fail(st, "var declaration outside the scheme")
				continue
			}
			ty := t.resolve(vs.Type)
			z, ok := ty.zero()
			if !ok {
				t.fail(st, "no zero value for %s", ty.name())
			}
			for _, id := range vs.Names {
				name := t.declare(st, c, id.Name, ty)
				pre = append(pre, fmt.Sprintf("let %s := (%s : %s) in", name, z, ty.coq()))
			}
		}
		return pre, true
	case *ast.AssignStmt:
		if x.Tok != token.DEFINE && x.Tok != token.ASSIGN {
			t.fail(st, "assignment operator outside the scheme")
			return pre, true
		}
		if len(x.Rhs) == 1 {
			switch r := x.Rhs[0].(type) {
			case *ast.CallExpr:
				if id, ok := r.Fun.(*ast.Ident); ok && id.Name == "append" {
					if _, isVar := c.lookup("append"); !isVar {
						if len(x.Lhs) == 1 && len(r.Args) == 2 && x.Tok == token.ASSIGN && r.Ellipsis.IsValid() {
							// X = append(make([]T, 0, c), Y...): a fresh array holding the elements of Y
							if mk, ok := r.Args[0].(*ast.CallExpr); ok && t.src(mk.Fun) == "make" && len(mk.Args) == 3 && t.src(mk.Args[1]) == "0" {
								if id, isId := x.Lhs[0].(*ast.Ident); isId {
									m, tm := t.expr(mk, *c, &pre)
									y, ty := t.expr(r.Args[1], *c, &pre)
									if tm.k != "slice" || !tm.same(ty) {
										t.fail(st, "copy of a slice outside the scheme: %s", t.src(st))
										return pre, true
									}
									t.store(x.Lhs[0], fmt.Sprintf("(%s ++ %s)", m, y), tm, c, &pre)
									if t.fresh == nil {
										t.fresh = map[string]bool{}
									}
									t.fresh[id.Name] = true
									return pre, true
								}
							}
						}
						if len(x.Lhs) != 1 || len(r.Args) != 2 || x.Tok != token.ASSIGN || t.src(x.Lhs[0]) != t.src(r.Args[0]) {
							t.fail(st, "append outside the form X = append(X, e)")
							return pre, true
						}
						s, ty := t.expr(r.Args[0], *c, &pre)
						e, te := t.expr(r.Args[1], *c, &pre)
						if ty.k == "string" {
							if r.Ellipsis.IsValid() {
								t.store(x.Lhs[0], fmt.Sprintf("(%s ++ %s)", s, t.coerce(r.Args[1], e, te, ty)), ty, c, &pre)
							} else {
								t.store(x.Lhs[0], fmt.Sprintf("(%s ++ [%s])", s, t.coerce(r.Args[1], e, te, gefK("byte"))), ty, c, &pre)
							}
							return pre, true
						}
						if ty.k != "slice" {
							t.fail(st, "append to something that is not a slice")
							return pre, true
						}
						if r.Ellipsis.IsValid() {
							t.store(x.Lhs[0], fmt.Sprintf("(%s ++ %s)", s, t.coerce(r.Args[1], e, te, ty)), ty, c, &pre)
						} else {
							t.store(x.Lhs[0], fmt.Sprintf("(%s ++ [%s])", s, t.coerce(r.Args[1], e, te, ty.el)), ty, c, &pre)
						}
						return pre, true
					}
				}
				rs, tys := t.call(r, *c, &pre, true)
				if len(rs) != len(x.Lhs) {
					t.fail(st, "%d values for %d places", len(rs), len(x.Lhs))
					return pre, true
				}
				for i := range rs {
					t.bind(x, x.Lhs[i], rs[i], tys[i], c, &pre)
				}
				return pre, true
			case *ast.IndexExpr:
				if len(x.Lhs) == 2 {
					m, tm := t.expr(r.X, *c, &pre)
					k, tk := t.expr(r.Index, *c, &pre)
					if tm.k != "map" || tk.k != "string" {
						t.fail(st, "v, ok := x[k] on something that is not a map")
						return pre, true
					}
					z, _ := tm.el.zero()
					a, b := t.tmp(), t.tmp()
					pre = append(pre, fmt.Sprintf("let '(%s, %s) := gef_map_get2 %s %s %s in", a, b, z, m, k))
					t.bind(x, x.Lhs[0], a, tm.el, c, &pre)
					t.bind(x, x.Lhs[1], b, gefK("bool"), c, &pre)
					return pre, true
				}
			case *ast.TypeAssertExpr:
				if len(x.Lhs) == 2 && r.Type != nil {
					s, ts := t.expr(r.X, *c, &pre)
					ty := t.resolve(r.Type)
					if ts.k != "anycol" || ty.k != "struct" || ty.sname != "Column" {
						t.fail(st, "type assertion outside the scheme: %s", t.src(r))
						return pre, true
					}
					a, b := t.tmp(), t.tmp()
					pre = append(pre, fmt.Sprintf("let '(%s, %s) := gef_as_Column %s in", a, b, s))
					t.bind(x, x.Lhs[0], a, ty, c, &pre)
					t.bind(x, x.Lhs[1], b, gefK("bool"), c, &pre)
					return pre, true
				}
			}
		}
		if len(x.Lhs) != len(x.Rhs) {
			t.fail(st, "assignment outside the scheme: %s", t.src(st))
			return pre, true
		}
		var vals []string
		var tys []*gefT
		for _, r := range x.Rhs {
			s, ty := t.expr(r, *c, &pre)
			if len(x.Rhs) > 1 {
				v := t.tmp()
				pre = append(pre, fmt.Sprintf("let %s := %s in", v, s))
				s = v
			}
			vals, tys = append(vals, s), append(tys, ty)
		}
		for i := range vals {
			if _, isSel := x.Lhs[i].(*ast.SelectorExpr); isSel {
				t.sharedArgument(x.Rhs[i], tys[i])
			}
			t.bind(x, x.Lhs[i], vals[i], tys[i], c, &pre)
		}
		return pre, true
	}
	return nil, false
}

// ------------------------------------------------------------------ control flow

func gefJoin(lines []string, last string) string {
	return strings.Join(append(append([]string{}, lines...), last), "\n")
}

// gefEscapes: a return anywhere inside, or a continue that belongs to an enclosing loop
func gefEscapes(n ast.Node) bool {
	found := false
	var walk func(m ast.Node, inLoop bool)
	walk = func(m ast.Node, inLoop bool) {
		ast.Inspect(m, func(k ast.Node) bool {
			if found || k == nil {
				return false
			}
			switch s := k.(type) {
			case *ast.ReturnStmt:
				found = true
			case *ast.BranchStmt:
				if !inLoop {
					found = true
				}
			case *ast.RangeStmt:
				if k != m {
					walk(s.Body, true)
					return false
				}
			case *ast.ForStmt:
				if k != m {
					walk(s.Body, true)
					return false
				}
			}
			return !found
		})
	}
	walk(n, false)
	return found
}

func gefContainsReturn(n ast.Node) bool {
	found := false
	ast.Inspect(n, func(m ast.Node) bool {
		if _, ok := m.(*ast.ReturnStmt); ok {
			found = true
		}
		return !found
	})
	return found
}

func gefRestrict(outer gefCtx) gefCtx { return outer }

// outVals: the final state of the io.Writer arguments; once a csv.Writer was laid over it, the writer underneath it
func (t *gefTr) outVals(c gefCtx) []string {
	var out []string
	for _, o := range t.f.outs {
		val := o.coq
		for _, v := range gefFlatVars(c) {
			if v.ty.k == "csvw" {
				val = fmt.Sprintf("(csvw_underlying %s)", v.coq)
			}
		}
		out = append(out, val)
	}
	return out
}

func (t *gefTr) ret(x *ast.ReturnStmt, c gefCtx) string {
	var pre []string
	var vals []string
	if len(x.Results) != len(t.f.results) {
		t.fail(x, "return with %d values (the function has %d results)", len(x.Results), len(t.f.results))
		return "Panic"
	}
	plain := func(e ast.Expr) bool {
		switch e.(type) {
		case *ast.Ident, *ast.BasicLit:
			return true
		}
		return false
	}
	for i, r := range x.Results {
		var s string
		var ty *gefT
		others := true
		for j, o := range x.Results {
			if j != i && !plain(o) {
				others = false
			}
		}
		if ce, ok := r.(*ast.CallExpr); ok && t.src(ce.Fun) == "append" && len(x.Results) == 1 && len(ce.Args) == 2 {
			// return append(X, e): the result is handed to the caller, X is not used again
			a, ta := t.expr(ce.Args[0], c, &pre)
			e, te := t.expr(ce.Args[1], c, &pre)
			switch {
			case ta.k == "string" && ce.Ellipsis.IsValid():
				s, ty = fmt.Sprintf("(%s ++ %s)", a, t.coerce(ce.Args[1], e, te, ta)), ta
			case ta.k == "string":
				s, ty = fmt.Sprintf("(%s ++ [%s])", a, t.coerce(ce.Args[1], e, te, gefK("byte"))), ta
			default:
				t.fail(r, "append outside the scheme: %s", t.src(r))
				return "Panic"
			}
		} else if ce, ok := r.(*ast.CallExpr); ok && others {
			// the only value that is not a variable or a literal: a method storing into its receiver may stand here
			rs, tys := t.call(ce, c, &pre, true)
			if len(rs) != 1 {
				t.fail(r, "a call with %d results as one returned value", len(rs))
				return "Panic"
			}
			s, ty = rs[0], tys[0]
		} else {
			s, ty = t.expr(r, c, &pre)
		}
		vals = append(vals, t.coerce(r, s, ty, t.f.results[i]))
	}
	if t.f.mut {
		vals = append(vals, t.f.recv.coq)
	}
	vals = append(vals, t.outVals(c)...)
	return gefJoin(pre, "Ok "+gefTuple(vals))
}

func (t *gefTr) stmts(list []ast.Stmt, c gefCtx, k func(gefCtx) string) string {
	if len(list) == 0 {
		return k(c)
	}
	st, rest := list[0], list[1:]
	cont := func(c2 gefCtx) string { return t.stmts(rest, c2, k) }
	if lines, ok := t.simple(st, &c); ok {
		return gefJoin(lines, cont(c))
	}
	switch x := st.(type) {
	case *ast.ReturnStmt:
		if len(rest) != 0 {
			t.fail(st, "statements after return")
		}
		return t.ret(x, c)
	case *ast.BranchStmt:
		if x.Tok != token.CONTINUE || x.Label != nil || c.next == nil {
			t.fail(st, "branch statement outside the scheme: %s", t.src(st))
			return "Panic"
		}
		if len(rest) != 0 {
			t.fail(st, "statements after continue")
		}
		return c.next(c)
	case *ast.IfStmt:
		return t.ifStmt(x, c, cont)
	case *ast.RangeStmt:
		return t.rangeStmt(x, c, cont)
	case *ast.ForStmt:
		return t.forStmt(x, c, cont)
	case *ast.BlockStmt:
		return t.stmts(x.List, gefOpen(c), func(c2 gefCtx) string { return cont(gefRestrict(c)) })
	}
	t.fail(st, "statement outside the scheme: %s", strings.SplitN(t.src(st), "\n", 2)[0])
	return "Panic"
}

func gefElse(x *ast.IfStmt) ([]ast.Stmt, bool) {
	switch e := x.Else.(type) {
	case nil:
		return nil, true
	case *ast.BlockStmt:
		return e.List, true
	case *ast.IfStmt:
		return []ast.Stmt{e}, true
	}
	return nil, false
}

func (t *gefTr) ifStmt(x *ast.IfStmt, c gefCtx, cont func(gefCtx) string) string {
	els, ok := gefElse(x)
	if !ok {
		t.fail(x, "else outside the scheme")
		return "Panic"
	}
	if t.nilNormalisation(x, c) {
		return "(* " + gefCommentSafe(strings.Join(strings.Fields(t.src(x)), " ")) + ": nil and the empty slice are the same list *)\n" + cont(c)
	}
	ci := gefOpen(c)
	var lines []string
	if x.Init != nil {
		l, ok := t.simple(x.Init, &ci)
		if !ok {
			t.fail(x, "init statement outside the scheme")
			return "Panic"
		}
		lines = append(lines, l...)
	}
	cond, ty := t.expr(x.Cond, ci, &lines)
	t.coerce(x.Cond, cond, ty, gefK("bool"))
	if gefEscapes(x) {
		memo, have := "", false
		back := func(c2 gefCtx) string {
			if !have {
				memo, have = cont(gefRestrict(c)), true
			}
			return memo
		}
		// the init statement may have stored into outer variables: their Coq names are rebound by the lines above
		a := t.stmts(x.Body.List, gefOpen(ci), back)
		b := t.stmts(els, gefOpen(ci), back)
		return gefJoin(lines, fmt.Sprintf("if %s then\n%s\nelse\n%s", cond, gefIndent(a), gefIndent(b)))
	}
	res := t.assigned(c, x.Body, x.Else)
	inner := ci
	inner.top = false
	exit := func(c2 gefCtx) string { return "Ok " + gefTuple(gefCoqNames(res)) }
	a := t.stmts(x.Body.List, gefOpen(inner), exit)
	b := t.stmts(els, gefOpen(inner), exit)
	line := fmt.Sprintf("do %s <- (\n  if %s then\n%s\n  else\n%s);", gefPat(gefCoqNames(res)), cond, gefIndent(gefIndent(a)), gefIndent(gefIndent(b)))
	return gefJoin(lines, line+"\n"+cont(gefRestrict(c)))
}

// nilNormalisation recognises  if X == nil { X = make([]T, 0) }  for a slice variable X
func (t *gefTr) nilNormalisation(x *ast.IfStmt, c gefCtx) bool {
	if x.Init != nil || x.Else != nil || len(x.Body.List) != 1 {
		return false
	}
	be, ok := x.Cond.(*ast.BinaryExpr)
	if !ok || be.Op != token.EQL || t.src(be.Y) != "nil" {
		return false
	}
	id, ok := be.X.(*ast.Ident)
	if !ok {
		return false
	}
	v, ok := c.lookup(id.Name)
	if !ok || v.ty.k != "slice" {
		return false
	}
	as, ok := x.Body.List[0].(*ast.AssignStmt)
	if !ok || as.Tok != token.ASSIGN || len(as.Lhs) != 1 || len(as.Rhs) != 1 || t.src(as.Lhs[0]) != id.Name {
		return false
	}
	ce, ok := as.Rhs[0].(*ast.CallExpr)
	if !ok || t.src(ce.Fun) != "make" || len(ce.Args) != 2 || t.src(ce.Args[1]) != "0" {
		return false
	}
	return gefResolveText(t.src(ce.Args[0])).same(v.ty)
}

// every variable of the context, latest declaration of each Go name
func gefFlatVars(c gefCtx) []gefVar {
	var out []gefVar
	seen := map[string]bool{}
	for i := len(c.vars) - 1; i >= 0; i-- {
		v := c.vars[i]
		if v.name == "{" || seen[v.name] {
			continue
		}
		seen[v.name] = true
		out = append([]gefVar{v}, out...)
	}
	return out
}

// loop emits the fixpoint for a loop over the list xs (element type el); keyStart "" = no position variable
func (t *gefTr) loop(x ast.Stmt, body *ast.BlockStmt, c gefCtx, cont func(gefCtx) string, xs string, el string, keyGo, keyStart, valGo string, valTy *gefT) string {
	bodyC := gefOpen(c)
	bodyC.top = false
	keyName, valName := "", "_"
	if keyGo != "" && keyGo != "_" {
		keyName = t.declare(x, &bodyC, keyGo, gefK("int"))
	}
	if valGo != "" && valGo != "_" {
		valName = t.declare(x, &bodyC, valGo, valTy)
	}
	hasRet := gefContainsReturn(body)
	res := t.assigned(c, body)
	if hasRet && !c.top {
		t.fail(x, "a loop with a return inside that is not at the top level of the function")
	}
	const hole = "@LOOPARGS@"
	next := func(c2 gefCtx) string {
		call := "loop l'"
		if keyName != "" {
			call += " (" + keyName + " + 1)"
		}
		return call + hole
	}
	bodyC.next = next
	bodyText := t.stmts(body.List, bodyC, next)
	var exit, rty string
	if hasRet {
		exit = cont(c)
		rty = t.resultType()
	} else {
		exit = "Ok " + gefTuple(gefCoqNames(res))
		rty = gefTypeTuple(gefCoqTypes(res))
	}
	var params []gefVar
	isRes := map[string]bool{}
	for _, v := range res {
		isRes[v.coq] = true
	}
	for _, v := range gefFlatVars(c) {
		if isRes[v.coq] || gefMentions(bodyText, v.coq) || gefMentions(exit, v.coq) {
			params = append(params, v)
		}
	}
	args, sig, tys := "", "", ""
	for _, v := range params {
		args += " " + v.coq
		sig += fmt.Sprintf(" (%s : %s)", v.coq, v.ty.coq())
		tys += v.ty.coq() + " -> "
	}
	bodyText = strings.ReplaceAll(bodyText, hole, args)
	t.nloops++
	name := fmt.Sprintf("%s_loop%d", t.f.coq, t.nloops)
	keySig, keyTy, keyArg := "", "", ""
	if keyName != "" {
		keySig, keyTy, keyArg = " ("+keyName+" : Z)", "Z -> ", " "+keyStart
	}
	var b strings.Builder
	fmt.Fprintf(&b, "Definition %s : list %s -> %s%soutcome %s :=\n", name, el, keyTy, tys, rty)
	fmt.Fprintf(&b, "  fix loop (l : list %s)%s%s {struct l} : outcome %s :=\n", el, keySig, sig, rty)
	fmt.Fprintf(&b, "  match l with\n  | [] =>\n%s\n  | %s :: l' =>\n%s\n  end.\n", gefIndent(gefIndent(exit)), valName, gefIndent(gefIndent(bodyText)))
	t.loops = append(t.loops, b.String())
	call := name + " " + xs + keyArg + args
	if hasRet {
		return call
	}
	return fmt.Sprintf("do %s <- %s;\n%s", gefPat(gefCoqNames(res)), call, cont(c))
}

func (t *gefTr) rangeStmt(x *ast.RangeStmt, c gefCtx, cont func(gefCtx) string) string {
	if x.Tok != token.DEFINE {
		t.fail(x, "range without :=")
		return "Panic"
	}
	var pre []string
	xs, tx := t.expr(x.X, c, &pre)
	xs, tx = gefAsSlice(xs, tx)
	if tx.k != "slice" {
		t.fail(x, "range over something that is not a slice: %s", t.src(x.X))
		return "Panic"
	}
	name := func(n ast.Expr) string {
		if n == nil {
			return ""
		}
		id, ok := n.(*ast.Ident)
		if !ok {
			t.fail(x, "range variable that is not an identifier")
			return "_"
		}
		return id.Name
	}
	k, v := name(x.Key), name(x.Value)
	if v != "" && v != "_" {
		as, _ := gefAssignedNames(x.Body)
		if r := gefRootIdent(x.X); r != "" && as[r] {
			t.fail(x, "the body stores into the slice it ranges over by value")
		}
	}
	as, _ := gefAssignedNames(x.Body)
	if k != "" && as[k] || v != "" && as[v] {
		t.fail(x, "the body stores into a range variable")
	}
	return gefJoin(pre, t.loop(x, x.Body, c, cont, xs, tx.el.coq(), k, "0", v, tx.el))
}

// forStmt: for i := a; i < b; i++ { body } with i and the variables of b not stored into by the body
func (t *gefTr) forStmt(x *ast.ForStmt, c gefCtx, cont func(gefCtx) string) string {
	init, ok1 := x.Init.(*ast.AssignStmt)
	cond, ok2 := x.Cond.(*ast.BinaryExpr)
	post, ok3 := x.Post.(*ast.IncDecStmt)
	if !ok1 || !ok2 || !ok3 || init.Tok != token.DEFINE || len(init.Lhs) != 1 || len(init.Rhs) != 1 || cond.Op != token.LSS || post.Tok != token.INC {
		t.fail(x, "for header outside the form  i := a; i < b; i++")
		return "Panic"
	}
	id, ok := init.Lhs[0].(*ast.Ident)
	if !ok || t.src(cond.X) != id.Name || t.src(post.X) != id.Name || id.Name == "_" {
		t.fail(x, "for header outside the form  i := a; i < b; i++")
		return "Panic"
	}
	var pre []string
	a, ta := t.expr(init.Rhs[0], c, &pre)
	b, tb := t.expr(cond.Y, c, &pre)
	if !(ta.k == "int" || ta.k == "const") || tb.k != "int" {
		t.fail(x, "for bounds that are not of type int")
		return "Panic"
	}
	as, _ := gefAssignedNames(x.Body)
	if as[id.Name] {
		t.fail(x, "the body stores into the loop counter")
	}
	bad := false
	ast.Inspect(cond.Y, func(m ast.Node) bool {
		if i, ok := m.(*ast.Ident); ok && as[i.Name] {
			bad = true
		}
		if ce, ok := m.(*ast.CallExpr); ok && t.src(ce.Fun) != "len" {
			se, isSel := ce.Fun.(*ast.SelectorExpr)
			if !isSel || len(ce.Args) != 0 || as[gefRootIdent(se.X)] {
				bad = true
			}
		}
		return true
	})
	if bad {
		t.fail(x, "the body stores into a variable of the loop bound (or the bound is a call)")
	}
	return gefJoin(pre, t.loop(x, x.Body, c, cont, fmt.Sprintf("(gef_count %s %s)", a, b), "unit", id.Name, a, "", nil))
}

// ------------------------------------------------------------------ functions

func (t *gefTr) resultType() string {
	var parts []string
	for _, r := range t.f.results {
		parts = append(parts, r.coq())
	}
	if t.f.mut {
		parts = append(parts, t.f.recv.ty.coq())
	}
	for _, o := range t.f.outs {
		parts = append(parts, o.ty.coq())
	}
	return gefTypeTuple(parts)
}

func gefCoqName(fn string) string { return "gef_" + strings.ReplaceAll(fn, ".", "_") }

func gefSignature(p *pkgInfo, f *gefFunc) bool {
	t := &gefTr{p: p, f: f}
	fd := f.fd
	if fd.Recv != nil {
		if len(fd.Recv.List) != 1 || len(fd.Recv.List[0].Names) != 1 {
			t.fail(fd, "receiver outside the scheme")
			return false
		}
		ty := t.resolve(fd.Recv.List[0].Type)
		name := fd.Recv.List[0].Names[0].Name
		isPtr := false
		if ty.k == "ptr" && ty.el.k == "struct" {
			ty, isPtr = ty.el, true
		}
		if ty.k != "struct" {
			t.fail(fd, "receiver that is not a struct or a pointer to one")
			return false
		}
		f.recv = &gefVar{name, "v_" + name, ty}
		as, decl := gefAssignedNames(fd.Body)
		if as[name] {
			if decl[name] {
				t.fail(fd, "the receiver is shadowed and stored into")
			}
			if !isPtr {
				t.fail(fd, "a value receiver is stored into")
			}
			f.mut = true
		}
	}
	for _, fl := range fd.Type.Params.List {
		var ty *gefT
		if ell, isEll := fl.Type.(*ast.Ellipsis); isEll {
			if t.src(ell.Elt) != "csv.ToConfigFunc" {
				t.fail(fd, "variadic argument outside the scheme")
				return false
			}
			ty = gefK("conffuncs")
		} else {
			ty = t.resolve(fl.Type)
		}
		for _, n := range fl.Names {
			f.params = append(f.params, gefVar{n.Name, "v_" + n.Name, ty})
			if ty.k == "writer" {
				f.outs = append(f.outs, gefVar{n.Name, "v_" + n.Name, ty})
			}
		}
		if len(fl.Names) == 0 {
			t.fail(fd, "parameter without name")
		}
	}
	if fd.Type.Results != nil {
		for _, fl := range fd.Type.Results.List {
			if len(fl.Names) != 0 {
				t.fail(fd, "named result")
			}
			f.results = append(f.results, t.resolve(fl.Type))
		}
	}
	return !t.bad
}

func gefSource(p *pkgInfo, fd *ast.FuncDecl) string {
	cp := *fd
	cp.Doc = nil
	return gefCommentSafe(gefSrc(p.fset, &cp))
}

func gefTranslate(p *pkgInfo, f *gefFunc) {
	t := &gefTr{p: p, f: f}
	gefWriterNames = map[string]bool{}
	for _, o := range f.outs {
		gefWriterNames[o.name] = true
	}
	c := gefCtx{top: true}
	var sig []string
	if f.recv != nil {
		c.vars = append(c.vars, *f.recv)
		sig = append(sig, fmt.Sprintf("(%s : %s)", f.recv.coq, f.recv.ty.coq()))
	}
	for _, v := range f.params {
		if v.name == "_" {
			sig = append(sig, fmt.Sprintf("(_ : %s)", v.ty.coq()))
			continue
		}
		c.vars = append(c.vars, v)
		sig = append(sig, fmt.Sprintf("(%s : %s)", v.coq, v.ty.coq()))
	}
	body := t.stmts(f.fd.Body.List, gefOpen(c), func(c2 gefCtx) string {
		if len(f.results) != 0 {
			t.fail(f.fd, "the function can fall off its end")
			return "Panic"
		}
		var vals []string
		if f.mut {
			vals = append(vals, f.recv.coq)
		}
		vals = append(vals, t.outVals(c2)...)
		return "Ok " + gefTuple(vals)
	})
	var b strings.Builder
	fmt.Fprintf(&b, "(* %s\n%s *)\n", f.pkg, gefSource(p, f.fd))
	for _, l := range t.loops {
		b.WriteString(l)
	}
	sep := " "
	if len(sig) == 0 {
		sep = ""
	}
	fmt.Fprintf(&b, "Definition %s%s%s : outcome %s :=\n%s.\n", f.coq, sep, strings.Join(sig, " "), t.resultType(), gefIndent(body))
	f.text = b.String()
	f.ok = !t.bad
}

func genEnumFac() string {
	gefFuncs = map[string]*gefFunc{}
	p := loadPkg(gefPkg)
	gefGroup = "ecolumn"
	gefStructTab = nil
	gefLoadStructs(p, gefStructs, gefPkg)
	golden := ""
	if fl := flag.Lookup("golden"); fl != nil && fl.Value.String() != "" {
		if gb, err := os.ReadFile(filepath.Join(fl.Value.String(), "GenEnumFac.v")); err == nil {
			golden = string(gb)
		}
	}
	var b strings.Builder
	b.WriteString(gefPreamble1)
	block := func(name, text string, ok bool) {
		if !ok {
			old, found := gefGoldenBlock(golden, name)
			if !found {
				return
			}
			text = "(* FALLBACK " + name + ": not derivable from the current source; text of the last validated tree *)\n" + old
		}
		fmt.Fprintf(&b, "(* BEGIN %s *)\n%s(* END %s *)\n\n", name, text, name)
	}
	for _, n := range gefStructs {
		if s, ok := gefStructTab[n]; ok {
			block("gef_"+n, s.record(), s.ok)
		} else {
			block("gef_"+n, "", false)
		}
	}
	b.WriteString(gefPreamble2)
	// the vocabulary: enumVal.isNull is used in its GenFuncs translation
	if fd, ok := p.funcs["enumVal.isNull"]; !ok || fd.Body == nil {
		problem("enum factory translation: enumVal.isNull not found in %s", gefPkg)
	}
	run := func(p *pkgInfo, fn, pkgName, group string) {
		gefGroup = group
		f := &gefFunc{fn: fn, coq: gefCoqName(fn), pkg: pkgName, group: group}
		gefFuncs[fn] = f
		fd, ok := p.funcs[fn]
		if !ok || fd.Body == nil {
			problem("enum factory translation: function %s not found in %s", fn, pkgName)
		} else {
			f.fd = fd
			if gefSignature(p, f) {
				gefTranslate(p, f)
			}
		}
		f.done = true
		if !f.ok && f.text != "" {
			f.text = ""
		}
		block(f.coq, f.text, f.ok)
		if !f.ok {
			// callers still see the golden text: mark the function as present when a fallback exists
			if _, found := gefGoldenBlock(golden, f.coq); found {
				f.text = "fallback"
			}
		}
	}
	for _, fn := range gefSpecs {
		run(p, fn, gefPkg, "ecolumn")
	}
	// the JSON rendering of an enum cell, with the string escaper as the abstraction boundary
	if fd, ok := loadPkg("internal/strings").funcs["AppendQuotedString"]; !ok || fd.Body == nil {
		problem("enum factory translation: AppendQuotedString not found in internal/strings")
	}
	b.WriteString(gekPreamble)
	for _, fn := range gekSpecs {
		run(p, fn, gefPkg, "ecolumnR")
	}
	b.WriteString("End GenEnumRender.\n\n")
	// the second group
	root := loadPkg(gejPkg)
	gefGroup = "qframe"
	gefLoadStructs(root, gejStructs, "qframe")
	found := false
	for _, f := range root.files {
		for _, d := range f.Decls {
			if gd, ok := d.(*ast.GenDecl); ok && gd.Tok == token.TYPE {
				for _, sp := range gd.Specs {
					ts := sp.(*ast.TypeSpec)
					if ts.Name.Name == "namedColumn" {
						found = true
						if gefSrc(root.fset, ts.Type) != gejNamedColumn {
							problem("enum factory translation: type namedColumn is not the text the fixed vocabulary of the translation stands for")
						}
					}
				}
			}
		}
	}
	if !found {
		problem("enum factory translation: type namedColumn not found")
	}
	if fd, ok := loadPkg("internal/strings").funcs["QuotedBytes"]; !ok || fd.Body == nil {
		problem("enum factory translation: QuotedBytes not found in internal/strings")
	}
	b.WriteString(gejPreamble)
	for _, n := range gejStructs {
		if s, ok := gefStructTab[n]; ok {
			block("gef_"+n, s.record(), s.ok)
		} else {
			block("gef_"+n, "", false)
		}
	}
	for _, fn := range gejSpecs {
		run(root, fn, "qframe", "qframe")
	}
	b.WriteString("End GenSerializers.\n")
	for _, n := range gejStructs {
		if s, ok := gefStructTab[n]; ok {
			fmt.Fprintf(&b, "Arguments gef_mk_%s {C}.\n", n)
			for _, f := range s.fields {
				fmt.Fprintf(&b, "Arguments gef_%s_%s {C}.\n", n, f.name)
			}
		}
	}
	return b.String()
}
