package main

// genEnumFac: placeholder until the translation of this part of the library is written (an empty generated file).
func genEnumFac() string { return "" }
