package main

// genViews: placeholder until the translation of this part of the library is written (an empty generated file).
func genViews() string { return "" }
