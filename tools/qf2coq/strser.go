package main

// genStrSer: placeholder until the translation of this part of the library is written (an empty generated file).
func genStrSer() string { return "" }
