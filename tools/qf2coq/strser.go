package main

// Translation of the byte-level string functions of internal/strings (serialize.go: AppendQuotedString,
// convert.go: QuotedBytes, ToUpper; match.go: trimPercent, NewMatcher, the nine Matches methods) and of the like /
// ilike loops that use them (internal/scolumn regexFilter, internal/ecolumn filterLike) into Gallina
// (coq/Gen/GenStrSer.v, tie T1 for C14 / C09 / C06 / C18).
//
// The functions listed in gqSpecs are translated statement by statement into definitions gst_<name>.
// coq/Proofs/GenStrSerProofs.v proves every generated definition equal to the hand-written model the engines
// execute (Model/Json.v append_quoted_string / quoted_bytes, Model/Match.v to_upper / trim_percent / new_matcher)
// for all byte strings, all buffers, all rune maps, all strings.ToUpper / regexp.Compile and all sufficient fuel, so that an edit of these Go functions changes the generated
// text and breaks a named theorem T1_strings_<name> of coq/Properties/T1Strings.v, while the theorems of C14 /
// C18 keep talking about the model.
//
// THE SCHEME (anything that does not fit is reported through problem(...); the block then keeps the text of the
// golden copy, marked FALLBACK, so that the development still builds — the exit status says the tie is broken).
//
//	strings     string and []byte are both the Coq type bytes = list N: the VALUE of the byte sequence.  What is
//	and slices  abstracted: capacity (a slice expression beyond len is a Panic here where Go allows it up to cap;
//	            append always yields the extended value), aliasing (the string ToUpper returns shares memory with
//	            the buffer: the translation returns its value at the time of return), and nil-ness: nil is [],
//	            and x == nil is translated as emptiness gst_isnil x (exact as long as no empty non-nil slice
//	            reaches such a test; GenStrSerProofs.v proves that every value assigned to the tested variable
//	            has at least utf8.UTFMax elements).
//	              len(x) -> gst_len x; x[i] -> gst_index x i; x[a:b], x[a:], x[:b] -> gst_slice / _from / _to
//	              (Panic outside 0 <= a <= b <= len); x[i] = v -> gst_store x i v; make([]byte, n [, c]) -> gst_make n c
//	              append(x, b) -> x ++ [b]; append(x, y...) -> x ++ y; a string literal -> the list of its bytes;
//	              n = copy(dst, src) -> n := gst_copy_n dst src, dst := gst_copy dst src;
//	              a package level string constant (chars) -> Definition gst_c_<name>, generated from its literal.
//	pointers    an argument of type *[]byte is the value of the slice behind it, threaded through: *p reads it,
//	            *p = e replaces it, and its final value is answered after the results of the function.
//	numbers     int -> Z, exact (a position or a length; overflow of int is outside the translation as it is
//	            outside the model); rune -> Z (int32; it is only compared, masked, shifted right, converted and
//	            handed to the vocabulary, + - * on a rune or byte is rejected because it would have to wrap);
//	            byte -> N (the element type of bytes); an untyped constant takes the type of the other operand;
//	            byte(r) -> gst_byte r = r mod 256; a byte used as an index -> Z.of_N; x > y is (y <? x).
//	library     the vocabulary is the project's model of unicode/utf8 (Model/Utf8.v, itself checked against the
//	            real package by the strings engine) and an ARBITRARY rune map for unicode.ToUpper:
//	              utf8.RuneSelf / RuneError / UTFMax     -> rune_self / rune_error / utf_max
//	              r, w := utf8.DecodeRuneInString(x)     -> gst_DecodeRuneInString x = decode_rune x (as Z * Z)
//	              n += utf8.EncodeRune(b[off:], r)       -> b := gst_encode_at b off r (the bytes encode_rune r
//	                                                        written at off; Panic when they do not fit),
//	                                                        n := n + gst_encode_n r
//	              utf8.RuneLen(r)                        -> rune_len r
//	              for i, c := range x                    -> the list gst_range x = range_string x of (offset, rune)
//	              unicode.ToUpper(c)                     -> upper c          (upper : Z -> Z, a section variable)
//	              UnsafeBytesToString(x)                 -> x                (its body is compared with the text
//	                                                                          this stands for)
//	strings,    strings.HasPrefix / HasSuffix -> has_prefix / has_suffix and regexp.QuoteMeta -> quote_meta of
//	regexp      Model/Match.v; strings.TrimPrefix / TrimSuffix -> gst_TrimPrefix / gst_TrimSuffix (preamble);
//	            a + b on strings -> a ++ b; a == b -> bytes_eqb a b; strings.ToUpper(x) -> str_upper x (an
//	            ARBITRARY function, a section variable); r, err := regexp.Compile(x) -> r := x (a *regexp.Regexp is
//	            the text it was compiled from), err := negb (re_compile x) with re_compile : bytes -> bool
//	            ARBITRARY; err != nil -> err.
//	structs     &T{f: e, ..} where T is (a chain of `type T U` ending in) a struct of string / []byte /
//	            *regexp.Regexp fields -> the constructor gst_T e .. of the inductive gst_Matcher, which is generated
//	            from the type declarations of the literals met (all fields must be given, declaration order).
//	errors      a function with results (Matcher, error): return x, nil -> Ok x; return nil,
//	            qerrors.Propagate(.., err) -> Fail (Propagate answers a struct value, never nil).
//	methods     func (m *T) M(..) with T a struct of string / []byte / *regexp.Regexp fields: the receiver is the
//	            fields of the struct (variables m_<field>), answered back after the results; m.f reads a field;
//	            F(&m.f, ..) / F(&x, ..) for a translated F with a *[]byte argument reads the variable and rebinds it
//	            to the value F leaves behind; m.r.MatchString(s) -> re_MatchString r s (ARBITRARY).  The interface
//	            call x.Matches(s) on a Matcher variable -> gst_Matches fuel' x s, the generated dispatch over the
//	            constructors of gst_Matcher (every one must have a translated Matches); it rebinds x.
//	like loops  (internal/scolumn regexFilter, internal/ecolumn filterLike) index.Int -> list nat (row ids, only
//	            usable as argument of stringAt), index.Bool -> list bool (b[i] = v -> gst_store_bool; an argument
//	            written this way is answered like a pointer argument), the string column -> its cells
//	            list (option bytes) with s, isNull := col.stringAt(id) -> gst_stringAt (body text-matched),
//	            []string -> list bytes, for i, x := range xs -> the (position, element) pairs gst_enum xs,
//	            *bitset -> list Z with &bitset{} -> gst_bitset_zero and b.set(e) -> gf_ecolumn_bitset_set of
//	            GenFuncs.v, enumVal(i) -> i mod 256;  x, err := F(..) immediately followed by
//	            if err != nil { return [nil,] qerrors.Propagate(.., err) } -> do x <- F fuel' ..; (Fail passes
//	            through).  A variable may shadow an argument of the function that is never assigned.
//	results     every function takes (fuel : nat) first, then its arguments, and answers
//	            outcome (r1 * .. * rn * p1 * ..) — results, then the final values behind its pointer arguments.
//	            Panic = Go panic OR fuel used up.
//	fuel        gst_f fuel .. = match fuel with O => Panic | S fuel' => body end.  Inside body every three-clause
//	            for loop is entered with the budget fuel' (each entry afresh), every call of a translated function
//	            gets fuel'.  Range loops are structural and use no fuel.
//	statements  x := e; var x int; var x []byte; x = e; x op= e; x++; x--; a, b := f(..)   -> let .. in / do .. <- ..;
//	            an operation that can panic (index, slice, make, a call) is evaluated first: do tN <- ..;
//	conditions  && and || are the boolean operators; an operation that can panic may not stand to their right.
//	if          when no branch leaves the statement (no break / continue / return inside):
//	              do (assigned outer variables) <- (if c then ..; Ok (..) else ..; Ok (..)); rest
//	            otherwise the rest of the block is continued inside the branches that fall through.
//	switch      switch x { case a, b: .. default: .. } on a variable with constant cases (default last, no
//	            fallthrough, no break) is the chain if x == a || x == b { .. } else if .. else { default }.
//	for         for init; cond; post { body }: the init statement, then a Fixpoint gst_f_loopN over its own
//	            counter k (O => Panic), numbered in order of completion, taking [fuel'] k and the variables it
//	            mentions, answering the outer variables it assigns:
//	              S k' => if cond then body; post; gst_f_loopN .. k' (current values) else Ok (those)
//	            continue = post; recursive call.  break = Ok (those).
//	range       for i, c := range X { body }: a Fixpoint gst_f_loopN over l = gst_range X (evaluated once, as Go
//	            does: assigning to the ranged variable inside the body does not change the iteration), structural:
//	              [] => Ok (those) | (v_i, v_c) :: l' => body; gst_f_loopN l' (current values)
//	            i and c are fresh per iteration (assigning to them is local, as in Go).
//	rejected    return inside a loop, goto, labels, defer, closures, shadowing, maps, structs, everything else.

import (
	"bytes"
	"flag"
	"fmt"
	"go/ast"
	"go/printer"
	"go/token"
	"math/big"
	"os"
	"path/filepath"
	"strconv"
	"strings"
)

const gqPkg = "internal/strings"

// in dependency order (a callee before its callers)
var gqSpecs = []string{"AppendQuotedString", "QuotedBytes", "ToUpper", "trimPercent", "NewMatcher",
	"CIPrefixMatcher.Matches", "CISuffixMatcher.Matches", "CIContainsMatcher.Matches", "CIExactMatcher.Matches",
	"PrefixMatcher.Matches", "SuffixMatcher.Matches", "ContainsMatcher.Matches", "ExactMatcher.Matches",
	"RegexpMatcher.Matches", "internal/scolumn:regexFilter", "internal/ecolumn:filterLike"}

// the text the vocabulary of the other packages stands for
var gqForeignVocabulary = []struct{ pkg, fn, body, what string }{
	{"internal/scolumn", "Column.stringAt", "{\n\tp := c.pointers[i]\n\tif p.IsNull() {\n\t\treturn \"\", true\n\t}\n\treturn qfstrings.UnsafeBytesToString(c.data[p.Offset() : p.Offset()+p.Len()]), false\n}",
		"the cell of row i, or null"},
}

// the text the fixed vocabulary stands for (bodies printed by go/printer)
var gqVocabulary = map[string]string{
	"UnsafeBytesToString": "{\n\treturn unsafe.String(unsafe.SliceData(in), len(in))\n}",
}

const gqPreamble = `(* GENERATED by tools/qf2coq (strser.go) from internal/strings/serialize.go, convert.go and match.go of
   tobgu/qframe — do not edit.  One definition gst_<function> per translated Go function, one Fixpoint gst_<function>_loopN per
   loop; the scheme is described at the top of tools/qf2coq/strser.go.  string and []byte are bytes (the value;
   capacity and aliasing are abstracted, nil is []), int and rune are Z, byte is N; unicode/utf8 is the model
   of Model/Utf8.v, unicode.ToUpper the arbitrary rune map upper; a *[]byte argument is the value behind it,
   answered last; strings.ToUpper is the arbitrary str_upper, regexp.Compile(x) succeeds iff re_compile x, the
   structs NewMatcher builds are the constructors of gst_Matcher; every function takes fuel first: O => Panic, S fuel' => the body, whose for loops and calls
   all get fuel' (range loops are structural). *)
From QF Require Import Base.Prelude Model.Utf8 Model.Match Gen.GenFuncs.
Local Open Scope Z_scope.

(* len(x), x[i], x[a:b], x[a:], x[:b] *)
Definition gst_len (s : bytes) : Z := Z.of_nat (length s).
Definition gst_index (s : bytes) (i : Z) : outcome N :=
  if i <? 0 then Panic else idx s (Z.to_nat i).
Definition gst_slice (s : bytes) (lo hi : Z) : outcome bytes :=
  if (0 <=? lo) && (lo <=? hi) && (hi <=? gst_len s)
  then Ok (firstn (Z.to_nat (hi - lo)) (skipn (Z.to_nat lo) s)) else Panic.
Definition gst_slice_from (s : bytes) (lo : Z) : outcome bytes :=
  if (0 <=? lo) && (lo <=? gst_len s) then Ok (skipn (Z.to_nat lo) s) else Panic.
Definition gst_slice_to (s : bytes) (hi : Z) : outcome bytes :=
  if (0 <=? hi) && (hi <=? gst_len s) then Ok (firstn (Z.to_nat hi) s) else Panic.
(* x == nil, make([]byte, n, c), x[i] = v, copy(dst, src): the new dst and the number of bytes copied *)
Definition gst_isnil (s : bytes) : bool := match s with [] => true | _ :: _ => false end.
Definition gst_make (n c : Z) : outcome bytes :=
  if (n <? 0) || (c <? n) then Panic else Ok (repeat 0%N (Z.to_nat n)).
Definition gst_store (b : bytes) (i : Z) (v : N) : outcome bytes :=
  if (0 <=? i) && (i <? gst_len b) then Ok (set_nth b (Z.to_nat i) v) else Panic.
Definition gst_copy (dst src : bytes) : bytes :=
  let n := Nat.min (length dst) (length src) in firstn n src ++ skipn n dst.
Definition gst_copy_n (dst src : bytes) : Z := Z.of_nat (Nat.min (length dst) (length src)).
(* byte(x) *)
Definition gst_byte (x : Z) : N := Z.to_N (x mod 256).
(* utf8.DecodeRuneInString(x); utf8.EncodeRune(b[off:], r): the new b and the number of bytes written;
   for i, c := range x *)
Definition gst_DecodeRuneInString (s : bytes) : Z * Z :=
  let rw := decode_rune s in (Z.of_N (fst rw), Z.of_nat (snd rw)).
Definition gst_encode_at (b : bytes) (off r : Z) : outcome bytes :=
  do p <- gst_slice_from b off;
  let d := encode_rune r in
  if (length d <=? length p)%nat then Ok (firstn (Z.to_nat off) b ++ d ++ skipn (length d) p) else Panic.
Definition gst_encode_n (r : Z) : Z := Z.of_nat (length (encode_rune r)).
Definition gst_range (s : bytes) : list (Z * Z) :=
  map (fun p => (Z.of_nat (fst p), Z.of_N (snd p))) (range_string s).
(* strings.TrimPrefix, strings.TrimSuffix (strings.HasPrefix / HasSuffix and regexp.QuoteMeta are has_prefix /
   has_suffix / quote_meta of Model/Match.v; x == y on strings is bytes_eqb) *)
(* the like loops of internal/scolumn and internal/ecolumn: index[i] on an index.Int (row ids), col.stringAt(id) on a
   string column given as its cells (None = null; the body of stringAt is text-matched), bIndex[i] = b on an
   index.Bool, for i, x := range xs on a slice (the (position, element) pairs), &bitset{} *)
Definition gst_index_id (s : list nat) (i : Z) : outcome nat := if i <? 0 then Panic else idx s (Z.to_nat i).
Definition gst_stringAt (col : list (option bytes)) (i : nat) : outcome (bytes * bool) :=
  do c <- idx col i; Ok (match c with None => ([], true) | Some x => (x, false) end).
Definition gst_store_bool (b : list bool) (i : Z) (v : bool) : outcome (list bool) :=
  if (0 <=? i) && (i <? Z.of_nat (length b)) then Ok (set_nth b (Z.to_nat i) v) else Panic.
Definition gst_enum {T : Type} (l : list T) : list (Z * T) := combine (map Z.of_nat (seq 0 (length l))) l.
Definition gst_bitset_zero : list Z := [0; 0; 0; 0].
Definition gst_TrimPrefix (s p : bytes) : bytes := if has_prefix s p then skipn (length p) s else s.
Definition gst_TrimSuffix (s p : bytes) : bytes :=
  if has_suffix s p then firstn (length s - length p) s else s.

`

// kinds: "int" "rune" (Z), "byte" (N), "bool", "bytes", "ptr" (a *[]byte argument), "const" (untyped number),
// "nil"
type gqVar struct {
	name string
	kind string
}

type gqVal struct {
	text string // Z text for int / rune / const, N text for byte, the term for bool / bytes
	ntxt string // const only: the N text
	kind string
}

type gqFunc struct {
	goName  string
	coq     string
	fd      *ast.FuncDecl
	params  []gqVar
	results []string // kinds
	ptrs    []string // Go names of the pointer arguments
	errRes  bool     // the last result is an error: return x, nil -> Ok x; return nil, e -> Fail
	pkg     string   // the package directory
	outs    []string // Go names of the []bool arguments that are assigned through (answered like pointer arguments)
	recv    string   // a method with pointer receiver: the Go name of the receiver,
	recvTy  string   // its struct type,
	fields  []gqVar  // and the fields of that struct as variables <recv>_<field> (answered after the results)
	done    bool
	ok      bool
	text    string
}

var gqFuncs = map[string]*gqFunc{}

// package level string constants used: name -> literal value (emitted as gst_c_<name>)
var gqConstsUsed []string
var gqConstText = map[string]string{}

// the struct types behind the Matcher implementations that composite literals build: constructor name ->
// field names in declaration order (gst_Matcher is generated from them)
var gqMatcherTypes []string
var gqMatcherFields = map[string][]string{}

// structFields resolves type T (through `type T U` chains) to the fields of its struct.
func (t *gqTr) structFields(name string) ([]string, bool) {
	vs, ok := gqStructFields(t.p, name)
	var out []string
	for _, v := range vs {
		out = append(out, v.name)
	}
	return out, ok
}

// gqStructFields: the fields with their kinds (string, []byte -> bytes; *regexp.Regexp -> regexp)
func gqStructFields(p *pkgInfo, name string) ([]gqVar, bool) {
	for depth := 0; depth < 8; depth++ {
		var spec *ast.TypeSpec
		for _, f := range p.files {
			for _, d := range f.Decls {
				gd, ok := d.(*ast.GenDecl)
				if !ok || gd.Tok != token.TYPE {
					continue
				}
				for _, sp := range gd.Specs {
					if ts := sp.(*ast.TypeSpec); ts.Name.Name == name {
						spec = ts
					}
				}
			}
		}
		if spec == nil {
			return nil, false
		}
		switch u := spec.Type.(type) {
		case *ast.Ident:
			name = u.Name
		case *ast.StructType:
			var out []gqVar
			for _, fl := range u.Fields.List {
				var tb bytes.Buffer
				printer.Fprint(&tb, p.fset, fl.Type)
				kind := ""
				switch tb.String() {
				case "string", "[]byte":
					kind = "bytes"
				case "*regexp.Regexp":
					kind = "regexp"
				default:
					return nil, false
				}
				for _, n := range fl.Names {
					out = append(out, gqVar{n.Name, kind})
				}
			}
			return out, len(out) > 0
		default:
			return nil, false
		}
	}
	return nil, false
}

type gqCtx struct {
	vars   []gqVar
	brk    func() string
	cont   func() string
	ret    func(res []gqVal) string
	inLoop bool
}

type gqTr struct {
	p     *pkgInfo
	f     *gqFunc
	loops []string
	bad   bool
	ntmp  int
}

func (t *gqTr) fail(n ast.Node, format string, a ...interface{}) {
	pos := ""
	if n != nil {
		pos = t.p.fset.Position(n.Pos()).String() + ": "
	}
	problem("internal/strings translation, function %s: %s%s", t.f.goName, pos, fmt.Sprintf(format, a...))
	t.bad = true
}

func (t *gqTr) src(n ast.Node) string {
	var b bytes.Buffer
	printer.Fprint(&b, t.p.fset, n)
	return b.String()
}

func (c gqCtx) lookup(name string) (gqVar, bool) {
	for i := len(c.vars) - 1; i >= 0; i-- {
		if c.vars[i].name == name {
			return c.vars[i], true
		}
	}
	return gqVar{}, false
}

func gqCoqType(kind string) string {
	switch kind {
	case "int", "rune":
		return "Z"
	case "byte":
		return "N"
	case "bool", "error":
		return "bool"
	case "matcher":
		return "gst_Matcher"
	case "ids":
		return "(list nat)"
	case "id":
		return "nat"
	case "bools":
		return "(list bool)"
	case "scol":
		return "(list (option bytes))"
	case "strs":
		return "(list bytes)"
	case "bitset":
		return "(list Z)"
	case "enumval":
		return "Z"
	}
	return "bytes"
}

func gqBytesLit(s string) string {
	if len(s) == 0 {
		return "([] : bytes)"
	}
	var parts []string
	for i := 0; i < len(s); i++ {
		parts = append(parts, fmt.Sprintf("%d%%N", s[i]))
	}
	return "[" + strings.Join(parts, "; ") + "]"
}

func gqConst(v *big.Int) gqVal {
	if v.Sign() < 0 {
		return gqVal{text: "(" + v.String() + ")", ntxt: "", kind: "const"}
	}
	return gqVal{text: v.String(), ntxt: v.String() + "%N", kind: "const"}
}

func gqIsNum(k string) bool { return k == "int" || k == "rune" || k == "byte" || k == "const" }

// ------------------------------------------------------------------ syntactic analyses

// escapes: the statement contains a return, or a break / continue that leaves the statement itself.
func gqEscapes(n ast.Node) bool {
	found := false
	var walk func(n ast.Node)
	walk = func(n ast.Node) {
		ast.Inspect(n, func(m ast.Node) bool {
			switch x := m.(type) {
			case *ast.ReturnStmt:
				found = true
			case *ast.BranchStmt:
				found = true
			case *ast.ForStmt:
				if m != n {
					if gqContainsReturn(x) {
						found = true
					}
					return false
				}
			case *ast.RangeStmt:
				if m != n {
					if gqContainsReturn(x) {
						found = true
					}
					return false
				}
			case *ast.FuncLit:
				return false
			}
			return true
		})
	}
	walk(n)
	return found
}

func gqContainsReturn(n ast.Node) bool {
	found := false
	ast.Inspect(n, func(m ast.Node) bool {
		if _, ok := m.(*ast.ReturnStmt); ok {
			found = true
		}
		return true
	})
	return found
}

func gqIsCall(e ast.Expr, pkg, name string) (*ast.CallExpr, bool) {
	ce, ok := e.(*ast.CallExpr)
	if !ok {
		return nil, false
	}
	if pkg == "" {
		id, ok := ce.Fun.(*ast.Ident)
		return ce, ok && id.Name == name
	}
	se, ok := ce.Fun.(*ast.SelectorExpr)
	if !ok {
		return nil, false
	}
	id, ok := se.X.(*ast.Ident)
	return ce, ok && id.Name == pkg && se.Sel.Name == name
}

// encodeTarget: utf8.EncodeRune(B[off:], r) -> (B, off, r)
func gqEncodeCall(e ast.Expr) (buf *ast.Ident, off ast.Expr, r ast.Expr, ok bool) {
	ce, is := gqIsCall(e, "utf8", "EncodeRune")
	if !is || len(ce.Args) != 2 {
		return nil, nil, nil, false
	}
	sl, is := ce.Args[0].(*ast.SliceExpr)
	if !is || sl.Low == nil || sl.High != nil || sl.Slice3 {
		return nil, nil, nil, false
	}
	id, is := sl.X.(*ast.Ident)
	if !is {
		return nil, nil, nil, false
	}
	return id, sl.Low, ce.Args[1], true
}

// gqIsErrorReturn: return [nil, ..] qerrors.Propagate(.., e)
func gqIsErrorReturn(x *ast.ReturnStmt) bool {
	if len(x.Results) == 0 {
		return false
	}
	ce, isCall := gqIsCall(x.Results[len(x.Results)-1], "qerrors", "Propagate")
	if !isCall || len(ce.Args) != 2 {
		return false
	}
	for _, r := range x.Results[:len(x.Results)-1] {
		if id, ok := r.(*ast.Ident); !ok || id.Name != "nil" {
			return false
		}
	}
	return true
}

// gqErrCall: x, err := [pkg.]F(args) with F a translated function that has an error result, when the NEXT statement
// is exactly `if err != nil { return [nil,] qerrors.Propagate(.., err) }`: the pair is  do v_x <- F fuel' args;
// (the error return of F is Fail, and Fail is what this function then answers)
func gqErrCall(st ast.Stmt, rest []ast.Stmt) (x string, g *gqFunc, call *ast.CallExpr, ok bool) {
	as, isAs := st.(*ast.AssignStmt)
	if !isAs || as.Tok != token.DEFINE || len(as.Lhs) != 2 || len(as.Rhs) != 1 || len(rest) == 0 {
		return
	}
	ce, isCall := as.Rhs[0].(*ast.CallExpr)
	if !isCall {
		return
	}
	name := ""
	switch fn := ce.Fun.(type) {
	case *ast.Ident:
		name = fn.Name
	case *ast.SelectorExpr:
		if id, isId := fn.X.(*ast.Ident); isId && id.Name == "qfstrings" {
			name = fn.Sel.Name
		}
	}
	g, have := gqFuncs[name]
	if !have || !g.errRes || len(g.results) != 1 {
		return
	}
	xi, ok1 := as.Lhs[0].(*ast.Ident)
	ei, ok2 := as.Lhs[1].(*ast.Ident)
	if !ok1 || !ok2 || xi.Name == "_" || ei.Name == "_" {
		return
	}
	ifs, isIf := rest[0].(*ast.IfStmt)
	if !isIf || ifs.Init != nil || ifs.Else != nil || len(ifs.Body.List) != 1 {
		return
	}
	be, isBin := ifs.Cond.(*ast.BinaryExpr)
	if !isBin || be.Op != token.NEQ {
		return
	}
	l, okL := be.X.(*ast.Ident)
	r, okR := be.Y.(*ast.Ident)
	if !okL || !okR || l.Name != ei.Name || r.Name != "nil" {
		return
	}
	ret, isRet := ifs.Body.List[0].(*ast.ReturnStmt)
	if !isRet || !gqIsErrorReturn(ret) {
		return
	}
	return xi.Name, g, ce, true
}

// gqAddrTarget: &x -> x;  &recv.f -> recv_f
func gqAddrTarget(e ast.Expr, recv string) (string, bool) {
	u, ok := e.(*ast.UnaryExpr)
	if !ok || u.Op != token.AND {
		return "", false
	}
	switch y := u.X.(type) {
	case *ast.Ident:
		return y.Name, true
	case *ast.SelectorExpr:
		if id, ok := y.X.(*ast.Ident); ok && recv != "" && id.Name == recv {
			return recv + "_" + y.Sel.Name, true
		}
	}
	return "", false
}

// assigned: the Go names assigned (not declared) below n.
func gqAssigned(n ast.Node) map[string]bool {
	names := map[string]bool{}
	target := func(l ast.Expr) {
		switch y := l.(type) {
		case *ast.Ident:
			names[y.Name] = true
		case *ast.StarExpr:
			if id, ok := y.X.(*ast.Ident); ok {
				names[id.Name] = true
			}
		case *ast.IndexExpr:
			if id, ok := y.X.(*ast.Ident); ok {
				names[id.Name] = true
			}
		}
	}
	ast.Inspect(n, func(m ast.Node) bool {
		switch x := m.(type) {
		case *ast.AssignStmt:
			if x.Tok != token.DEFINE {
				for _, l := range x.Lhs {
					target(l)
				}
			}
		case *ast.IncDecStmt:
			target(x.X)
		case *ast.CallExpr:
			if ce, ok := gqIsCall(x, "", "copy"); ok && len(ce.Args) == 2 {
				target(ce.Args[0])
			}
			if b, _, _, ok := gqEncodeCall(x); ok {
				names[b.Name] = true
			}
			if se, ok := x.Fun.(*ast.SelectorExpr); ok && (se.Sel.Name == "Matches" || se.Sel.Name == "set") {
				if id, ok := se.X.(*ast.Ident); ok {
					names[id.Name] = true
				}
			}
			for _, a := range x.Args {
				if u, ok := a.(*ast.UnaryExpr); ok && u.Op == token.AND {
					switch y := u.X.(type) {
					case *ast.Ident:
						names[y.Name] = true
					case *ast.SelectorExpr:
						if id, ok := y.X.(*ast.Ident); ok {
							names[id.Name+"_"+y.Sel.Name] = true
						}
					}
				}
			}
		}
		return true
	})
	return names
}

// ------------------------------------------------------------------ expressions

func (t *gqTr) tmp() string {
	t.ntmp++
	return fmt.Sprintf("t%d", t.ntmp)
}

// asZ: the value as a Z term (a byte is converted: only where the caller allows it)
func (t *gqTr) asZ(n ast.Node, v gqVal, allowByte bool) string {
	switch v.kind {
	case "int", "rune", "const":
		return v.text
	case "byte":
		if allowByte {
			return "(Z.of_N " + v.text + ")"
		}
	}
	t.fail(n, "an int or rune expression is expected, not %s", v.kind)
	return "0"
}

func (t *gqTr) asN(n ast.Node, v gqVal) string {
	switch v.kind {
	case "byte":
		return v.text
	case "const":
		if v.ntxt != "" {
			return v.ntxt
		}
	}
	t.fail(n, "a byte expression is expected, not %s", v.kind)
	return "0%N"
}

func (t *gqTr) asBytes(n ast.Node, v gqVal) string {
	if v.kind == "bytes" {
		return v.text
	}
	if v.kind == "nil" {
		return "([] : bytes)"
	}
	t.fail(n, "a string or []byte expression is expected, not %s", v.kind)
	return "([] : bytes)"
}

func (t *gqTr) intExpr(e ast.Expr, c gqCtx, pre *[]string) string {
	v := t.expr(e, c, pre)
	if v.kind != "int" && v.kind != "const" {
		t.fail(e, "an int expression is expected, not %s", v.kind)
		return "0"
	}
	return v.text
}

func (t *gqTr) boolExpr(e ast.Expr, c gqCtx, pre *[]string) string {
	v := t.expr(e, c, pre)
	if v.kind != "bool" {
		t.fail(e, "a condition is expected")
		return "false"
	}
	return v.text
}

func (t *gqTr) bytesExpr(e ast.Expr, c gqCtx, pre *[]string) string {
	return t.asBytes(e, t.expr(e, c, pre))
}

// packageConst: a package level string constant -> gst_c_<name>
func (t *gqTr) packageConst(name string) (gqVal, bool) {
	e, ok := t.p.consts[name]
	if !ok {
		return gqVal{}, false
	}
	lit, ok := e.(*ast.BasicLit)
	if !ok || lit.Kind != token.STRING {
		return gqVal{}, false
	}
	s, err := strconv.Unquote(lit.Value)
	if err != nil {
		return gqVal{}, false
	}
	if _, seen := gqConstText[name]; !seen {
		gqConstsUsed = append(gqConstsUsed, name)
		gqConstText[name] = s
	}
	return gqVal{text: "gst_c_" + name, kind: "bytes"}, true
}

func (t *gqTr) expr(e ast.Expr, c gqCtx, pre *[]string) gqVal {
	bad := gqVal{text: "0", ntxt: "0%N", kind: "const"}
	switch x := e.(type) {
	case *ast.ParenExpr:
		return t.expr(x.X, c, pre)
	case *ast.BasicLit:
		switch x.Kind {
		case token.INT:
			v, ok := new(big.Int).SetString(x.Value, 0)
			if !ok {
				t.fail(e, "integer literal %s", x.Value)
				return bad
			}
			return gqConst(v)
		case token.CHAR:
			s := x.Value
			if len(s) >= 2 && s[0] == '\'' {
				r, _, _, err := strconv.UnquoteChar(s[1:len(s)-1], '\'')
				if err == nil {
					return gqConst(big.NewInt(int64(r)))
				}
			}
			t.fail(e, "character literal %s", x.Value)
			return bad
		case token.STRING:
			s, err := strconv.Unquote(x.Value)
			if err != nil {
				t.fail(e, "string literal %s", x.Value)
				return bad
			}
			return gqVal{text: gqBytesLit(s), kind: "bytes"}
		}
	case *ast.Ident:
		switch x.Name {
		case "true", "false":
			if _, sh := c.lookup(x.Name); !sh {
				return gqVal{text: x.Name, kind: "bool"}
			}
		case "nil":
			if _, sh := c.lookup(x.Name); !sh {
				return gqVal{text: "([] : bytes)", kind: "nil"}
			}
		}
		if v, ok := c.lookup(x.Name); ok {
			if v.kind == "ptr" {
				t.fail(e, "the pointer %s may only be dereferenced", x.Name)
				return bad
			}
			return gqVal{text: "v_" + v.name, kind: v.kind}
		}
		if v, ok := t.packageConst(x.Name); ok {
			return v
		}
		t.fail(e, "unknown identifier %s", x.Name)
		return bad
	case *ast.SelectorExpr:
		if id, ok := x.X.(*ast.Ident); ok && t.f.recv != "" && id.Name == t.f.recv {
			if v, ok := c.lookup(t.f.recv + "_" + x.Sel.Name); ok {
				return gqVal{text: "v_" + v.name, kind: v.kind}
			}
		}
		if id, ok := x.X.(*ast.Ident); ok && id.Name == "utf8" {
			if _, sh := c.lookup("utf8"); !sh {
				switch x.Sel.Name {
				case "RuneSelf":
					return gqVal{text: "(Z.of_N rune_self)", ntxt: "rune_self", kind: "const"}
				case "RuneError":
					return gqVal{text: "(Z.of_N rune_error)", ntxt: "rune_error", kind: "const"}
				case "UTFMax":
					return gqVal{text: "(Z.of_nat utf_max)", ntxt: "(N.of_nat utf_max)", kind: "const"}
				}
			}
		}
	case *ast.StarExpr:
		if id, ok := x.X.(*ast.Ident); ok {
			if v, ok := c.lookup(id.Name); ok && v.kind == "ptr" {
				return gqVal{text: "v_" + v.name, kind: "bytes"}
			}
		}
	case *ast.UnaryExpr:
		if cl, ok := x.X.(*ast.CompositeLit); ok && x.Op == token.AND {
			if id, isId := cl.Type.(*ast.Ident); isId && id.Name == "bitset" && len(cl.Elts) == 0 && t.f.pkg == "internal/ecolumn" {
				return gqVal{text: "gst_bitset_zero", kind: "bitset"}
			}
			return t.matcherLit(cl, c, pre)
		}
		a := t.expr(x.X, c, pre)
		switch {
		case x.Op == token.NOT && a.kind == "bool":
			return gqVal{text: "(negb " + a.text + ")", kind: "bool"}
		case x.Op == token.SUB && a.kind == "int":
			return gqVal{text: "(- " + a.text + ")", kind: "int"}
		}
	case *ast.BinaryExpr:
		return t.binary(x, c, pre)
	case *ast.IndexExpr:
		if id, ok := x.X.(*ast.Ident); ok {
			if v, known := c.lookup(id.Name); known && v.kind == "ids" && pre != nil {
				i := t.intExpr(x.Index, c, pre)
				tmp := t.tmp()
				*pre = append(*pre, "do "+tmp+" <- gst_index_id v_"+v.name+" "+i+";\n")
				return gqVal{text: tmp, kind: "id"}
			}
		}
		s := t.bytesExpr(x.X, c, pre)
		iv := t.expr(x.Index, c, pre)
		i := t.asZ(x.Index, iv, true)
		if pre == nil {
			t.fail(e, "an index expression cannot be evaluated at this place")
			return bad
		}
		tmp := t.tmp()
		*pre = append(*pre, "do "+tmp+" <- gst_index "+s+" "+i+";\n")
		return gqVal{text: tmp, kind: "byte"}
	case *ast.SliceExpr:
		if x.Slice3 {
			break
		}
		s := t.bytesExpr(x.X, c, pre)
		if pre == nil {
			t.fail(e, "a slice expression cannot be evaluated at this place")
			return bad
		}
		var call string
		switch {
		case x.Low != nil && x.High != nil:
			call = "gst_slice " + s + " " + t.intExpr(x.Low, c, pre) + " " + t.intExpr(x.High, c, pre)
		case x.Low != nil:
			call = "gst_slice_from " + s + " " + t.intExpr(x.Low, c, pre)
		case x.High != nil:
			call = "gst_slice_to " + s + " " + t.intExpr(x.High, c, pre)
		default:
			return gqVal{text: s, kind: "bytes"}
		}
		tmp := t.tmp()
		*pre = append(*pre, "do "+tmp+" <- "+call+";\n")
		return gqVal{text: tmp, kind: "bytes"}
	case *ast.CallExpr:
		return t.call(x, c, pre)
	}
	t.fail(e, "expression not understood: %s", t.src(e))
	return bad
}

func (t *gqTr) binary(x *ast.BinaryExpr, c gqCtx, pre *[]string) gqVal {
	bad := gqVal{text: "false", kind: "bool"}
	if x.Op == token.LAND || x.Op == token.LOR {
		a := t.boolExpr(x.X, c, pre)
		var pre2 []string
		b := t.boolExpr(x.Y, c, &pre2)
		if len(pre2) > 0 {
			t.fail(x.Y, "an operation that can panic to the right of %s", x.Op)
		}
		op := " && "
		if x.Op == token.LOR {
			op = " || "
		}
		return gqVal{text: "(" + a + op + b + ")", kind: "bool"}
	}
	a := t.expr(x.X, c, pre)
	b := t.expr(x.Y, c, pre)
	// comparison with nil
	if (a.kind == "nil" && b.kind == "bytes") || (a.kind == "bytes" && b.kind == "nil") {
		s := a.text
		if a.kind == "nil" {
			s = b.text
		}
		switch x.Op {
		case token.EQL:
			return gqVal{text: "(gst_isnil " + s + ")", kind: "bool"}
		case token.NEQ:
			return gqVal{text: "(negb (gst_isnil " + s + "))", kind: "bool"}
		}
	}
	if a.kind == "bytes" && b.kind == "bytes" {
		switch x.Op {
		case token.ADD:
			return gqVal{text: "(" + a.text + " ++ " + b.text + ")", kind: "bytes"}
		case token.EQL:
			return gqVal{text: "(bytes_eqb " + a.text + " " + b.text + ")", kind: "bool"}
		case token.NEQ:
			return gqVal{text: "(negb (bytes_eqb " + a.text + " " + b.text + "))", kind: "bool"}
		}
	}
	if (a.kind == "error" && b.kind == "nil") || (a.kind == "nil" && b.kind == "error") {
		e := a.text
		if a.kind == "nil" {
			e = b.text
		}
		switch x.Op {
		case token.NEQ:
			return gqVal{text: e, kind: "bool"}
		case token.EQL:
			return gqVal{text: "(negb " + e + ")", kind: "bool"}
		}
	}
	if !gqIsNum(a.kind) || !gqIsNum(b.kind) {
		t.fail(x, "operands of %s not understood: %s", x.Op, t.src(x))
		return bad
	}
	kind := a.kind
	if kind == "const" {
		kind = b.kind
	}
	if b.kind != "const" && b.kind != kind {
		t.fail(x, "operands of different types (%s, %s): %s", a.kind, b.kind, t.src(x))
		return bad
	}
	if kind == "const" {
		t.fail(x, "constant expression %s (write its value)", t.src(x))
		return bad
	}
	inN := kind == "byte"
	var l, r string
	if inN {
		l, r = t.asN(x.X, a), t.asN(x.Y, b)
	} else {
		l, r = t.asZ(x.X, a, false), t.asZ(x.Y, b, false)
	}
	cmp := func(s string) gqVal {
		if inN {
			return gqVal{text: "(" + s + ")%N", kind: "bool"}
		}
		return gqVal{text: "(" + s + ")", kind: "bool"}
	}
	switch x.Op {
	case token.ADD, token.SUB, token.MUL:
		if kind != "int" {
			t.fail(x, "%s on a %s would have to wrap", x.Op, kind)
			return bad
		}
		return gqVal{text: "(" + l + " " + x.Op.String() + " " + r + ")", kind: "int"}
	case token.SHR:
		if b.kind != "const" {
			t.fail(x, "shift by a non-constant")
			return bad
		}
		if inN {
			return gqVal{text: "(N.shiftr " + l + " " + r + ")", kind: kind}
		}
		return gqVal{text: "(Z.shiftr " + l + " " + r + ")", kind: kind}
	case token.AND:
		if inN {
			return gqVal{text: "(N.land " + l + " " + r + ")", kind: kind}
		}
		return gqVal{text: "(Z.land " + l + " " + r + ")", kind: kind}
	case token.LSS:
		return cmp(l + " <? " + r)
	case token.LEQ:
		return cmp(l + " <=? " + r)
	case token.GTR:
		return cmp(r + " <? " + l)
	case token.GEQ:
		return cmp(r + " <=? " + l)
	case token.EQL:
		return cmp(l + " =? " + r)
	case token.NEQ:
		v := cmp(l + " =? " + r)
		return gqVal{text: "(negb " + v.text + ")", kind: "bool"}
	}
	t.fail(x, "operator %s", x.Op)
	return bad
}

func (t *gqTr) call(x *ast.CallExpr, c gqCtx, pre *[]string) gqVal {
	bad := gqVal{text: "0", ntxt: "0%N", kind: "const"}
	shadow := func(n string) bool { _, sh := c.lookup(n); return sh }
	if id, ok := x.Fun.(*ast.Ident); ok && !shadow(id.Name) {
		switch id.Name {
		case "len":
			if len(x.Args) == 1 {
				return gqVal{text: "(gst_len " + t.bytesExpr(x.Args[0], c, pre) + ")", kind: "int"}
			}
		case "byte":
			if len(x.Args) == 1 {
				a := t.expr(x.Args[0], c, pre)
				switch a.kind {
				case "int", "rune":
					return gqVal{text: "(gst_byte " + a.text + ")", kind: "byte"}
				case "byte":
					return a
				}
			}
		case "append":
			if len(x.Args) == 2 {
				s := t.bytesExpr(x.Args[0], c, pre)
				a := t.expr(x.Args[1], c, pre)
				if x.Ellipsis != token.NoPos {
					return gqVal{text: "(" + s + " ++ " + t.asBytes(x.Args[1], a) + ")", kind: "bytes"}
				}
				return gqVal{text: "(" + s + " ++ [" + t.asN(x.Args[1], a) + "])", kind: "bytes"}
			}
		case "make":
			if len(x.Args) >= 2 && len(x.Args) <= 3 && t.src(x.Args[0]) == "[]byte" {
				if pre == nil {
					break
				}
				n := t.intExpr(x.Args[1], c, pre)
				cp := n
				if len(x.Args) == 3 {
					cp = t.intExpr(x.Args[2], c, pre)
				}
				tmp := t.tmp()
				*pre = append(*pre, "do "+tmp+" <- gst_make "+n+" "+cp+";\n")
				return gqVal{text: tmp, kind: "bytes"}
			}
		case "UnsafeBytesToString":
			if len(x.Args) == 1 {
				return gqVal{text: t.bytesExpr(x.Args[0], c, pre), kind: "bytes"}
			}
		}
		if g, ok := gqFuncs[id.Name]; ok {
			if !g.done {
				t.fail(x, "%s is called before it is translated (order of gqSpecs)", g.goName)
				return bad
			}
			if len(g.fields) > 0 || len(g.results) != 1 || len(x.Args) != len(g.params) || pre == nil {
				t.fail(x, "call of %s in a form that is not understood", g.goName)
				return bad
			}
			parts := []string{g.coq, "fuel'"}
			tmp := t.tmp()
			pat := []string{tmp}
			for i, a := range x.Args {
				if g.params[i].kind == "ptr" {
					// &x or &recv.field: the variable is read, and rebound to the value the callee leaves behind it
					name, ok := gqAddrTarget(a, t.f.recv)
					v, known := c.lookup(name)
					if !ok || !known || v.kind != "bytes" {
						t.fail(a, "a pointer argument must be &x or &%s.f of a []byte variable / field", t.f.recv)
						return bad
					}
					parts = append(parts, "v_"+name)
					pat = append(pat, "v_"+name)
					continue
				}
				v := t.expr(a, c, pre)
				switch g.params[i].kind {
				case "bytes":
					parts = append(parts, t.asBytes(a, v))
				case "int":
					parts = append(parts, t.asZ(a, v, false))
				default:
					t.fail(a, "argument type of %s", g.goName)
				}
			}
			*pre = append(*pre, "do "+gsTuple(pat)+" <- "+strings.Join(parts, " ")+";\n")
			return gqVal{text: tmp, kind: g.results[0]}
		}
	}
	for _, lib := range []struct{ pkg, fn, coq, kind string }{
		{"strings", "HasPrefix", "has_prefix", "bool"}, {"strings", "HasSuffix", "has_suffix", "bool"},
		{"strings", "TrimPrefix", "gst_TrimPrefix", "bytes"}, {"strings", "TrimSuffix", "gst_TrimSuffix", "bytes"},
		{"strings", "Contains", "contains", "bool"},
	} {
		if ce, ok := gqIsCall(x, lib.pkg, lib.fn); ok && len(ce.Args) == 2 && !shadow(lib.pkg) {
			a := t.bytesExpr(ce.Args[0], c, pre)
			b := t.bytesExpr(ce.Args[1], c, pre)
			return gqVal{text: "(" + lib.coq + " " + a + " " + b + ")", kind: lib.kind}
		}
	}
	// m.Matches(s) on a Matcher variable: the interface call; the matcher is rebound to what the method leaves
	if se, ok := x.Fun.(*ast.SelectorExpr); ok && se.Sel.Name == "Matches" && len(x.Args) == 1 && pre != nil {
		if id, ok := se.X.(*ast.Ident); ok {
			if v, known := c.lookup(id.Name); known && v.kind == "matcher" {
				arg := t.bytesExpr(x.Args[0], c, pre)
				tmp := t.tmp()
				*pre = append(*pre, "do ("+tmp+", v_"+v.name+") <- gst_Matches fuel' v_"+v.name+" "+arg+";\n")
				return gqVal{text: tmp, kind: "bool"}
			}
		}
	}
	// enumVal(i): the conversion to uint8
	if id, ok := x.Fun.(*ast.Ident); ok && id.Name == "enumVal" && len(x.Args) == 1 && t.f.pkg == "internal/ecolumn" && !shadow("enumVal") {
		a := t.expr(x.Args[0], c, pre)
		if a.kind == "int" {
			return gqVal{text: "(" + a.text + " mod 256)", kind: "enumval"}
		}
	}
	// r.MatchString(s) on a *regexp.Regexp: regexp's answer is the arbitrary function re_MatchString
	if se, ok := x.Fun.(*ast.SelectorExpr); ok && se.Sel.Name == "MatchString" && len(x.Args) == 1 {
		r := t.expr(se.X, c, pre)
		if r.kind == "regexp" {
			return gqVal{text: "(re_MatchString " + r.text + " " + t.bytesExpr(x.Args[0], c, pre) + ")", kind: "bool"}
		}
	}
	if ce, ok := gqIsCall(x, "strings", "ToUpper"); ok && len(ce.Args) == 1 && !shadow("strings") {
		return gqVal{text: "(str_upper " + t.bytesExpr(ce.Args[0], c, pre) + ")", kind: "bytes"}
	}
	if ce, ok := gqIsCall(x, "regexp", "QuoteMeta"); ok && len(ce.Args) == 1 && !shadow("regexp") {
		return gqVal{text: "(quote_meta " + t.bytesExpr(ce.Args[0], c, pre) + ")", kind: "bytes"}
	}
	if ce, ok := gqIsCall(x, "unicode", "ToUpper"); ok && len(ce.Args) == 1 && !shadow("unicode") {
		a := t.expr(ce.Args[0], c, pre)
		if a.kind == "rune" {
			return gqVal{text: "(upper " + a.text + ")", kind: "rune"}
		}
	}
	if ce, ok := gqIsCall(x, "utf8", "RuneLen"); ok && len(ce.Args) == 1 && !shadow("utf8") {
		a := t.expr(ce.Args[0], c, pre)
		if a.kind == "rune" {
			return gqVal{text: "(rune_len " + a.text + ")", kind: "int"}
		}
	}
	t.fail(x, "call not understood: %s", t.src(x))
	return bad
}

// matcherLit: &T{f: e, ..} with T a struct type of bytes-like fields -> (gst_T e ..), fields in declaration order
func (t *gqTr) matcherLit(cl *ast.CompositeLit, c gqCtx, pre *[]string) gqVal {
	bad := gqVal{text: "gst_nil_matcher", kind: "matcher"}
	id, ok := cl.Type.(*ast.Ident)
	if !ok {
		t.fail(cl, "composite literal of a type that is not understood")
		return bad
	}
	fields, ok := t.structFields(id.Name)
	if !ok {
		t.fail(cl, "%s is not a struct of string / []byte / *regexp.Regexp fields", id.Name)
		return bad
	}
	if old, seen := gqMatcherFields[id.Name]; !seen {
		gqMatcherTypes = append(gqMatcherTypes, id.Name)
		gqMatcherFields[id.Name] = fields
	} else if strings.Join(old, ",") != strings.Join(fields, ",") {
		t.fail(cl, "%s: inconsistent fields", id.Name)
	}
	vals := map[string]string{}
	for _, e := range cl.Elts {
		kv, ok := e.(*ast.KeyValueExpr)
		if !ok {
			t.fail(e, "composite literal without field names")
			return bad
		}
		k, ok := kv.Key.(*ast.Ident)
		if !ok {
			t.fail(e, "composite literal key")
			return bad
		}
		v := t.expr(kv.Value, c, pre)
		if v.kind != "bytes" && v.kind != "regexp" {
			t.fail(kv.Value, "field %s is given a %s", k.Name, v.kind)
		}
		vals[k.Name] = v.text
	}
	parts := []string{"gst_" + id.Name}
	for _, f := range fields {
		v, ok := vals[f]
		if !ok {
			t.fail(cl, "field %s of %s is left at its zero value", f, id.Name)
			v = "([] : bytes)"
		}
		delete(vals, f)
		parts = append(parts, v)
	}
	if len(vals) > 0 {
		t.fail(cl, "unknown field in a %s literal", id.Name)
	}
	return gqVal{text: "(" + strings.Join(parts, " ") + ")", kind: "matcher"}
}

// ------------------------------------------------------------------ statements

func gqRestrict(inner, outer gqCtx) gqCtx {
	r := outer
	r.vars = inner.vars[:len(outer.vars)]
	return r
}

// outerAssigned: the variables of c (in order) assigned below the nodes.
func (t *gqTr) outerAssigned(c gqCtx, nodes ...ast.Node) []gqVar {
	names := map[string]bool{}
	for _, n := range nodes {
		for k := range gqAssigned(n) {
			names[k] = true
		}
	}
	var out []gqVar
	for _, v := range c.vars {
		if names[v.name] {
			out = append(out, v)
		}
	}
	return out
}

func gqPat(vs []gqVar) string {
	var p []string
	for _, v := range vs {
		p = append(p, "v_"+v.name)
	}
	return gsTuple(p)
}

func gqPatType(vs []gqVar) string {
	var p []string
	for _, v := range vs {
		p = append(p, gqCoqType(v.kind))
	}
	return gsTypeTuple(p)
}

func (t *gqTr) declare(st ast.Node, c *gqCtx, name, kind string) {
	if _, dup := c.lookup(name); dup {
		// the one shadowing that is understood: an argument of the function that is never assigned
		isArg := false
		for _, v := range t.f.params {
			if v.name == name {
				isArg = true
			}
		}
		if !isArg || gqAssigned(t.f.fd.Body)[name] {
			t.fail(st, "%s shadows / redeclares a variable", name)
		}
	}
	if _, isF := gqFuncs[name]; isF {
		t.fail(st, "%s shadows a function", name)
	}
	c.vars = append(c.vars, gqVar{name, kind})
}

// bind: let v_x := e in  for a value of the kind the variable has
func (t *gqTr) bind(st ast.Node, name string, want string, v gqVal) string {
	var txt string
	switch want {
	case "int", "rune":
		if v.kind != want && v.kind != "const" {
			t.fail(st, "%s (%s) is assigned a %s", name, want, v.kind)
		}
		txt = t.asZ(st, v, false)
	case "byte":
		txt = t.asN(st, v)
	case "bool":
		if v.kind != "bool" {
			t.fail(st, "%s (bool) is assigned a %s", name, v.kind)
		}
		txt = v.text
	case "bytes", "ptr":
		txt = t.asBytes(st, v)
	case "bitset", "matcher":
		if v.kind != want {
			t.fail(st, "%s (%s) is assigned a %s", name, want, v.kind)
		}
		txt = v.text
	default:
		t.fail(st, "variable %s of a type that is not understood", name)
	}
	return "let v_" + name + " := " + txt + " in\n"
}

// simple: a statement without control flow, as a prefix "let .. in\n" / "do .. <- ..;\n"; c is extended by the
// variables it declares.  ok = false when st is not such a statement.
func (t *gqTr) simple(st ast.Stmt, c *gqCtx) (string, bool) {
	var pre []string
	wrap := func(s string) string { return strings.Join(pre, "") + s }
	switch x := st.(type) {
	case *ast.DeclStmt:
		gd, ok := x.Decl.(*ast.GenDecl)
		if !ok || gd.Tok != token.VAR {
			return "", false
		}
		out := ""
		for _, sp := range gd.Specs {
			vs := sp.(*ast.ValueSpec)
			if len(vs.Values) != 0 || vs.Type == nil {
				t.fail(st, "only `var x int` and `var x []byte` are understood")
				return "", true
			}
			ty := t.src(vs.Type)
			for _, n := range vs.Names {
				switch ty {
				case "int":
					t.declare(st, c, n.Name, "int")
					out += "let v_" + n.Name + " := 0 in\n"
				case "[]byte":
					t.declare(st, c, n.Name, "bytes")
					out += "let v_" + n.Name + " := ([] : bytes) in\n"
				default:
					t.fail(st, "only `var x int` and `var x []byte` are understood")
					return "", true
				}
			}
		}
		return out, true
	case *ast.IncDecStmt:
		id, ok := x.X.(*ast.Ident)
		if !ok {
			return "", false
		}
		v, known := c.lookup(id.Name)
		if !known || v.kind != "int" {
			t.fail(st, "%s is not an int variable", id.Name)
			return "", true
		}
		op := " + 1"
		if x.Tok == token.DEC {
			op = " - 1"
		}
		return "let v_" + id.Name + " := (v_" + id.Name + op + ") in\n", true
	case *ast.ExprStmt:
		if ce, ok := gqIsCall(x.X, "", "copy"); ok && len(ce.Args) == 2 {
			return t.copyStmt(st, ce, "", token.ASSIGN, c)
		}
		// bset.set(e): the translated method of GenFuncs.v (None = index out of range = Panic)
		if ce, ok := x.X.(*ast.CallExpr); ok && len(ce.Args) == 1 {
			if se, ok := ce.Fun.(*ast.SelectorExpr); ok && se.Sel.Name == "set" {
				if id, ok := se.X.(*ast.Ident); ok {
					if v, known := c.lookup(id.Name); known && v.kind == "bitset" {
						a := t.expr(ce.Args[0], *c, &pre)
						if a.kind != "enumval" {
							t.fail(st, "bitset.set of something that is not an enumVal")
						}
						return wrap("do v_" + v.name + " <- of_option (gf_ecolumn_bitset_set v_" + v.name + " " + a.text + ");\n"), true
					}
				}
			}
		}
		t.fail(st, "statement not understood: %s", t.src(st))
		return "", true
	case *ast.AssignStmt:
		// *p = e
		if len(x.Lhs) == 1 && len(x.Rhs) == 1 {
			if se, ok := x.Lhs[0].(*ast.StarExpr); ok {
				id, isId := se.X.(*ast.Ident)
				if !isId || x.Tok != token.ASSIGN {
					t.fail(st, "assignment through a pointer in a form that is not understood")
					return "", true
				}
				v, known := c.lookup(id.Name)
				if !known || v.kind != "ptr" {
					t.fail(st, "%s is not a *[]byte argument", id.Name)
					return "", true
				}
				e := t.bytesExpr(x.Rhs[0], *c, &pre)
				return wrap("let v_" + id.Name + " := " + e + " in\n"), true
			}
			// b[i] = e
			if ie, ok := x.Lhs[0].(*ast.IndexExpr); ok {
				id, isId := ie.X.(*ast.Ident)
				if !isId || x.Tok != token.ASSIGN {
					t.fail(st, "indexed assignment in a form that is not understood")
					return "", true
				}
				v, known := c.lookup(id.Name)
				if known && v.kind == "bools" {
					i := t.intExpr(ie.Index, *c, &pre)
					e := t.boolExpr(x.Rhs[0], *c, &pre)
					return wrap("do v_" + id.Name + " <- gst_store_bool v_" + id.Name + " " + i + " " + e + ";\n"), true
				}
				if !known || v.kind != "bytes" {
					t.fail(st, "%s is not a []byte variable", id.Name)
					return "", true
				}
				iv := t.expr(ie.Index, *c, &pre)
				i := t.asZ(ie.Index, iv, true)
				e := t.asN(x.Rhs[0], t.expr(x.Rhs[0], *c, &pre))
				return wrap("do v_" + id.Name + " <- gst_store v_" + id.Name + " " + i + " " + e + ";\n"), true
			}
		}
		lhs := make([]string, len(x.Lhs))
		for i, l := range x.Lhs {
			id, ok := l.(*ast.Ident)
			if !ok {
				t.fail(st, "assignment to something that is not a variable")
				return "", true
			}
			lhs[i] = id.Name
		}
		if len(x.Rhs) == 1 {
			// r, w := utf8.DecodeRuneInString(e)
			if ce, ok := gqIsCall(x.Rhs[0], "utf8", "DecodeRuneInString"); ok {
				if len(lhs) != 2 || len(ce.Args) != 1 || (x.Tok != token.DEFINE && x.Tok != token.ASSIGN) {
					t.fail(st, "utf8.DecodeRuneInString in a form that is not understood")
					return "", true
				}
				arg := t.bytesExpr(ce.Args[0], *c, &pre)
				kinds := []string{"rune", "int"}
				var pat []string
				var decl []gqVar
				for i, n := range lhs {
					if n == "_" {
						pat = append(pat, "_")
						continue
					}
					v, known := c.lookup(n)
					if x.Tok == token.DEFINE && !known {
						decl = append(decl, gqVar{n, kinds[i]})
					} else if !known {
						t.fail(st, "unknown variable %s", n)
					} else if x.Tok == token.DEFINE {
						t.fail(st, "%s shadows / redeclares a variable", n)
					} else if v.kind != kinds[i] {
						t.fail(st, "%s has the wrong type for this result", n)
					}
					pat = append(pat, "v_"+n)
				}
				for _, d := range decl {
					t.declare(st, c, d.name, d.kind)
				}
				return wrap("let '(" + strings.Join(pat, ", ") + ") := gst_DecodeRuneInString " + arg + " in\n"), true
			}
			// s, isNull := col.stringAt(e)
			if ce, ok := x.Rhs[0].(*ast.CallExpr); ok && len(lhs) == 2 && x.Tok == token.DEFINE && len(ce.Args) == 1 {
				if se, ok := ce.Fun.(*ast.SelectorExpr); ok && se.Sel.Name == "stringAt" {
					if id, ok := se.X.(*ast.Ident); ok {
						if col, known := c.lookup(id.Name); known && col.kind == "scol" && lhs[0] != "_" && lhs[1] != "_" {
							a := t.expr(ce.Args[0], *c, &pre)
							if a.kind != "id" {
								t.fail(st, "stringAt of something that is not a row id")
							}
							tmp := t.tmp()
							out := wrap("do " + tmp + " <- gst_stringAt v_" + col.name + " " + a.text + ";\nlet '(v_" + lhs[0] + ", v_" + lhs[1] + ") := " + tmp + " in\n")
							t.declare(st, c, lhs[0], "bytes")
							t.declare(st, c, lhs[1], "bool")
							return out, true
						}
					}
				}
			}
			// r, err := regexp.Compile(e): r is the source text, err the flag "did not compile"
			if ce, ok := gqIsCall(x.Rhs[0], "regexp", "Compile"); ok {
				if len(lhs) != 2 || len(ce.Args) != 1 || x.Tok != token.DEFINE || lhs[0] == "_" || lhs[1] == "_" {
					t.fail(st, "regexp.Compile in a form that is not understood")
					return "", true
				}
				arg := t.bytesExpr(ce.Args[0], *c, &pre)
				out := wrap("let v_" + lhs[0] + " := " + arg + " in\nlet v_" + lhs[1] + " := negb (re_compile " + arg + ") in\n")
				t.declare(st, c, lhs[0], "regexp")
				t.declare(st, c, lhs[1], "error")
				return out, true
			}
			// n = copy(dst, src)
			if ce, ok := gqIsCall(x.Rhs[0], "", "copy"); ok && len(ce.Args) == 2 && len(lhs) == 1 {
				return t.copyStmt(st, ce, lhs[0], x.Tok, c)
			}
			// n += utf8.EncodeRune(b[off:], r)
			if b, off, r, ok := gqEncodeCall(x.Rhs[0]); ok {
				if len(lhs) != 1 || x.Tok != token.ADD_ASSIGN {
					t.fail(st, "utf8.EncodeRune is only understood as n += utf8.EncodeRune(b[off:], r)")
					return "", true
				}
				nv, known := c.lookup(lhs[0])
				bv, knownB := c.lookup(b.Name)
				if !known || nv.kind != "int" || !knownB || bv.kind != "bytes" {
					t.fail(st, "utf8.EncodeRune: %s must be an int and %s a []byte variable", lhs[0], b.Name)
					return "", true
				}
				o := t.intExpr(off, *c, &pre)
				rv := t.expr(r, *c, &pre)
				if rv.kind != "rune" {
					t.fail(r, "a rune is expected")
				}
				return wrap("do v_" + b.Name + " <- gst_encode_at v_" + b.Name + " " + o + " " + rv.text + ";\n" +
					"let v_" + lhs[0] + " := (v_" + lhs[0] + " + gst_encode_n " + rv.text + ") in\n"), true
			}
		}
		if len(x.Rhs) != len(lhs) {
			t.fail(st, "assignment with %d left and %d right sides", len(lhs), len(x.Rhs))
			return "", true
		}
		switch x.Tok {
		case token.DEFINE, token.ASSIGN:
			if len(lhs) > 1 {
				t.fail(st, "parallel assignment")
				return "", true
			}
			n := lhs[0]
			v := t.expr(x.Rhs[0], *c, &pre)
			old, known := c.lookup(n)
			if x.Tok == token.DEFINE {
				kind := v.kind
				if kind == "const" {
					kind = "int"
				}
				if kind == "nil" {
					t.fail(st, "%s := nil", n)
					return "", true
				}
				out := wrap(t.bind(st, n, kind, v))
				t.declare(st, c, n, kind)
				return out, true
			}
			if !known {
				t.fail(st, "unknown variable %s", n)
				return "", true
			}
			if old.kind == "ptr" {
				t.fail(st, "the pointer %s itself is assigned", n)
				return "", true
			}
			return wrap(t.bind(st, n, old.kind, v)), true
		case token.ADD_ASSIGN, token.SUB_ASSIGN, token.MUL_ASSIGN:
			ops := map[token.Token]token.Token{token.ADD_ASSIGN: token.ADD, token.SUB_ASSIGN: token.SUB, token.MUL_ASSIGN: token.MUL}
			if len(lhs) != 1 {
				t.fail(st, "assignment operator %s", x.Tok)
				return "", true
			}
			old, known := c.lookup(lhs[0])
			if !known || old.kind != "int" {
				t.fail(st, "%s is not an int variable", lhs[0])
				return "", true
			}
			v := t.expr(&ast.BinaryExpr{X: x.Lhs[0], Op: ops[x.Tok], Y: x.Rhs[0], OpPos: x.TokPos}, *c, &pre)
			return wrap(t.bind(st, lhs[0], "int", v)), true
		default:
			t.fail(st, "assignment operator %s", x.Tok)
			return "", true
		}
	}
	return "", false
}

// [n =] copy(dst, src)
func (t *gqTr) copyStmt(st ast.Stmt, ce *ast.CallExpr, n string, tok token.Token, c *gqCtx) (string, bool) {
	var pre []string
	dst, ok := ce.Args[0].(*ast.Ident)
	if !ok {
		t.fail(st, "copy into something that is not a variable")
		return "", true
	}
	dv, known := c.lookup(dst.Name)
	if !known || dv.kind != "bytes" {
		t.fail(st, "copy: %s is not a []byte variable", dst.Name)
		return "", true
	}
	src := t.bytesExpr(ce.Args[1], *c, &pre)
	out := strings.Join(pre, "")
	if n != "" && n != "_" {
		nv, knownN := c.lookup(n)
		switch {
		case tok == token.DEFINE && !knownN:
			t.declare(st, c, n, "int")
		case tok == token.ASSIGN && knownN && nv.kind == "int":
		default:
			t.fail(st, "copy: the count is assigned in a form that is not understood")
			return "", true
		}
		out += "let v_" + n + " := gst_copy_n v_" + dst.Name + " " + src + " in\n"
	}
	out += "let v_" + dst.Name + " := gst_copy v_" + dst.Name + " " + src + " in\n"
	return out, true
}

// switchToIf: switch x { case a, b: ..; default: .. } as an if chain
func (t *gqTr) switchToIf(x *ast.SwitchStmt, c gqCtx) (ast.Stmt, bool) {
	if x.Init != nil || x.Tag == nil {
		t.fail(x, "switch with an init statement or without a tag")
		return nil, false
	}
	tag, ok := x.Tag.(*ast.Ident)
	if !ok {
		t.fail(x, "the tag of a switch must be a variable")
		return nil, false
	}
	if _, known := c.lookup(tag.Name); !known {
		t.fail(x, "the tag of a switch must be a variable")
		return nil, false
	}
	var clauses []*ast.CaseClause
	for _, s := range x.Body.List {
		clauses = append(clauses, s.(*ast.CaseClause))
	}
	var chain ast.Stmt
	for i := len(clauses) - 1; i >= 0; i-- {
		cl := clauses[i]
		bodyBad := false
		for _, s := range cl.Body {
			ast.Inspect(s, func(m ast.Node) bool {
				switch y := m.(type) {
				case *ast.BranchStmt:
					if y.Tok == token.BREAK || y.Tok == token.FALLTHROUGH || y.Tok == token.GOTO {
						bodyBad = true
					}
				case *ast.ForStmt, *ast.RangeStmt, *ast.SwitchStmt:
					bodyBad = true // kept simple: no loops or switches inside a case
				}
				return true
			})
		}
		if bodyBad {
			t.fail(cl, "break / fallthrough / a loop inside a case")
			return nil, false
		}
		block := &ast.BlockStmt{Lbrace: cl.Colon, List: cl.Body, Rbrace: cl.End()}
		if cl.List == nil {
			if i != len(clauses)-1 {
				t.fail(cl, "default must be the last clause")
				return nil, false
			}
			chain = block
			continue
		}
		var cond ast.Expr
		for _, v := range cl.List {
			switch v.(type) {
			case *ast.BasicLit, *ast.SelectorExpr:
			default:
				t.fail(v, "a case must be a constant")
				return nil, false
			}
			eq := &ast.BinaryExpr{X: tag, OpPos: v.Pos(), Op: token.EQL, Y: v}
			if cond == nil {
				cond = eq
			} else {
				cond = &ast.BinaryExpr{X: cond, OpPos: v.Pos(), Op: token.LOR, Y: eq}
			}
		}
		chain = &ast.IfStmt{If: cl.Pos(), Cond: cond, Body: block, Else: chain}
	}
	if chain == nil {
		t.fail(x, "empty switch")
		return nil, false
	}
	return chain, true
}

func (t *gqTr) stmts(list []ast.Stmt, c gqCtx, k func(gqCtx) string) string {
	if len(list) == 0 {
		return k(c)
	}
	st, rest := list[0], list[1:]
	memo, have := "", false
	next := func(c2 gqCtx) string {
		if !have {
			memo, have = t.stmts(rest, c2, k), true
		}
		return memo
	}
	if xn, g, ce, ok := gqErrCall(st, rest); ok && t.f.errRes {
		if !g.done || len(ce.Args) != len(g.params) || len(g.ptrs)+len(g.fields)+len(g.outs) > 0 {
			t.fail(st, "call of %s in a form that is not understood", g.goName)
			return "Panic"
		}
		var pre []string
		parts := []string{g.coq, "fuel'"}
		for i, a := range ce.Args {
			v := t.expr(a, c, &pre)
			if v.kind != g.params[i].kind {
				t.fail(a, "argument type of %s", g.goName)
			}
			parts = append(parts, v.text)
		}
		t.declare(st, &c, xn, g.results[0])
		return strings.Join(pre, "") + "do v_" + xn + " <- " + strings.Join(parts, " ") + ";\n" + t.stmts(rest[1:], c, k)
	}
	switch x := st.(type) {
	case *ast.ReturnStmt:
		if len(rest) > 0 {
			t.fail(rest[0], "statement after return")
		}
		if c.inLoop || c.ret == nil {
			t.fail(st, "return inside a loop")
			return "Panic"
		}
		var pre []string
		var res []gqVal
		results := x.Results
		if t.f.errRes {
			// return x, nil -> Ok x;  return nil, e (e not the literal nil: a non-nil error value) -> Fail
			if len(results) != len(t.f.results)+1 {
				t.fail(st, "return with %d values", len(results))
				return "Panic"
			}
			last := results[len(results)-1]
			if id, ok := last.(*ast.Ident); !ok || id.Name != "nil" {
				if !gqIsErrorReturn(x) {
					t.fail(st, "an error return must be `return [nil,] qerrors.Propagate(.., err)`")
					return "Panic"
				}
				return "Fail"
			}
			results = results[:len(results)-1]
		}
		for _, r := range results {
			res = append(res, t.expr(r, c, &pre))
		}
		return strings.Join(pre, "") + c.ret(res)
	case *ast.BranchStmt:
		if x.Label != nil || (x.Tok != token.BREAK && x.Tok != token.CONTINUE) || c.brk == nil {
			t.fail(st, "%s is not understood here", x.Tok)
			return "Panic"
		}
		if len(rest) > 0 {
			t.fail(rest[0], "statement after %s", x.Tok)
		}
		if x.Tok == token.BREAK {
			return c.brk()
		}
		return c.cont()
	case *ast.BlockStmt:
		return t.stmts(x.List, c, func(c2 gqCtx) string { return next(gqRestrict(c2, c)) })
	case *ast.SwitchStmt:
		chain, ok := t.switchToIf(x, c)
		if !ok {
			return "Panic"
		}
		return t.stmts(append([]ast.Stmt{chain}, rest...), c, k)
	case *ast.IfStmt:
		if x.Init != nil {
			t.fail(st, "if with an init statement")
			return "Panic"
		}
		var pre []string
		ct := t.boolExpr(x.Cond, c, &pre)
		// what the condition evaluates first (it may rebind a variable: m.Matches(s)) stays outside the branches
		preText := strings.Join(pre, "")
		head := "if " + ct + " then\n"
		var elseList []ast.Stmt
		switch e := x.Else.(type) {
		case nil:
		case *ast.BlockStmt:
			elseList = e.List
		default:
			elseList = []ast.Stmt{e}
		}
		if !gqEscapes(x) {
			var nodes []ast.Node
			nodes = append(nodes, x.Body)
			if x.Else != nil {
				nodes = append(nodes, x.Else)
			}
			pat := t.outerAssigned(c, nodes...)
			if len(pat) == 0 {
				t.fail(st, "an if that assigns nothing")
				return "Panic"
			}
			okPat := "Ok " + gqPat(pat)
			thenT := t.stmts(x.Body.List, c, func(gqCtx) string { return okPat })
			elseT := t.stmts(elseList, c, func(gqCtx) string { return okPat })
			inner := head + gsIndent(thenT) + "\nelse\n" + gsIndent(elseT)
			return preText + "do " + gqPat(pat) + " <- (\n" + gsIndent(inner) + ");\n" + next(c)
		}
		thenT := t.stmts(x.Body.List, c, func(c2 gqCtx) string { return next(gqRestrict(c2, c)) })
		elseT := t.stmts(elseList, c, func(c2 gqCtx) string { return next(gqRestrict(c2, c)) })
		return preText + head + gsIndent(thenT) + "\nelse\n" + gsIndent(elseT)
	case *ast.ForStmt:
		return t.forStmt(x, c, next)
	case *ast.RangeStmt:
		return t.rangeStmt(x, c, next)
	}
	if text, ok := t.simple(st, &c); ok {
		return text + next(c)
	}
	t.fail(st, "statement not understood: %s", t.src(st))
	return "Panic"
}

// loopArgs: the variables of vars that the text mentions, as signature / argument lists.
func gqLoopArgs(text string, vars []gqVar) (sig, args []string) {
	for _, v := range vars {
		if gsMentions(text, "v_"+v.name) {
			sig = append(sig, "(v_"+v.name+" : "+gqCoqType(v.kind)+")")
			args = append(args, "v_"+v.name)
		}
	}
	return
}

func (t *gqTr) forStmt(x *ast.ForStmt, c gqCtx, next func(gqCtx) string) string {
	if gqContainsReturn(x.Body) {
		t.fail(x, "return inside a loop")
		return "Panic"
	}
	c1 := c
	initText := ""
	if x.Init != nil {
		txt, ok := t.simple(x.Init, &c1)
		if !ok {
			t.fail(x.Init, "loop init statement not understood")
		}
		initText = txt
	}
	var nodes []ast.Node
	nodes = append(nodes, x.Body)
	if x.Post != nil {
		nodes = append(nodes, x.Post)
	}
	res := t.outerAssigned(c, nodes...)
	if len(res) == 0 {
		t.fail(x, "a loop that changes nothing")
		return "Panic"
	}
	exit := "Ok " + gqPat(res)
	cb := c1
	cb.inLoop = true
	cb.brk = func() string { return exit }
	post := func(c2 gqCtx) string {
		c3 := gqRestrict(c2, cb)
		txt := ""
		if x.Post != nil {
			var ok bool
			txt, ok = t.simple(x.Post, &c3)
			if !ok {
				t.fail(x.Post, "loop post statement not understood")
			}
		}
		return txt + "@REC@"
	}
	cb.cont = func() string { return post(cb) }
	iter := t.stmts(x.Body.List, cb, post)
	body := iter
	if x.Cond != nil {
		var pre []string
		ct := t.boolExpr(x.Cond, c1, &pre)
		if len(pre) > 0 {
			t.fail(x.Cond, "a loop condition that can panic")
		}
		body = "if " + ct + " then\n" + gsIndent(iter) + "\nelse\n" + gsIndent(exit)
	}
	sig, args := gqLoopArgs(body, c1.vars)
	name := fmt.Sprintf("%s_loop%d", t.f.coq, len(t.loops)+1)
	var fsig, recArgs, callArgs []string
	if gsMentions(body, "fuel'") {
		fsig = append(fsig, "(fuel' : nat)")
		recArgs = append(recArgs, "fuel'")
		callArgs = append(callArgs, "fuel'")
	}
	fsig = append(fsig, "(k : nat)")
	recArgs = append(recArgs, "k'")
	callArgs = append(callArgs, "fuel'")
	fsig = append(fsig, sig...)
	recArgs = append(recArgs, args...)
	callArgs = append(callArgs, args...)
	body = strings.ReplaceAll(body, "@REC@", name+" "+strings.Join(recArgs, " "))
	def := "Fixpoint " + name + " " + strings.Join(fsig, " ") + " {struct k} : outcome " + gqPatType(res) + " :=\n" +
		"  match k with\n  | O => Panic\n  | S k' =>\n" + gsIndent(gsIndent(body)) + "\n  end.\n"
	t.loops = append(t.loops, def)
	return initText + "do " + gqPat(res) + " <- " + name + " " + strings.Join(callArgs, " ") + ";\n" + next(c)
}

func (t *gqTr) rangeStmt(x *ast.RangeStmt, c gqCtx, next func(gqCtx) string) string {
	if gqContainsReturn(x.Body) {
		t.fail(x, "return inside a loop")
		return "Panic"
	}
	if x.Tok != token.DEFINE {
		t.fail(x, "range without :=")
		return "Panic"
	}
	var pre []string
	xv := t.expr(x.X, c, &pre)
	elemKind, elemType, listOf := "rune", "Z", "(gst_range "+xv.text+")"
	switch xv.kind {
	case "bytes":
	case "bools":
		elemKind, elemType, listOf = "bool", "bool", "(gst_enum "+xv.text+")"
	case "strs":
		elemKind, elemType, listOf = "bytes", "bytes", "(gst_enum "+xv.text+")"
	default:
		t.fail(x.X, "range over something that is not a string, a []bool or a []string")
		return "Panic"
	}
	if _, isId := x.X.(*ast.Ident); !isId {
		t.fail(x.X, "range over something that is not a string variable")
		return "Panic"
	}
	cb := c
	names := []string{"_", "_"}
	for i, e := range []ast.Expr{x.Key, x.Value} {
		if e == nil {
			continue
		}
		id, ok := e.(*ast.Ident)
		if !ok {
			t.fail(e, "range variable")
			return "Panic"
		}
		if id.Name == "_" {
			continue
		}
		t.declare(x, &cb, id.Name, []string{"int", elemKind}[i])
		names[i] = "v_" + id.Name
	}
	res := t.outerAssigned(c, x.Body)
	if len(res) == 0 {
		t.fail(x, "a loop that changes nothing")
		return "Panic"
	}
	exit := "Ok " + gqPat(res)
	cb.inLoop = true
	cb.brk = func() string { return exit }
	cb.cont = func() string { return "@REC@" }
	iter := t.stmts(x.Body.List, cb, func(gqCtx) string { return "@REC@" })
	sig, args := gqLoopArgs(iter+"\n"+exit, c.vars)
	name := fmt.Sprintf("%s_loop%d", t.f.coq, len(t.loops)+1)
	var fsig, recArgs, callArgs []string
	if gsMentions(iter, "fuel'") {
		fsig = append(fsig, "(fuel' : nat)")
		recArgs = append(recArgs, "fuel'")
		callArgs = append(callArgs, "fuel'")
	}
	fsig = append(fsig, "(l : list (Z * "+elemType+"))")
	recArgs = append(recArgs, "l'")
	callArgs = append(callArgs, listOf)
	fsig = append(fsig, sig...)
	recArgs = append(recArgs, args...)
	callArgs = append(callArgs, args...)
	iter = strings.ReplaceAll(iter, "@REC@", name+" "+strings.Join(recArgs, " "))
	def := "Fixpoint " + name + " " + strings.Join(fsig, " ") + " {struct l} : outcome " + gqPatType(res) + " :=\n" +
		"  match l with\n  | [] => " + exit + "\n  | (" + names[0] + ", " + names[1] + ") :: l' =>\n" + gsIndent(gsIndent(iter)) + "\n  end.\n"
	t.loops = append(t.loops, def)
	return strings.Join(pre, "") + "do " + gqPat(res) + " <- " + name + " " + strings.Join(callArgs, " ") + ";\n" + next(c)
}

// ------------------------------------------------------------------ functions

func gqSignature(p *pkgInfo, f *gqFunc) bool {
	fd := f.fd
	if fd.Recv != nil {
		bad := func() bool {
			problem("internal/strings translation, function %s: receiver not understood", f.goName)
			return false
		}
		if len(fd.Recv.List) != 1 || len(fd.Recv.List[0].Names) != 1 {
			return bad()
		}
		st, isPtr := fd.Recv.List[0].Type.(*ast.StarExpr)
		if !isPtr {
			return bad()
		}
		id, isId := st.X.(*ast.Ident)
		if !isId {
			return bad()
		}
		fields, ok := gqStructFields(p, id.Name)
		if !ok {
			return bad()
		}
		f.recv, f.recvTy = fd.Recv.List[0].Names[0].Name, id.Name
		for _, fl := range fields {
			f.fields = append(f.fields, gqVar{f.recv + "_" + fl.name, fl.kind})
		}
	}
	typeOf := func(e ast.Expr) string {
		var b bytes.Buffer
		printer.Fprint(&b, p.fset, e)
		switch b.String() {
		case "[]byte", "string":
			return "bytes"
		case "*[]byte":
			return "ptr"
		case "int":
			return "int"
		case "bool":
			return "bool"
		case "Matcher":
			return "matcher"
		case "error":
			return "error"
		case "index.Int":
			return "ids"
		case "index.Bool":
			return "bools"
		case "[]string":
			return "strs"
		case "*bitset":
			return "bitset"
		case "Column":
			if f.pkg == "internal/scolumn" {
				return "scol"
			}
		}
		return ""
	}
	for _, fl := range fd.Type.Params.List {
		k := typeOf(fl.Type)
		if k == "" {
			problem("internal/strings translation, function %s: argument type not understood", f.goName)
			return false
		}
		for _, n := range fl.Names {
			f.params = append(f.params, gqVar{n.Name, k})
			if k == "ptr" {
				f.ptrs = append(f.ptrs, n.Name)
			}
		}
	}
	if fd.Type.Results != nil {
		for _, fl := range fd.Type.Results.List {
			k := typeOf(fl.Type)
			if k == "error" && len(fl.Names) == 0 && !f.errRes {
				f.errRes = true
				continue
			}
			if (k != "bytes" && k != "int" && k != "matcher" && k != "bool" && k != "bitset") || len(fl.Names) > 0 || f.errRes {
				problem("internal/strings translation, function %s: result type not understood", f.goName)
				return false
			}
			f.results = append(f.results, k)
		}
	}
	for _, v := range f.params {
		if v.kind == "bools" && gqAssigned(fd.Body)[v.name] {
			f.outs = append(f.outs, v.name)
		}
	}
	if len(f.results)+len(f.ptrs)+len(f.outs) == 0 {
		problem("internal/strings translation, function %s: no result", f.goName)
		return false
	}
	return true
}

func (f *gqFunc) resultType() string {
	var tys []string
	for _, k := range f.results {
		tys = append(tys, gqCoqType(k))
	}
	for range f.ptrs {
		tys = append(tys, "bytes")
	}
	for range f.fields {
		tys = append(tys, "bytes")
	}
	for range f.outs {
		tys = append(tys, "(list bool)")
	}
	return "outcome " + gsTypeTuple(tys)
}

func gqTranslate(p *pkgInfo, f *gqFunc) {
	t := &gqTr{p: p, f: f}
	c := gqCtx{}
	c.vars = append(c.vars, f.fields...)
	c.vars = append(c.vars, f.params...)
	c.ret = func(res []gqVal) string {
		if len(res) != len(f.results) {
			t.fail(f.fd, "return with %d values, the function has %d results", len(res), len(f.results))
			return "Panic"
		}
		var parts []string
		for i, r := range res {
			switch f.results[i] {
			case "bytes":
				parts = append(parts, t.asBytes(f.fd, r))
			case "matcher":
				if r.kind != "matcher" {
					t.fail(f.fd, "a matcher is returned as %s", r.kind)
				}
				parts = append(parts, r.text)
			case "bool", "bitset":
				if r.kind != f.results[i] {
					t.fail(f.fd, "a %s is returned as %s", f.results[i], r.kind)
				}
				parts = append(parts, r.text)
			default:
				parts = append(parts, t.asZ(f.fd, r, false))
			}
		}
		for _, n := range f.ptrs {
			parts = append(parts, "v_"+n)
		}
		for _, v := range f.fields {
			parts = append(parts, "v_"+v.name)
		}
		for _, n := range f.outs {
			parts = append(parts, "v_"+n)
		}
		return "Ok " + gsTuple(parts)
	}
	body := t.stmts(f.fd.Body.List, c, func(c2 gqCtx) string {
		t.fail(f.fd, "the function can fall off its end")
		return "Panic"
	})
	var sig []string
	sig = append(sig, "(fuel : nat)")
	for _, v := range f.fields {
		sig = append(sig, "(v_"+v.name+" : "+gqCoqType(v.kind)+")")
	}
	for _, v := range f.params {
		sig = append(sig, "(v_"+v.name+" : "+gqCoqType(v.kind)+")")
	}
	var b strings.Builder
	fmt.Fprintf(&b, "(* %s\n%s *)\n", f.pkg, gsSource(p, f.fd))
	for _, l := range t.loops {
		b.WriteString(l)
	}
	fmt.Fprintf(&b, "Definition %s %s : %s :=\n  match fuel with\n  | O => Panic\n  | S fuel' =>\n%s\n  end.\n",
		f.coq, strings.Join(sig, " "), f.resultType(), gsIndent(gsIndent(body)))
	f.text = b.String()
	f.ok = !t.bad
}

func gqFileText(p *pkgInfo, f *ast.File) string {
	var b bytes.Buffer
	printer.Fprint(&b, p.fset, f)
	return b.String()
}

func genStrSer() string {
	p := loadPkg(gqPkg)
	for name, want := range gqVocabulary {
		fd, ok := p.funcs[name]
		if !ok || fd.Body == nil {
			problem("internal/strings translation: function %s not found in %s", name, gqPkg)
			continue
		}
		var b bytes.Buffer
		printer.Fprint(&b, p.fset, fd.Body)
		if b.String() != want {
			problem("internal/strings translation: the body of %s is not the one the translation stands for (the identity on the bytes)", name)
		}
	}
	var order []*gqFunc
	for _, v := range gqForeignVocabulary {
		fp := loadPkg(v.pkg)
		fd, ok := fp.funcs[v.fn]
		var b bytes.Buffer
		if ok && fd.Body != nil {
			printer.Fprint(&b, fp.fset, fd.Body)
		}
		if b.String() != v.body {
			problem("internal/strings translation: the body of %s.%s is not the one the translation stands for (%s)", v.pkg, v.fn, v.what)
		}
	}
	if e, ok := loadPkg("internal/ecolumn").files["bitset.go"]; !ok || !strings.Contains(gqFileText(loadPkg("internal/ecolumn"), e), "type bitset [4]uint64") {
		problem("internal/strings translation: internal/ecolumn type bitset is not [4]uint64")
	}
	for _, n := range gqSpecs {
		f := &gqFunc{goName: n, coq: "gst_" + strings.ReplaceAll(n, ".", "_"), pkg: gqPkg}
		if i := strings.Index(n, ":"); i >= 0 {
			f.pkg, f.goName = n[:i], n[i+1:]
			f.coq = "gst_" + f.pkg[strings.LastIndex(f.pkg, "/")+1:] + "_" + f.goName
		}
		gqFuncs[f.goName] = f
		order = append(order, f)
	}
	for _, f := range order {
		fp := loadPkg(f.pkg)
		fd, ok := fp.funcs[f.goName]
		if !ok || fd.Body == nil {
			problem("internal/strings translation: function %s not found in %s", f.goName, f.pkg)
			continue
		}
		f.fd = fd
		if !gqSignature(fp, f) {
			f.fd = nil
		}
	}
	for _, f := range order {
		if f.fd != nil {
			gqTranslate(loadPkg(f.pkg), f)
		}
		f.done = true
	}
	golden := ""
	if fl := flag.Lookup("golden"); fl != nil && fl.Value.String() != "" {
		if gb, err := os.ReadFile(filepath.Join(fl.Value.String(), "GenStrSer.v")); err == nil {
			golden = string(gb)
		}
	}
	var b strings.Builder
	b.WriteString(gqPreamble)
	// the package level string constants the functions mention
	{
		text := ""
		for _, n := range gqConstsUsed {
			text += fmt.Sprintf("(* %s: const %s = %s *)\nDefinition gst_c_%s : bytes := %s.\n", gqPkg, n,
				strings.ReplaceAll(strconv.Quote(gqConstText[n]), "\"", "'"), n, gqBytesLit(gqConstText[n]))
		}
		if old, found := gfGoldenBlock(golden, "gst_constants"); found {
			// a constant the golden copy has and the current source lacks keeps its old value (FALLBACK)
			for _, line := range strings.Split(old, "\n") {
				if strings.HasPrefix(line, "Definition gst_c_") {
					name := strings.TrimPrefix(strings.Fields(line)[1], "gst_c_")
					if _, have := gqConstText[name]; !have {
						text += "(* FALLBACK gst_c_" + name + ": not derivable from the current source; value of the last validated tree *)\n" + line + "\n"
					}
				}
			}
		}
		fmt.Fprintf(&b, "(* BEGIN gst_constants *)\n%s(* END gst_constants *)\n\n", text)
	}
	{
		// the Matcher implementations the composite literals of NewMatcher build, from their type declarations
		text := "(* the structs behind Matcher that NewMatcher builds (a *regexp.Regexp is the text it was compiled from) *)\nInductive gst_Matcher :=\n"
		for _, n := range gqMatcherTypes {
			text += "| gst_" + n
			for _, f := range gqMatcherFields[n] {
				text += " (" + f + " : bytes)"
			}
			text += "\n"
		}
		text = strings.TrimRight(text, "\n") + ".\n"
		if len(gqMatcherTypes) == 0 {
			if old, found := gfGoldenBlock(golden, "gst_Matcher"); found {
				text = "(* FALLBACK gst_Matcher: not derivable from the current source; text of the last validated tree *)\n" + old
			} else {
				text = "Inductive gst_Matcher := gst_no_matcher.\n"
			}
		}
		fmt.Fprintf(&b, "(* BEGIN gst_Matcher *)\n%s(* END gst_Matcher *)\n\n", text)
	}
	b.WriteString("Section GenStrSer.\n(* unicode.ToUpper; strings.ToUpper; regexp.Compile(x) succeeds *)\nVariable upper : Z -> Z.\nVariable str_upper : bytes -> bytes.\nVariable re_compile : bytes -> bool.\n(* (r *regexp.Regexp).MatchString(s), r given by the text it was compiled from *)\nVariable re_MatchString : bytes -> bytes -> bool.\n\n")
	emitDispatch := func() { gqDispatch(&b, golden) }
	lastMethod := -1
	for i, f := range order {
		if strings.HasSuffix(f.goName, ".Matches") {
			lastMethod = i
		}
	}
	for i, f := range order {
		text := f.text
		if !f.ok {
			old, found := gfGoldenBlock(golden, f.coq)
			if !found {
				continue
			}
			text = "(* FALLBACK " + f.coq + ": not derivable from the current source; text of the last validated tree *)\n" + old
		}
		fmt.Fprintf(&b, "(* BEGIN %s *)\n%s(* END %s *)\n\n", f.coq, text, f.coq)
		if i == lastMethod {
			emitDispatch()
		}
	}
	b.WriteString("End GenStrSer.\n")
	return b.String()
}

// gqDispatch: matcher.Matches(s) on the interface value: the dynamic dispatch over the structs NewMatcher builds
func gqDispatch(b *strings.Builder, golden string) {
	{
		text := "(* the method call m.Matches(s) on a Matcher: dispatch on the dynamic type; the matcher is answered too\n   (the receivers are pointers: a CI matcher keeps the buffer ToUpper leaves behind) *)\n" +
			"Definition gst_Matches (fuel : nat) (m : gst_Matcher) (v_s : bytes) : outcome (bool * gst_Matcher) :=\n  match fuel with\n  | O => Panic\n  | S fuel' =>\n    match m with\n"
		okAll := len(gqMatcherTypes) > 0
		for _, n := range gqMatcherTypes {
			g, have := gqFuncs[n+".Matches"]
			if !have || !g.ok || len(g.fields) != len(gqMatcherFields[n]) || len(g.results) != 1 || g.results[0] != "bool" || len(g.params) != 1 || g.params[0].kind != "bytes" {
				problem("internal/strings translation: no translated method Matches(s string) bool on *%s", n)
				okAll = false
				continue
			}
			var fs []string
			for _, f := range gqMatcherFields[n] {
				fs = append(fs, "f_"+f)
			}
			text += "    | gst_" + n + " " + strings.Join(fs, " ") + " =>\n        do " + gsTuple(append([]string{"r"}, fs...)) + " <- " + g.coq + " fuel' " + strings.Join(fs, " ") + " v_s;\n        Ok (r, gst_" + n + " " + strings.Join(fs, " ") + ")\n"
		}
		text += "    end\n  end.\n"
		if !okAll {
			if old, found := gfGoldenBlock(golden, "gst_Matches"); found {
				text = "(* FALLBACK gst_Matches: not derivable from the current source; text of the last validated tree *)\n" + old
			} else {
				text = ""
			}
		}
		fmt.Fprintf(b, "(* BEGIN gst_Matches *)\n%s(* END gst_Matches *)\n\n", text)
	}
}
