package main

// Translation of internal/fastcsv/csv.go into Gallina (coq/Gen/GenFastCsv.v, tie T1 for the CSV scanner).
//
// The struct types eofReaderWrapper, bufferedReader, fields, Reader become records, the functions listed in
// gvSpecs are translated statement by statement into state-passing definitions gv_<Receiver>_<name>.
// coq/Proofs/GenFastCsvProofs.v proves every generated definition equal to the hand-written model of
// coq/Model/FastCsv.v (the one the csv engine executes), so that an edit of csv.go changes the generated text and
// breaks a named theorem T1_csv_<name> of coq/Properties/T1Csv.v, while the theorems of C12 / C15 keep talking
// about the model.
//
// THE SCHEME (anything that does not fit is reported through problem(...); the block then keeps the text of the
// golden copy, marked FALLBACK, so that the development still builds — the exit status says the tie is broken).
//
//	io.Reader   THE ABSTRACTION BOUNDARY.  The underlying reader is a value of an arbitrary type R together with an
//	            arbitrary function  read : R -> Z -> list N * gv_error * R  (section variables): asked for at most
//	            c bytes it answers the bytes it delivers, its error and its next state.  X.Read(p) on such a value is
//	            gv_io_read: n = the number of delivered bytes, which are written to the start of the window p; an
//	            answer longer than the window is a Panic (such a reader writes outside p); the rest of the window
//	            is left alone (Go allows a reader to scribble there: abstracted, those bytes are never looked at).
//	            The place bufferedReader.r (static type io.Reader) has the finer type eofReaderWrapper: the
//	            translator's type check accepts only such a value there (NewReader stores &eofReaderWrapper{r: r}),
//	            so b.r.Read is the translated eofReaderWrapper.Read.
//	errors      gv_error = gv_nil | gv_EOF | gv_other.  io.EOF ITSELF is gv_EOF, every other non-nil error is the
//	            one value gv_other; errors may only be compared (== / !=) with each other, stored and returned.
//	[]byte      four finer types, fixed per place (gvPlaces) or inferred from the initialiser:
//	            buf    a slice that OWNS its backing array (bufferedReader.data, the result of make([]byte, n, c)):
//	                   gv_buf = (array from the slice start up to the capacity, len); cap = length of the array.
//	            view   a slice expression X[lo:hi] of a buf, stored or returned (fields.field, the elements of
//	                   fieldsBuffer, the first result of nextQuotedField): the pair (lo, hi) of offsets INTO THE ARRAY
//	                   OF THE SCAN BUFFER.  The identity of the array is abstracted: a view made before more()
//	                   reallocated the array is read from the new array (which starts with a copy of the old one;
//	                   bytes in front of the field being scanned are never written again; trusted, as in the header of
//	                   Model/FastCsv.v — the csv engine compares the copied-out rows).  v[i] and v[lo:hi] of a view are
//	                   taken in the data of the one bufferedReader reachable from the receiver.  nil is (0, 0).
//	            views  [][]byte: list of views; make([][]byte, 0, c) and x[:0] are [], append is ++ [v] (the
//	                   capacity of this slice is not observable and not kept).
//	            win    the []byte argument of a Read: (length of the window, bytes written to its start).  A slice
//	                   expression of a buf passed to Read is bounds-checked, turned into a window, and the bytes
//	                   written come back into the array at its lower bound (gv_win_blit).
//	            b[i] / b[lo:hi] / b = b[:hi] (gv_index / gv_slice / gv_reslice) panic exactly when Go does (index
//	            against len, slice bounds against cap).  copy(dst, src) on (slice expressions of) bufs is gv_copy:
//	            min(len dst, len src) bytes, all read before any is written (memmove).
//	integers    Go int -> Z, exact (positions, lengths, counters: overflow of int is outside the translation as it
//	            is outside the model); % is Z.rem, / is Z.quot; x > y is (y <? x).  byte -> N, only compared.
//	records     struct -> Record gv_<T> R with one projection gv_<T>_<field> and one setter gv_<T>_set_<field> per
//	            field; generated from the type declarations.
//	pointers    *T (receivers, the argument of nextQuotedField, &T{..}) is the T value itself, threaded through:
//	            a function answers  outcome (r1 * .. * rn * out1 * .. * outm)  where the outs are, in this order, its
//	            pointer / window arguments and last its pointer receiver.  At a call x.m(..) / f(&x.y, ..) the new
//	            values are stored back into the places they were taken from.  Sound because the callee has no other
//	            access path to the pointee.  Such a call may only stand as a statement, as the only right-hand side
//	            of an assignment / if-init, as a whole condition or as the only returned value.
//	fuel        a function that contains a loop or calls such a function takes (fuel : nat) first:
//	            gv_f fuel .. = match fuel with O => Panic | S fuel' => body end; inside body every for loop is entered
//	            with the budget fuel' (each entry afresh), every call of a fuelled function gets fuel'.  The other
//	            functions take no fuel.  Panic = Go panic OR fuel used up.
//	statements  const c = 1; x := e; x = e; x.f.g = e; x++; a, b := f(..); p.f, p.g = f(..); x.m(..); copy(..)
//	conditions  && and || are if-then-else (Go's short circuit); when the right operand can panic (an index
//	            expression) the condition is computed as an outcome first: do t <- (if a then .. else Ok false).
//	if          with or without init statement.  When no branch leaves the statement (no return / break /
//	            continue inside): do (assigned outer variables) <- (if c then ..; Ok (..) else ..; Ok (..)); rest.
//	            Otherwise the rest of the block is continued inside the branches that fall through.
//	switch      switch tag { case a: .. case b, c: .. default: .. } is the if-chain tag == a, tag == b || tag == c ..
//	            in source order (no fallthrough, no break inside); the rest of the block continues in the cases that
//	            fall through.
//	for         for [cond] { body }: a Fixpoint gv_f_loopN over its own counter k (O => Panic), numbered in order of
//	            completion (inner loops first), taking [fuel'] k and the variables it mentions; continue = the next
//	            trip.  Three kinds, by what happens inside:
//	            A  no return inside: answers the outer variables it assigns; exit (cond false / break) = Ok (those).
//	            B  return inside, no condition and no break (never left otherwise): answers the function's result;
//	               the call is the last thing the enclosing block does.
//	            C  return inside and a normal exit: answers  result + (assigned outer variables):  inl r = the
//	               function returned r, inr vs = the loop was left normally; the call site matches on it.
//	rejected    goto, labels, fallthrough, defer, closures, shadowing, range, break inside switch, 3-index slices,
//	            calls with side effects inside expressions, arithmetic on bytes, everything else.

import (
	"flag"
	"fmt"
	"go/ast"
	"go/token"
	"math/big"
	"os"
	"path/filepath"
	"strings"
)

const gvPkg = "internal/fastcsv"

// in dependency order (a callee before its callers)
var gvSpecs = []string{"eofReaderWrapper.Read", "bufferedReader.more", "bufferedReader.reset", "fields.reset",
	"fields.nextUnquotedField", "nextQuotedField", "fields.next", "Reader.Next", "Reader.Fields", "Reader.Err",
	"Reader.Read", "NewReader"}

// the structs that become records, in dependency order
var gvStructs = []string{"eofReaderWrapper", "bufferedReader", "fields", "Reader"}

// the finer types of []byte / io.Reader places ("Struct.field", "function.argument", "function.resultN")
var gvPlaces = map[string]string{
	"eofReaderWrapper.r":      "rd",
	"bufferedReader.r":        "struct:eofReaderWrapper",
	"bufferedReader.data":     "buf",
	"fields.field":            "view",
	"eofReaderWrapper.Read.b": "win",
	"nextQuotedField.result0": "view",
	"NewReader.r":             "rd",
}

const gvPreamble1 = `(* GENERATED by tools/qf2coq (fastcsv.go) from internal/fastcsv/csv.go of tobgu/qframe — do not edit.
   One Record per struct, one definition gv_<Receiver>_<function> per translated Go function, one Fixpoint
   .._loopN per loop; the scheme is described at the top of tools/qf2coq/fastcsv.go.
   R / read : the underlying io.Reader (arbitrary state type, arbitrary answers: bytes, error, next state).
   gv_buf = (backing array up to the capacity, len): a []byte that owns its array; a view is the pair (lo, hi) of
   offsets into the array of the scan buffer; gv_win = (length, bytes written): the argument of a Read.
   Integers are Z (exact), bytes are N.  A function with a loop (or calling one) takes fuel first: O => Panic,
   S fuel' => the body, whose loops and fuelled calls all get fuel'.  Results: the Go results, then the new values
   of the pointer / window arguments, then the new receiver. *)
From QF Require Import Base.Prelude.
Local Open Scope Z_scope.

(* error values: nil, io.EOF itself, anything else *)
Inductive gv_error := gv_nil | gv_EOF | gv_other.
Definition gv_error_eqb (a b : gv_error) : bool :=
  match a, b with gv_nil, gv_nil | gv_EOF, gv_EOF | gv_other, gv_other => true | _, _ => false end.

Definition gv_buf : Type := list N * Z.
Definition gv_win : Type := Z * list N.
Definition gv_len (b : gv_buf) : Z := snd b.
Definition gv_cap (b : gv_buf) : Z := Z.of_nat (length (fst b)).
(* make([]byte, n, c) *)
Definition gv_make (n c : Z) : outcome gv_buf :=
  if (n <? 0) || (c <? n) then Panic else Ok (repeat 0%N (Z.to_nat c), n).
(* b[i] *)
Definition gv_index (b : gv_buf) (i : Z) : outcome N :=
  if (i <? 0) || (gv_len b <=? i) then Panic else idx (fst b) (Z.to_nat i).
(* b[lo:hi] as a view; b = b[:hi] *)
Definition gv_slice (b : gv_buf) (lo hi : Z) : outcome (Z * Z) :=
  if (lo <? 0) || (hi <? lo) || (gv_cap b <? hi) then Panic else Ok (lo, hi).
Definition gv_reslice (b : gv_buf) (hi : Z) : outcome gv_buf :=
  if (hi <? 0) || (gv_cap b <? hi) then Panic else Ok (fst b, hi).
(* len(v), v[i], v[lo:hi] of a view v into the scan buffer b *)
Definition gv_view_len (v : Z * Z) : Z := snd v - fst v.
Definition gv_view_index (b : gv_buf) (v : Z * Z) (i : Z) : outcome N :=
  if (i <? 0) || (gv_view_len v <=? i) then Panic else idx (fst b) (Z.to_nat (fst v + i)).
Definition gv_view_slice (b : gv_buf) (v : Z * Z) (lo hi : Z) : outcome (Z * Z) :=
  if (lo <? 0) || (hi <? lo) || (gv_cap b - fst v <? hi) then Panic else Ok (fst v + lo, fst v + hi).
(* writing bytes into an array from a position on *)
Definition gv_blit (a : list N) (pos : nat) (out : list N) : list N :=
  firstn pos a ++ out ++ skipn (pos + length out) a.
(* copy(dst[doff : doff+dlen], src[soff : soff+slen]) *)
Definition gv_copy (dst : gv_buf) (doff dlen : Z) (src : gv_buf) (soff slen : Z) : gv_buf :=
  (gv_blit (fst dst) (Z.to_nat doff) (firstn (Z.to_nat (Z.min dlen slen)) (skipn (Z.to_nat soff) (fst src))), snd dst).
(* the window b[lo:hi] handed to a Read, and the bytes written to it coming back *)
Definition gv_win_of (v : Z * Z) : gv_win := (snd v - fst v, []).
Definition gv_win_blit (b : gv_buf) (v : Z * Z) (w : gv_win) : gv_buf :=
  (gv_blit (fst b) (Z.to_nat (fst v)) (snd w), snd b).
(* x[i], x[i] = v on a [][]byte *)
Definition gv_list_index {T : Type} (s : list T) (i : Z) : outcome T :=
  if i <? 0 then Panic else idx s (Z.to_nat i).
Definition gv_list_update {T : Type} (s : list T) (i : Z) (v : T) : outcome (list T) :=
  if i <? 0 then Panic else do _ <- idx s (Z.to_nat i); Ok (set_nth s (Z.to_nat i) v).

`

const gvPreamble2 = `
Section GenFastCsv.
Context {R : Type}.
Variable read : R -> Z -> list N * gv_error * R.

(* X.Read(p) on the underlying reader *)
Definition gv_io_read (rd : R) (w : gv_win) : outcome (Z * gv_error * gv_win * R) :=
  let '(out, e, rd') := read rd (fst w) in
  if fst w <? Z.of_nat (length out) then Panic else Ok (Z.of_nat (length out), e, (fst w, out), rd').

`

// ------------------------------------------------------------------ types

type gvT struct {
	k     string // int bool byte err buf view views win rd struct const nil bad
	sname string
	ptr   bool
	val   *big.Rat
}

var (
	gvInt   = &gvT{k: "int"}
	gvBool  = &gvT{k: "bool"}
	gvByte  = &gvT{k: "byte"}
	gvErr   = &gvT{k: "err"}
	gvBuf   = &gvT{k: "buf"}
	gvView  = &gvT{k: "view"}
	gvViews = &gvT{k: "views"}
	gvWin   = &gvT{k: "win"}
	gvRd    = &gvT{k: "rd"}
	gvNil   = &gvT{k: "nil"}
	gvBad   = &gvT{k: "bad"}
)

func (t *gvT) same(u *gvT) bool { return t.k == u.k && t.sname == u.sname }

func (t *gvT) name() string {
	if t.k == "struct" {
		return t.sname
	}
	return t.k
}

func (t *gvT) coq() string {
	switch t.k {
	case "int":
		return "Z"
	case "bool":
		return "bool"
	case "byte":
		return "N"
	case "err":
		return "gv_error"
	case "buf":
		return "gv_buf"
	case "view":
		return "(Z * Z)"
	case "views":
		return "(list (Z * Z))"
	case "win":
		return "gv_win"
	case "rd":
		return "R"
	case "struct":
		if s := gvStructTab[t.sname]; s != nil {
			return s.tyApp()
		}
	}
	return "BAD"
}

func (t *gvT) zero() (string, bool) {
	switch t.k {
	case "int":
		return "0", true
	case "bool":
		return "false", true
	case "byte":
		return "0%N", true
	case "err":
		return "gv_nil", true
	case "buf":
		return "(@nil N, 0)", true
	case "view":
		return "(0, 0)", true
	case "views":
		return "[]", true
	}
	return "BAD", false
}

type gvField struct {
	name string
	t    *gvT
}

type gvStruct struct {
	name   string
	fields []gvField
	needR  bool
	ok     bool
}

var gvStructTab map[string]*gvStruct

// gvResolve maps a Go type expression to a translation type; place is "Struct.field" or "func.arg".
func gvResolve(p *pkgInfo, e ast.Expr, place string) *gvT {
	src := ggSrc(p.fset, e)
	fine := func() *gvT {
		pl, ok := gvPlaces[place]
		if !ok {
			return gvBad
		}
		if strings.HasPrefix(pl, "struct:") {
			return &gvT{k: "struct", sname: pl[len("struct:"):], ptr: true}
		}
		return &gvT{k: pl}
	}
	switch src {
	case "int":
		return gvInt
	case "bool":
		return gvBool
	case "byte":
		return gvByte
	case "error":
		return gvErr
	case "[][]byte":
		return gvViews
	case "[]byte", "io.Reader":
		return fine()
	}
	ptr := strings.HasPrefix(src, "*")
	base := strings.TrimPrefix(src, "*")
	for _, s := range gvStructs {
		if s == base {
			return &gvT{k: "struct", sname: s, ptr: ptr}
		}
	}
	return gvBad
}

func gvLoadStructs(p *pkgInfo) {
	gvStructTab = map[string]*gvStruct{}
	decls := map[string]*ast.StructType{}
	for _, f := range p.files {
		for _, d := range f.Decls {
			gd, ok := d.(*ast.GenDecl)
			if !ok || gd.Tok != token.TYPE {
				continue
			}
			for _, s := range gd.Specs {
				ts := s.(*ast.TypeSpec)
				if st, ok := ts.Type.(*ast.StructType); ok {
					decls[ts.Name.Name] = st
				}
			}
		}
	}
	for _, name := range gvStructs {
		s := &gvStruct{name: name, ok: true}
		gvStructTab[name] = s
		st, ok := decls[name]
		if !ok {
			problem("internal/fastcsv/csv.go translation: struct %s not found", name)
			s.ok = false
			continue
		}
		for _, fl := range st.Fields.List {
			if len(fl.Names) == 0 {
				problem("internal/fastcsv/csv.go translation: struct %s has an embedded field", name)
				s.ok = false
			}
			for _, n := range fl.Names {
				t := gvResolve(p, fl.Type, name+"."+n.Name)
				if t.k == "bad" || t.k == "win" {
					problem("internal/fastcsv/csv.go translation: field %s.%s has a type that is not understood: %s", name, n.Name, ggSrc(p.fset, fl.Type))
					s.ok = false
					continue
				}
				if t.k == "struct" {
					in := gvStructTab[t.sname]
					if in == nil {
						problem("internal/fastcsv/csv.go translation: field %s.%s uses struct %s before it is declared (order of gvStructs)", name, n.Name, t.sname)
						s.ok = false
						continue
					}
					if !in.ok {
						s.ok = false
					}
					if in.needR {
						s.needR = true
					}
				}
				if t.k == "rd" {
					s.needR = true
				}
				s.fields = append(s.fields, gvField{n.Name, t})
			}
		}
	}
}

func (s *gvStruct) field(name string) (*gvT, bool) {
	for _, f := range s.fields {
		if f.name == name {
			return f.t, true
		}
	}
	return nil, false
}

func (s *gvStruct) tyApp() string {
	if s.needR {
		return "(gv_" + s.name + " R)"
	}
	return "gv_" + s.name
}

// record text of one struct
func (s *gvStruct) record() string {
	var b strings.Builder
	par, imp := "", ""
	if s.needR {
		par, imp = " (R : Type)", " {R}"
	}
	fmt.Fprintf(&b, "Record gv_%s%s := gv_mk_%s {\n", s.name, par, s.name)
	for i, f := range s.fields {
		sep := ";"
		if i == len(s.fields)-1 {
			sep = " }."
		}
		fmt.Fprintf(&b, "  gv_%s_%s : %s%s\n", s.name, f.name, f.t.coq(), sep)
	}
	if s.needR {
		fmt.Fprintf(&b, "Arguments gv_mk_%s {R}.\n", s.name)
		for _, f := range s.fields {
			fmt.Fprintf(&b, "Arguments gv_%s_%s {R}.\n", s.name, f.name)
		}
	}
	for i, f := range s.fields {
		var args []string
		for j, g := range s.fields {
			if i == j {
				args = append(args, "v")
			} else {
				args = append(args, "(gv_"+s.name+"_"+g.name+" r)")
			}
		}
		fmt.Fprintf(&b, "Definition gv_%s_set_%s%s (r : %s) (v : %s) : %s :=\n  gv_mk_%s %s.\n", s.name, f.name, imp, s.tyApp(), f.t.coq(), s.tyApp(), s.name, strings.Join(args, " "))
	}
	return b.String()
}

// path from a struct to its (unique) field of kind buf, as a list of field names
func gvBufPath(sname string) ([]string, bool) {
	s := gvStructTab[sname]
	if s == nil {
		return nil, false
	}
	for _, f := range s.fields {
		if f.t.k == "buf" {
			return []string{sname + "." + f.name}, true
		}
	}
	for _, f := range s.fields {
		if f.t.k == "struct" {
			if rest, ok := gvBufPath(f.t.sname); ok {
				return append([]string{sname + "." + f.name}, rest...), true
			}
		}
	}
	return nil, false
}

// ------------------------------------------------------------------ translation context

type gvVar struct {
	name string
	t    *gvT
}

type gvFunc struct {
	goName    string
	coq       string
	fd        *ast.FuncDecl
	recv      string // Go name of the receiver, "" = none
	recvT     *gvT
	params    []gvVar
	results   []*gvT
	outs      []gvVar // what is answered after the results: pointer / window arguments, then the pointer receiver
	needsFuel bool
	done      bool
	ok        bool
	text      string
}

var gvFuncs map[string]*gvFunc // by Go name ("T.m" or "f")

type gvCtx struct {
	vars     []gvVar
	brk      func() string             // meaning of break; nil = not allowed here
	cont     func() string             // meaning of continue; nil = not inside a loop
	retv     func(tuple string) string // how the function's answer is handed on
	retPlain bool                      // retv(t) = "Ok t"
	nested   bool                      // inside an if / switch / loop (no re-typing of variables)
	inSwitch bool
}

type gvTr struct {
	p      *pkgInfo
	f      *gvFunc
	loops  []string
	bad    bool
	ntmp   int
	consts map[string]*big.Rat // constants declared inside the function
}

func (t *gvTr) fail(n ast.Node, format string, a ...interface{}) {
	pos := ""
	if n != nil {
		pos = t.p.fset.Position(n.Pos()).String() + ": "
	}
	problem("internal/fastcsv/csv.go translation, function %s: %s%s", t.f.goName, pos, fmt.Sprintf(format, a...))
	t.bad = true
}

func (t *gvTr) src(n ast.Node) string { return ggSrc(t.p.fset, n) }

func (t *gvTr) tmp() string {
	t.ntmp++
	return fmt.Sprintf("t%d", t.ntmp)
}

func (c gvCtx) lookup(name string) (gvVar, bool) {
	for i := len(c.vars) - 1; i >= 0; i-- {
		if c.vars[i].name == name {
			return c.vars[i], true
		}
	}
	return gvVar{}, false
}

// the data of the scan buffer reachable from the first struct variable in scope
func (t *gvTr) rootBuf(n ast.Node, c gvCtx) string {
	for _, v := range c.vars {
		if v.t.k != "struct" {
			continue
		}
		path, ok := gvBufPath(v.t.sname)
		if !ok {
			continue
		}
		text := "v_" + v.name
		for _, step := range path {
			text = "(gv_" + strings.Replace(step, ".", "_", 1) + " " + text + ")"
		}
		return text
	}
	t.fail(n, "a view is used where no scan buffer is reachable")
	return "(@nil N, 0)"
}

// ------------------------------------------------------------------ expressions

// coerce an untyped constant / nil to the wanted type
func (t *gvTr) coerce(n ast.Node, text string, ty *gvT, want *gvT) (string, *gvT) {
	if ty.k == "nil" {
		switch want.k {
		case "err":
			return "gv_nil", gvErr
		case "view":
			return "(0, 0)", gvView
		case "views":
			return "[]", gvViews
		}
		t.fail(n, "nil in a context of type %s", want.name())
		return text, want
	}
	if ty.k != "const" {
		return text, ty
	}
	if !ty.val.IsInt() {
		t.fail(n, "constant %s is not an integer", ty.val.String())
		return "0", want
	}
	switch want.k {
	case "int":
		if ty.val.Sign() < 0 {
			return "(" + ty.val.Num().String() + ")", gvInt
		}
		return ty.val.Num().String(), gvInt
	case "byte":
		if ty.val.Sign() < 0 || ty.val.Num().BitLen() > 8 {
			t.fail(n, "constant %s is not a byte", ty.val.String())
			return "0%N", gvByte
		}
		return ty.val.Num().String() + "%N", gvByte
	}
	t.fail(n, "constant %s in a context of type %s", ty.val.String(), want.name())
	return "0", want
}

func gvRoot(e ast.Expr) string { // root variable of x, x.f.g, x[i], x[a:b], &x, *x
	switch x := e.(type) {
	case *ast.Ident:
		return x.Name
	case *ast.SelectorExpr:
		return gvRoot(x.X)
	case *ast.IndexExpr:
		return gvRoot(x.X)
	case *ast.SliceExpr:
		return gvRoot(x.X)
	case *ast.ParenExpr:
		return gvRoot(x.X)
	case *ast.StarExpr:
		return gvRoot(x.X)
	case *ast.UnaryExpr:
		if x.Op == token.AND {
			return gvRoot(x.X)
		}
	}
	return ""
}

// the translated function a call expression calls (nil = none), and the receiver expression of a method call
func (t *gvTr) callee(ce *ast.CallExpr, c gvCtx) (*gvFunc, ast.Expr) {
	switch fn := ce.Fun.(type) {
	case *ast.Ident:
		if _, shadowed := c.lookup(fn.Name); shadowed {
			return nil, nil
		}
		if g, ok := gvFuncs[fn.Name]; ok && g.recv == "" {
			return g, nil
		}
	case *ast.SelectorExpr:
		if r := gvRoot(fn.X); r != "" {
			if _, known := c.lookup(r); known {
				var pre []string
				_, tr := t.expr(fn.X, c, &pre)
				if tr.k == "struct" {
					if g, ok := gvFuncs[tr.sname+"."+fn.Sel.Name]; ok {
						return g, fn.X
					}
				}
			}
		}
	}
	return nil, nil
}

// is this a call X.Read(p) on a value of the abstract reader type?
func (t *gvTr) isIoRead(ce *ast.CallExpr, c gvCtx) (ast.Expr, bool) {
	se, ok := ce.Fun.(*ast.SelectorExpr)
	if !ok || se.Sel.Name != "Read" || len(ce.Args) != 1 {
		return nil, false
	}
	if r := gvRoot(se.X); r == "" {
		return nil, false
	} else if _, known := c.lookup(r); !known {
		return nil, false
	}
	var pre []string
	_, tr := t.expr(se.X, c, &pre)
	return se.X, tr.k == "rd"
}

// expr translates an expression; operations that can panic are bound in *pre.
func (t *gvTr) expr(e ast.Expr, c gvCtx, pre *[]string) (string, *gvT) {
	switch x := e.(type) {
	case *ast.ParenExpr:
		return t.expr(x.X, c, pre)
	case *ast.BasicLit:
		if x.Kind == token.INT || x.Kind == token.CHAR {
			if v, ok := evalConst(t.p, x); ok {
				return "", &gvT{k: "const", val: v}
			}
		}
	case *ast.Ident:
		if v, ok := c.lookup(x.Name); ok {
			return "v_" + v.name, v.t
		}
		switch x.Name {
		case "true", "false":
			return x.Name, gvBool
		case "nil":
			return "", gvNil
		}
		if v, ok := t.consts[x.Name]; ok {
			return "", &gvT{k: "const", val: v}
		}
		if ce, ok := t.p.consts[x.Name]; ok {
			if v, ok := evalConst(t.p, ce); ok {
				return "", &gvT{k: "const", val: v}
			}
		}
		t.fail(e, "unknown identifier %s", x.Name)
		return "0", gvBad
	case *ast.SelectorExpr:
		if ggSelName(e) == "io.EOF" {
			if _, shadowed := c.lookup("io"); !shadowed {
				return "gv_EOF", gvErr
			}
		}
		a, ta := t.expr(x.X, c, pre)
		if ta.k == "struct" {
			s := gvStructTab[ta.sname]
			if ft, ok := s.field(x.Sel.Name); ok {
				return "(gv_" + s.name + "_" + x.Sel.Name + " " + a + ")", ft
			}
			t.fail(e, "%s has no field %s", s.name, x.Sel.Name)
			return "0", gvBad
		}
	case *ast.StarExpr:
		a, ta := t.expr(x.X, c, pre)
		if ta.k == "struct" && ta.ptr {
			return a, ta
		}
	case *ast.IndexExpr:
		a, ta := t.expr(x.X, c, pre)
		i, ti := t.expr(x.Index, c, pre)
		i, ti = t.coerce(x.Index, i, ti, gvInt)
		if ti.k != "int" {
			t.fail(e, "index of type %s", ti.name())
			return "0", gvBad
		}
		tmp := t.tmp()
		switch ta.k {
		case "buf":
			*pre = append(*pre, "do "+tmp+" <- gv_index "+a+" "+i+";\n")
			return tmp, gvByte
		case "view":
			*pre = append(*pre, "do "+tmp+" <- gv_view_index "+t.rootBuf(e, c)+" "+a+" "+i+";\n")
			return tmp, gvByte
		case "views":
			*pre = append(*pre, "do "+tmp+" <- gv_list_index "+a+" "+i+";\n")
			return tmp, gvView
		}
		t.fail(e, "indexing a %s", ta.name())
		return "0", gvBad
	case *ast.SliceExpr:
		return t.sliceExpr(x, c, pre)
	case *ast.UnaryExpr:
		switch x.Op {
		case token.NOT:
			a, ta := t.expr(x.X, c, pre)
			if ta.k == "bool" {
				return "(negb " + a + ")", gvBool
			}
		case token.AND:
			if cl, ok := x.X.(*ast.CompositeLit); ok {
				a, ta := t.composite(cl, c, pre)
				return a, &gvT{k: ta.k, sname: ta.sname, ptr: true}
			}
		}
	case *ast.BinaryExpr:
		return t.binary(x, c, pre)
	case *ast.CompositeLit:
		return t.composite(x, c, pre)
	case *ast.CallExpr:
		return t.call(x, c, pre)
	}
	t.fail(e, "expression not understood: %s", t.src(e))
	return "0", gvBad
}

func (t *gvTr) bound(e ast.Expr, dflt string, c gvCtx, pre *[]string) string {
	if e == nil {
		return dflt
	}
	a, ta := t.expr(e, c, pre)
	a, ta = t.coerce(e, a, ta, gvInt)
	if ta.k != "int" {
		t.fail(e, "slice bound of type %s", ta.name())
		return "0"
	}
	return a
}

func (t *gvTr) sliceExpr(x *ast.SliceExpr, c gvCtx, pre *[]string) (string, *gvT) {
	if x.Slice3 {
		t.fail(x, "3-index slice")
		return "(0, 0)", gvView
	}
	a, ta := t.expr(x.X, c, pre)
	switch ta.k {
	case "buf":
		lo := t.bound(x.Low, "0", c, pre)
		hi := t.bound(x.High, "(gv_len "+a+")", c, pre)
		tmp := t.tmp()
		*pre = append(*pre, "do "+tmp+" <- gv_slice "+a+" "+lo+" "+hi+";\n")
		return tmp, gvView
	case "view":
		lo := t.bound(x.Low, "0", c, pre)
		hi := t.bound(x.High, "(gv_view_len "+a+")", c, pre)
		tmp := t.tmp()
		*pre = append(*pre, "do "+tmp+" <- gv_view_slice "+t.rootBuf(x, c)+" "+a+" "+lo+" "+hi+";\n")
		return tmp, gvView
	case "views":
		if x.Low == nil && x.High != nil {
			if v, ok := evalConst(t.p, x.High); ok && v.Sign() == 0 {
				return "(@nil (Z * Z))", gvViews
			}
		}
		t.fail(x, "only x[:0] is understood on a [][]byte")
		return "[]", gvViews
	}
	t.fail(x, "slice expression on a %s", ta.name())
	return "(0, 0)", gvView
}

func (t *gvTr) composite(cl *ast.CompositeLit, c gvCtx, pre *[]string) (string, *gvT) {
	id, ok := cl.Type.(*ast.Ident)
	if !ok || gvStructTab[id.Name] == nil {
		t.fail(cl, "composite literal of a type that is not understood: %s", t.src(cl.Type))
		return "0", gvBad
	}
	s := gvStructTab[id.Name]
	vals := map[string]string{}
	for _, el := range cl.Elts {
		kv, ok := el.(*ast.KeyValueExpr)
		if !ok {
			t.fail(el, "%s literal without field names", s.name)
			continue
		}
		name := kv.Key.(*ast.Ident).Name
		ft, ok := s.field(name)
		if !ok {
			t.fail(el, "%s has no field %s", s.name, name)
			continue
		}
		a, ta := t.expr(kv.Value, c, pre)
		a, ta = t.coerce(kv.Value, a, ta, ft)
		if !ta.same(ft) {
			t.fail(el, "field %s.%s (a %s) initialised with a %s", s.name, name, ft.name(), ta.name())
		}
		vals[name] = a
	}
	var args []string
	for _, f := range s.fields {
		if v, ok := vals[f.name]; ok {
			args = append(args, v)
			continue
		}
		z, ok := f.t.zero()
		if !ok {
			t.fail(cl, "field %s.%s is left at its zero value, which has no translation (a nil io.Reader / an empty struct)", s.name, f.name)
		}
		args = append(args, z)
	}
	return "(gv_mk_" + s.name + " " + strings.Join(args, " ") + ")", &gvT{k: "struct", sname: s.name}
}

func (t *gvTr) binary(x *ast.BinaryExpr, c gvCtx, pre *[]string) (string, *gvT) {
	if x.Op == token.LAND || x.Op == token.LOR {
		a, ta := t.expr(x.X, c, pre)
		var preB []string
		b, tb := t.expr(x.Y, c, &preB)
		if ta.k != "bool" || tb.k != "bool" {
			t.fail(x, "%s on operands that are not conditions", x.Op)
			return "false", gvBool
		}
		if len(preB) == 0 {
			if x.Op == token.LAND {
				return "(if " + a + " then " + b + " else false)", gvBool
			}
			return "(if " + a + " then true else " + b + ")", gvBool
		}
		// the right operand can panic: it is only evaluated when the left one lets it
		tmp := t.tmp()
		inner := strings.Join(preB, "") + "Ok " + b
		if x.Op == token.LAND {
			*pre = append(*pre, "do "+tmp+" <- (if "+a+" then\n"+gsIndent(inner)+"\nelse Ok false);\n")
		} else {
			*pre = append(*pre, "do "+tmp+" <- (if "+a+" then Ok true else\n"+gsIndent(inner)+");\n")
		}
		return tmp, gvBool
	}
	a, ta := t.expr(x.X, c, pre)
	b, tb := t.expr(x.Y, c, pre)
	if ta.k == "const" && tb.k == "const" {
		var v *big.Rat
		switch x.Op {
		case token.ADD:
			v = new(big.Rat).Add(ta.val, tb.val)
		case token.SUB:
			v = new(big.Rat).Sub(ta.val, tb.val)
		case token.MUL:
			v = new(big.Rat).Mul(ta.val, tb.val)
		}
		if v != nil {
			return "", &gvT{k: "const", val: v}
		}
		t.fail(x, "constant expression not understood: %s", t.src(x))
		return "0", gvBad
	}
	if ta.k == "const" || ta.k == "nil" {
		a, ta = t.coerce(x.X, a, ta, tb)
	} else if tb.k == "const" || tb.k == "nil" {
		b, tb = t.coerce(x.Y, b, tb, ta)
	}
	if ta.k == "int" && tb.k == "int" {
		switch x.Op {
		case token.ADD:
			return "(" + a + " + " + b + ")", gvInt
		case token.SUB:
			return "(" + a + " - " + b + ")", gvInt
		case token.MUL:
			return "(" + a + " * " + b + ")", gvInt
		case token.REM:
			return "(Z.rem " + a + " " + b + ")", gvInt
		case token.QUO:
			return "(Z.quot " + a + " " + b + ")", gvInt
		case token.LSS:
			return "(" + a + " <? " + b + ")", gvBool
		case token.LEQ:
			return "(" + a + " <=? " + b + ")", gvBool
		case token.GTR:
			return "(" + b + " <? " + a + ")", gvBool
		case token.GEQ:
			return "(" + b + " <=? " + a + ")", gvBool
		case token.EQL:
			return "(" + a + " =? " + b + ")", gvBool
		case token.NEQ:
			return "(negb (" + a + " =? " + b + "))", gvBool
		}
	}
	if ta.k == "byte" && tb.k == "byte" {
		switch x.Op {
		case token.EQL:
			return "(N.eqb " + a + " " + b + ")", gvBool
		case token.NEQ:
			return "(negb (N.eqb " + a + " " + b + "))", gvBool
		}
	}
	if ta.k == "err" && tb.k == "err" {
		switch x.Op {
		case token.EQL:
			return "(gv_error_eqb " + a + " " + b + ")", gvBool
		case token.NEQ:
			return "(negb (gv_error_eqb " + a + " " + b + "))", gvBool
		}
	}
	if ta.k == "bool" && tb.k == "bool" && x.Op == token.EQL {
		return "(Bool.eqb " + a + " " + b + ")", gvBool
	}
	t.fail(x, "operator %s on %s and %s is not understood", x.Op, ta.name(), tb.name())
	return "0", gvBad
}

// call: calls that are plain expressions (built-ins); calls of translated functions are statements (callStmt)
func (t *gvTr) call(x *ast.CallExpr, c gvCtx, pre *[]string) (string, *gvT) {
	if id, ok := x.Fun.(*ast.Ident); ok {
		if _, shadowed := c.lookup(id.Name); shadowed {
			t.fail(x, "%s shadows a function", id.Name)
			return "0", gvBad
		}
		switch id.Name {
		case "len", "cap":
			if len(x.Args) == 1 {
				a, ta := t.expr(x.Args[0], c, pre)
				switch {
				case ta.k == "buf":
					return "(gv_" + id.Name + " " + a + ")", gvInt
				case ta.k == "view" && id.Name == "len":
					return "(gv_view_len " + a + ")", gvInt
				case ta.k == "views" && id.Name == "len":
					return "(Z.of_nat (length " + a + "))", gvInt
				case ta.k == "win" && id.Name == "len":
					return "(fst " + a + ")", gvInt
				}
			}
		case "append":
			if len(x.Args) == 2 {
				a, ta := t.expr(x.Args[0], c, pre)
				b, tb := t.expr(x.Args[1], c, pre)
				if ta.k == "views" && tb.k == "view" {
					return "(" + a + " ++ [" + b + "])", gvViews
				}
			}
		case "make":
			if len(x.Args) == 3 {
				n, tn := t.expr(x.Args[1], c, pre)
				n, tn = t.coerce(x.Args[1], n, tn, gvInt)
				cp, tc := t.expr(x.Args[2], c, pre)
				cp, tc = t.coerce(x.Args[2], cp, tc, gvInt)
				if tn.k == "int" && tc.k == "int" {
					switch t.src(x.Args[0]) {
					case "[]byte":
						tmp := t.tmp()
						*pre = append(*pre, "do "+tmp+" <- gv_make "+n+" "+cp+";\n")
						return tmp, gvBuf
					case "[][]byte":
						if v, ok := evalConst(t.p, x.Args[1]); ok && v.Sign() == 0 {
							return "(@nil (Z * Z))", gvViews
						}
					}
				}
			}
		}
	}
	if g, _ := t.callee(x, c); g != nil {
		t.fail(x, "a call of %s inside an expression (it changes state: only understood as a statement, a whole right-hand side, a whole condition or the only returned value)", g.goName)
		return "0", gvBad
	}
	t.fail(x, "call not understood: %s", t.src(x))
	return "0", gvBad
}

// ------------------------------------------------------------------ syntactic analyses

// escapes: the statement contains a return, or a break / continue that leaves the statement itself.
func gvEscapes(n ast.Node) bool {
	found := false
	var walk func(n ast.Node, loopDepth int)
	walk = func(n ast.Node, loopDepth int) {
		ast.Inspect(n, func(m ast.Node) bool {
			switch x := m.(type) {
			case *ast.ReturnStmt:
				found = true
			case *ast.BranchStmt:
				if loopDepth == 0 {
					found = true
				}
			case *ast.ForStmt:
				if m != n {
					walk(x.Body, loopDepth+1)
					return false
				}
			case *ast.FuncLit:
				return false
			}
			return true
		})
	}
	walk(n, 0)
	return found
}

// a break that leaves this loop body
func gvHasBreak(body *ast.BlockStmt) bool {
	found := false
	var walk func(n ast.Node)
	walk = func(n ast.Node) {
		ast.Inspect(n, func(m ast.Node) bool {
			switch x := m.(type) {
			case *ast.BranchStmt:
				if x.Tok == token.BREAK {
					found = true
				}
			case *ast.ForStmt, *ast.RangeStmt, *ast.SwitchStmt, *ast.SelectStmt, *ast.FuncLit:
				return false
			}
			return true
		})
	}
	walk(body)
	return found
}

// assigned: the variables of c (in order) that the nodes may change (an over-approximation).
func (t *gvTr) assigned(c gvCtx, nodes ...ast.Node) []gvVar {
	names := map[string]bool{}
	mark := func(e ast.Expr) {
		if r := gvRoot(e); r != "" {
			names[r] = true
		}
	}
	for _, n := range nodes {
		if n == nil {
			continue
		}
		ast.Inspect(n, func(m ast.Node) bool {
			switch x := m.(type) {
			case *ast.AssignStmt:
				if x.Tok != token.DEFINE {
					for _, l := range x.Lhs {
						mark(l)
					}
				}
			case *ast.IncDecStmt:
				mark(x.X)
			case *ast.CallExpr:
				if se, ok := x.Fun.(*ast.SelectorExpr); ok {
					mark(se.X)
				}
				if id, ok := x.Fun.(*ast.Ident); ok && id.Name == "copy" && len(x.Args) > 0 {
					mark(x.Args[0])
				}
				for _, a := range x.Args {
					if u, ok := a.(*ast.UnaryExpr); ok && u.Op == token.AND {
						mark(u.X)
					}
					if se, ok := x.Fun.(*ast.SelectorExpr); ok && se.Sel.Name == "Read" {
						mark(a)
					}
				}
			}
			return true
		})
	}
	var out []gvVar
	for _, v := range c.vars {
		if names[v.name] {
			out = append(out, v)
		}
	}
	return out
}

func gvVarNames(vs []gvVar) []string {
	var out []string
	for _, v := range vs {
		out = append(out, "v_"+v.name)
	}
	return out
}

func gvVarTypes(vs []gvVar) []string {
	var out []string
	for _, v := range vs {
		out = append(out, v.t.coq())
	}
	return out
}

func gvTupleOrUnit(parts []string) string {
	if len(parts) == 0 {
		return "tt"
	}
	return ggTuple(parts)
}

func gvTypeTupleOrUnit(parts []string) string {
	if len(parts) == 0 {
		return "unit"
	}
	return ggTypeTuple(parts)
}

// ------------------------------------------------------------------ statements

func (t *gvTr) declare(n ast.Node, c *gvCtx, name string, ty *gvT) {
	if _, dup := c.lookup(name); dup {
		t.fail(n, "%s shadows / redeclares a variable", name)
	}
	if _, isC := t.consts[name]; isC {
		t.fail(n, "%s shadows a constant", name)
	}
	if _, isFn := gvFuncs[name]; isFn {
		t.fail(n, "%s shadows a function", name)
	}
	if ty.k == "const" || ty.k == "nil" || ty.k == "bad" {
		t.fail(n, "variable %s of a type that is not understood", name)
		ty = gvInt
	}
	c.vars = append(c.vars, gvVar{name, &gvT{k: ty.k, sname: ty.sname, ptr: ty.ptr}})
}

// store: the statement(s) that give the place lhs the value val.
func (t *gvTr) store(lhs ast.Expr, val string, tv *gvT, c *gvCtx, pre *[]string) string {
	switch x := lhs.(type) {
	case *ast.ParenExpr:
		return t.store(x.X, val, tv, c, pre)
	case *ast.StarExpr:
		return t.store(x.X, val, tv, c, pre)
	case *ast.Ident:
		if x.Name == "_" {
			return ""
		}
		for i := len(c.vars) - 1; i >= 0; i-- {
			if c.vars[i].name != x.Name {
				continue
			}
			v := c.vars[i]
			if v.t.k == "rd" && tv.k == "struct" && gvPlaces["bufferedReader.r"] == "struct:"+tv.sname {
				// a variable of interface type io.Reader receives the wrapper: from here on it has the finer type
				if c.nested {
					t.fail(lhs, "the io.Reader variable %s changes its dynamic type inside a branch or loop", x.Name)
				}
				vars := append([]gvVar{}, c.vars...)
				vars[i] = gvVar{x.Name, &gvT{k: "struct", sname: tv.sname, ptr: true}}
				c.vars = vars
			} else if !tv.same(v.t) {
				t.fail(lhs, "assignment to %s: a %s where a %s is expected", x.Name, tv.name(), v.t.name())
			}
			return "let v_" + x.Name + " := " + val + " in\n"
		}
		t.fail(lhs, "unknown variable %s", x.Name)
		return ""
	case *ast.SelectorExpr:
		a, ta := t.expr(x.X, *c, pre)
		if ta.k != "struct" {
			t.fail(lhs, "assignment to a field of a %s", ta.name())
			return ""
		}
		s := gvStructTab[ta.sname]
		ft, ok := s.field(x.Sel.Name)
		if !ok {
			t.fail(lhs, "%s has no field %s", s.name, x.Sel.Name)
			return ""
		}
		if !tv.same(ft) {
			t.fail(lhs, "assignment to .%s: a %s where a %s is expected", x.Sel.Name, tv.name(), ft.name())
		}
		return t.store(x.X, "(gv_"+s.name+"_set_"+x.Sel.Name+" "+a+" "+val+")", ta, c, pre)
	case *ast.IndexExpr:
		a, ta := t.expr(x.X, *c, pre)
		i, ti := t.expr(x.Index, *c, pre)
		i, ti = t.coerce(x.Index, i, ti, gvInt)
		if ta.k != "views" || ti.k != "int" || tv.k != "view" {
			t.fail(lhs, "index assignment not understood")
			return ""
		}
		tmp := t.tmp()
		return "do " + tmp + " <- gv_list_update " + a + " " + i + " " + val + ";\n" + t.store(x.X, tmp, ta, c, pre)
	}
	t.fail(lhs, "assignment to %s", t.src(lhs))
	return ""
}

// callStmt: a call of a translated function (or a Read of the underlying reader) with the stores of its outs.
// Answers the text (ending in a newline), the temporaries holding the Go results and their types.
func (t *gvTr) callStmt(ce *ast.CallExpr, c *gvCtx) (string, []string, []*gvT, bool) {
	var pre []string
	type back struct {
		lval ast.Expr // place to store into (nil = none)
		win  ast.Expr // for a window made from a slice expression: the buf it was sliced from
		view string   // .. and the view temporary
		tmp  string
		ty   *gvT
	}
	var backs []back
	var head string
	var resT []*gvT
	var outT []*gvT

	winArg := func(a ast.Expr) (string, back) {
		if se, ok := a.(*ast.SliceExpr); ok {
			var p2 []string
			_, tx := t.expr(se.X, *c, &p2)
			if tx.k == "buf" {
				v, _ := t.sliceExpr(se, *c, &pre)
				return "(gv_win_of " + v + ")", back{win: se.X, view: v, ty: gvWin}
			}
		}
		txt, ty := t.expr(a, *c, &pre)
		if ty.k == "win" {
			return txt, back{lval: a, ty: gvWin}
		}
		t.fail(a, "the argument of Read is neither a slice expression of a buffer nor a window")
		return "(0, [])", back{ty: gvWin}
	}

	if rx, ok := t.isIoRead(ce, *c); ok {
		r, _ := t.expr(rx, *c, &pre)
		w, bk := winArg(ce.Args[0])
		head = "gv_io_read " + r + " " + w
		resT = []*gvT{gvInt, gvErr}
		backs = append(backs, bk, back{lval: rx, ty: gvRd})
		outT = []*gvT{gvWin, gvRd}
	} else {
		g, rx := t.callee(ce, *c)
		if g == nil {
			return "", nil, nil, false
		}
		if g == t.f {
			t.fail(ce, "recursion")
		} else if !g.done {
			t.fail(ce, "%s is called before it is translated (order of gvSpecs)", g.goName)
		}
		if len(ce.Args) != len(g.params) {
			t.fail(ce, "%s takes %d arguments", g.goName, len(g.params))
			return "Panic\n", nil, nil, true
		}
		parts := []string{g.coq}
		if g.needsFuel {
			parts = append(parts, "fuel'")
		}
		var recvBack *back
		if g.recv != "" {
			r, tr := t.expr(rx, *c, &pre)
			if !tr.same(g.recvT) {
				t.fail(ce, "receiver of %s is a %s", g.goName, tr.name())
			}
			parts = append(parts, r)
			if g.recvT.ptr {
				recvBack = &back{lval: rx, ty: g.recvT}
			}
		}
		for i, a := range ce.Args {
			want := g.params[i].t
			switch {
			case want.k == "win":
				w, bk := winArg(a)
				parts = append(parts, w)
				backs = append(backs, bk)
				outT = append(outT, gvWin)
			case want.k == "struct" && want.ptr:
				lv := a
				if u, ok := a.(*ast.UnaryExpr); ok && u.Op == token.AND {
					lv = u.X
				}
				txt, ty := t.expr(lv, *c, &pre)
				if !ty.same(want) {
					t.fail(a, "argument of type %s where %s expects %s", ty.name(), g.goName, want.name())
				}
				if gvRoot(lv) == "" {
					t.fail(a, "a pointer argument that is not the address of a place")
				}
				parts = append(parts, txt)
				backs = append(backs, back{lval: lv, ty: want})
				outT = append(outT, want)
			default:
				txt, ty := t.expr(a, *c, &pre)
				txt, ty = t.coerce(a, txt, ty, want)
				if !ty.same(want) {
					t.fail(a, "argument of type %s where %s expects %s", ty.name(), g.goName, want.name())
				}
				parts = append(parts, txt)
			}
		}
		if recvBack != nil {
			backs = append(backs, *recvBack)
			outT = append(outT, g.recvT)
		}
		head = strings.Join(parts, " ")
		resT = g.results
	}
	var pat, res []string
	for range resT {
		tmp := t.tmp()
		pat = append(pat, tmp)
		res = append(res, tmp)
	}
	for i := range backs {
		backs[i].tmp = t.tmp()
		pat = append(pat, backs[i].tmp)
	}
	text := strings.Join(pre, "") + "do " + gvTupleOrUnit(pat) + " <- " + head + ";\n"
	// the receiver first (it may contain the buffer a window was cut from), then the other outs
	order := make([]back, 0, len(backs))
	for i := len(backs) - 1; i >= 0; i-- {
		order = append(order, backs[i])
	}
	for _, bk := range order {
		var p2 []string
		switch {
		case bk.win != nil:
			bt, _ := t.expr(bk.win, *c, &p2)
			text += t.store(bk.win, "(gv_win_blit "+bt+" "+bk.view+" "+bk.tmp+")", gvBuf, c, &p2)
		case bk.lval != nil:
			text += t.store(bk.lval, bk.tmp, bk.ty, c, &p2)
		}
		if len(p2) != 0 {
			t.fail(ce, "storing back the result of the call needs an operation that can panic")
		}
	}
	return text, res, resT, true
}

// region of a copy operand: the buf it lives in (as a place), offset and length
func (t *gvTr) region(e ast.Expr, c gvCtx, pre *[]string) (ast.Expr, string, string, string) {
	if se, ok := e.(*ast.SliceExpr); ok {
		var p2 []string
		b, tb := t.expr(se.X, c, &p2)
		if tb.k == "buf" {
			v, _ := t.sliceExpr(se, c, pre)
			return se.X, b, "(fst " + v + ")", "(gv_view_len " + v + ")"
		}
	}
	b, tb := t.expr(e, c, pre)
	if tb.k != "buf" {
		t.fail(e, "copy operand that is neither a buffer nor a slice expression of one")
		return nil, "(@nil N, 0)", "0", "0"
	}
	return e, b, "0", "(gv_len " + b + ")"
}

// simple: a statement without control flow, as a prefix "let .. in\n" / "do .. <- ..;\n"
func (t *gvTr) simple(st ast.Stmt, c *gvCtx) (string, bool) {
	var pre []string
	wrap := func(s string) string { return strings.Join(pre, "") + s }
	switch x := st.(type) {
	case *ast.DeclStmt:
		gd, ok := x.Decl.(*ast.GenDecl)
		if !ok || gd.Tok != token.CONST {
			return "", false
		}
		for _, sp := range gd.Specs {
			vs := sp.(*ast.ValueSpec)
			if vs.Type != nil || len(vs.Values) != len(vs.Names) {
				t.fail(st, "only `const c = value` is understood")
				return "", true
			}
			for i, n := range vs.Names {
				_, ty := t.expr(vs.Values[i], *c, &pre)
				if ty.k != "const" {
					t.fail(st, "constant %s is not a constant expression I can evaluate", n.Name)
					return "", true
				}
				if _, dup := c.lookup(n.Name); dup {
					t.fail(st, "%s shadows a variable", n.Name)
				}
				if _, dup := t.consts[n.Name]; dup {
					t.fail(st, "%s is declared twice", n.Name)
				}
				t.consts[n.Name] = ty.val
			}
		}
		return "", true
	case *ast.IncDecStmt:
		a, ta := t.expr(x.X, *c, &pre)
		if ta.k != "int" {
			t.fail(st, "%s on a %s", x.Tok, ta.name())
			return "", true
		}
		op := " + 1"
		if x.Tok == token.DEC {
			op = " - 1"
		}
		return wrap(t.store(x.X, "("+a+op+")", ta, c, &pre)), true
	case *ast.ExprStmt:
		ce, ok := x.X.(*ast.CallExpr)
		if !ok {
			return "", false
		}
		if id, ok := ce.Fun.(*ast.Ident); ok && id.Name == "copy" && len(ce.Args) == 2 {
			if _, shadowed := c.lookup("copy"); !shadowed {
				dl, d, doff, dlen := t.region(ce.Args[0], *c, &pre)
				_, s, soff, slen := t.region(ce.Args[1], *c, &pre)
				if dl == nil {
					return "", true
				}
				return wrap(t.store(dl, "(gv_copy "+d+" "+doff+" "+dlen+" "+s+" "+soff+" "+slen+")", gvBuf, c, &pre)), true
			}
		}
		if text, _, _, ok := t.callStmt(ce, c); ok {
			return text, true
		}
		t.fail(st, "statement not understood: %s", t.src(st))
		return "", true
	case *ast.AssignStmt:
		if x.Tok != token.DEFINE && x.Tok != token.ASSIGN {
			t.fail(st, "assignment operator %s", x.Tok)
			return "", true
		}
		if len(x.Rhs) == 1 {
			if ce, ok := x.Rhs[0].(*ast.CallExpr); ok {
				if text, res, resT, ok := t.callStmt(ce, c); ok {
					if len(res) != len(x.Lhs) {
						t.fail(st, "%d values assigned to %d places", len(res), len(x.Lhs))
						return "", true
					}
					for i, l := range x.Lhs {
						if x.Tok == token.DEFINE {
							id, ok := l.(*ast.Ident)
							if !ok {
								t.fail(st, ":= on something that is not a variable")
								return "", true
							}
							if id.Name == "_" {
								continue
							}
							t.declare(st, c, id.Name, resT[i])
							text += "let v_" + id.Name + " := " + res[i] + " in\n"
						} else {
							var p2 []string
							text += t.store(l, res[i], resT[i], c, &p2)
							if len(p2) != 0 {
								t.fail(st, "the place assigned to needs an operation that can panic")
							}
						}
					}
					return text, true
				}
			}
		}
		if len(x.Rhs) != len(x.Lhs) || len(x.Lhs) != 1 {
			t.fail(st, "assignment with %d left and %d right sides", len(x.Lhs), len(x.Rhs))
			return "", true
		}
		if x.Tok == token.ASSIGN {
			// b = b[:hi] on a buffer: the same array with another length
			if se, ok := x.Rhs[0].(*ast.SliceExpr); ok && t.src(se.X) == t.src(x.Lhs[0]) {
				var p2 []string
				b, tb := t.expr(x.Lhs[0], *c, &p2)
				if tb.k == "buf" {
					zeroLow := se.Low == nil
					if se.Low != nil {
						if v, ok := evalConst(t.p, se.Low); ok && v.Sign() == 0 {
							zeroLow = true
						}
					}
					if !zeroLow || se.Slice3 {
						t.fail(st, "a buffer is re-sliced with a lower bound (its array would start elsewhere)")
						return "", true
					}
					hi := t.bound(se.High, "(gv_len "+b+")", *c, &pre)
					tmp := t.tmp()
					pre = append(pre, "do "+tmp+" <- gv_reslice "+b+" "+hi+";\n")
					return wrap(t.store(x.Lhs[0], tmp, gvBuf, c, &pre)), true
				}
			}
		}
		a, ta := t.expr(x.Rhs[0], *c, &pre)
		if x.Tok == token.DEFINE {
			id, ok := x.Lhs[0].(*ast.Ident)
			if !ok {
				t.fail(st, ":= on something that is not a variable")
				return "", true
			}
			if ta.k == "const" {
				a, ta = t.coerce(x.Rhs[0], a, ta, gvInt)
			}
			t.declare(st, c, id.Name, ta)
			return wrap("let v_" + id.Name + " := " + a + " in\n"), true
		}
		if ta.k == "const" || ta.k == "nil" {
			var p2 []string
			_, tl := t.expr(x.Lhs[0], *c, &p2)
			a, ta = t.coerce(x.Rhs[0], a, ta, tl)
		}
		return wrap(t.store(x.Lhs[0], a, ta, c, &pre)), true
	}
	return "", false
}

func gvRestrict(inner, outer gvCtx) gvCtx {
	r := outer
	// the types of the outer variables may have been refined (io.Reader -> wrapper)
	r.vars = inner.vars[:len(outer.vars)]
	return r
}

// cond: a condition, possibly a call with side effects; answers the prefix and the boolean text
func (t *gvTr) cond(e ast.Expr, c *gvCtx) (string, string) {
	if ce, ok := e.(*ast.CallExpr); ok {
		if text, res, resT, ok := t.callStmt(ce, c); ok {
			if len(res) != 1 || resT[0].k != "bool" {
				t.fail(e, "a call used as a condition must answer one bool")
				return text, "false"
			}
			return text, res[0]
		}
	}
	var pre []string
	ct, tc := t.expr(e, *c, &pre)
	if tc.k != "bool" {
		t.fail(e, "a condition is expected")
		return "", "false"
	}
	return strings.Join(pre, ""), ct
}

func (t *gvTr) stmts(list []ast.Stmt, c gvCtx, k func(gvCtx) string) string {
	if len(list) == 0 {
		return k(c)
	}
	st, rest := list[0], list[1:]
	memo, have := "", false
	next := func(c2 gvCtx) string {
		if !have {
			memo, have = t.stmts(rest, c2, k), true
		}
		return memo
	}
	switch x := st.(type) {
	case *ast.ReturnStmt:
		return t.ret(x, c)
	case *ast.BranchStmt:
		if x.Label != nil {
			t.fail(st, "labels are not understood")
			return "Panic"
		}
		switch x.Tok {
		case token.BREAK:
			if c.inSwitch || c.brk == nil {
				t.fail(st, "break is not understood here (inside a switch, or outside a loop)")
				return "Panic"
			}
			return c.brk()
		case token.CONTINUE:
			if c.cont == nil {
				t.fail(st, "continue outside a loop")
				return "Panic"
			}
			return c.cont()
		}
		t.fail(st, "%s is not understood", x.Tok)
		return "Panic"
	case *ast.BlockStmt:
		return t.stmts(x.List, c, func(c2 gvCtx) string { return next(gvRestrict(c2, c)) })
	case *ast.IfStmt:
		return t.ifStmt(x, c, next)
	case *ast.SwitchStmt:
		return t.switchStmt(x, c, next)
	case *ast.ForStmt:
		return t.forStmt(x, c, next)
	}
	if text, ok := t.simple(st, &c); ok {
		return text + next(c)
	}
	t.fail(st, "statement not understood: %s", t.src(st))
	return "Panic"
}

func (t *gvTr) ifStmt(x *ast.IfStmt, c gvCtx, next func(gvCtx) string) string {
	c1 := c
	c1.nested = true
	initText := ""
	if x.Init != nil {
		txt, ok := t.simple(x.Init, &c1)
		if !ok {
			t.fail(x.Init, "if init statement not understood")
		}
		initText = txt
	}
	pre, ct := t.cond(x.Cond, &c1)
	head := initText + pre + "if " + ct + " then\n"
	elseList := ggElse(x)
	back := func(c2 gvCtx) gvCtx {
		r := gvRestrict(c2, c)
		r.nested = c.nested
		return r
	}
	if !gvEscapes(x) {
		vs := t.assigned(c, x)
		if len(vs) == 0 {
			t.fail(x, "an if that changes nothing")
			return "Panic"
		}
		okPat := "Ok " + ggTuple(gvVarNames(vs))
		thenT := t.stmts(x.Body.List, c1, func(gvCtx) string { return okPat })
		elseT := t.stmts(elseList, c1, func(gvCtx) string { return okPat })
		inner := head + gsIndent(thenT) + "\nelse\n" + gsIndent(elseT)
		return "do " + ggTuple(gvVarNames(vs)) + " <- (\n" + gsIndent(inner) + ");\n" + next(c)
	}
	thenT := t.stmts(x.Body.List, c1, func(c2 gvCtx) string { return next(back(c2)) })
	elseT := t.stmts(elseList, c1, func(c2 gvCtx) string { return next(back(c2)) })
	return head + gsIndent(thenT) + "\nelse\n" + gsIndent(elseT)
}

func (t *gvTr) switchStmt(x *ast.SwitchStmt, c gvCtx, next func(gvCtx) string) string {
	if x.Init != nil || x.Tag == nil {
		t.fail(x, "only `switch tag { .. }` is understood")
		return "Panic"
	}
	var pre []string
	tag, tt := t.expr(x.Tag, c, &pre)
	if tt.k != "byte" && tt.k != "int" {
		t.fail(x.Tag, "switch on a %s", tt.name())
		return "Panic"
	}
	c1 := c
	c1.nested = true
	c1.inSwitch = true
	back := func(c2 gvCtx) string {
		r := gvRestrict(c2, c)
		r.nested, r.inSwitch = c.nested, c.inSwitch
		return next(r)
	}
	var deflt *ast.CaseClause
	var cases []*ast.CaseClause
	for _, s := range x.Body.List {
		cc := s.(*ast.CaseClause)
		if cc.List == nil {
			deflt = cc
		} else {
			cases = append(cases, cc)
		}
		for _, b := range cc.Body {
			if bs, ok := b.(*ast.BranchStmt); ok && bs.Tok == token.FALLTHROUGH {
				t.fail(b, "fallthrough")
			}
		}
	}
	var chain func(i int) string
	chain = func(i int) string {
		if i == len(cases) {
			if deflt != nil {
				return t.stmts(deflt.Body, c1, back)
			}
			return back(c1)
		}
		var conds []string
		for _, e := range cases[i].List {
			var p2 []string
			v, tv := t.expr(e, c, &p2)
			v, tv = t.coerce(e, v, tv, tt)
			if len(p2) != 0 || !tv.same(tt) {
				t.fail(e, "case expression not understood")
				continue
			}
			if tt.k == "byte" {
				conds = append(conds, "(N.eqb "+tag+" "+v+")")
			} else {
				conds = append(conds, "("+tag+" =? "+v+")")
			}
		}
		ct := strings.Join(conds, " || ")
		if len(conds) == 0 {
			ct = "false"
		}
		body := t.stmts(cases[i].Body, c1, back)
		return "if " + ct + " then\n" + gsIndent(body) + "\nelse\n" + gsIndent(chain(i+1))
	}
	return strings.Join(pre, "") + chain(0)
}

func (t *gvTr) outsTuple(res []string) string {
	parts := append([]string{}, res...)
	for _, o := range t.f.outs {
		parts = append(parts, "v_"+o.name)
	}
	return gvTupleOrUnit(parts)
}

func (t *gvTr) ret(x *ast.ReturnStmt, c gvCtx) string {
	if len(x.Results) == 1 {
		if ce, ok := x.Results[0].(*ast.CallExpr); ok {
			if text, res, resT, ok := t.callStmt(ce, &c); ok {
				if len(res) != len(t.f.results) {
					t.fail(x, "return of a call with %d values, the function has %d results", len(res), len(t.f.results))
					return "Panic"
				}
				for i := range res {
					if !resT[i].same(t.f.results[i]) {
						t.fail(x, "result %d: a %s where a %s is expected", i, resT[i].name(), t.f.results[i].name())
					}
				}
				return text + c.retv(t.outsTuple(res))
			}
		}
	}
	var pre []string
	var res []string
	if len(x.Results) != len(t.f.results) {
		t.fail(x, "return with %d values, the function has %d results", len(x.Results), len(t.f.results))
		return "Panic"
	}
	for i, r := range x.Results {
		a, ta := t.expr(r, c, &pre)
		a, ta = t.coerce(r, a, ta, t.f.results[i])
		if !ta.same(t.f.results[i]) {
			t.fail(r, "result %d: a %s where a %s is expected", i, ta.name(), t.f.results[i].name())
		}
		res = append(res, a)
	}
	return strings.Join(pre, "") + c.retv(t.outsTuple(res))
}

func (t *gvTr) resultType() string {
	var tys []string
	for _, r := range t.f.results {
		tys = append(tys, r.coq())
	}
	for _, o := range t.f.outs {
		tys = append(tys, o.t.coq())
	}
	return gvTypeTupleOrUnit(tys)
}

// loopDef emits the Fixpoint of a loop and answers its call; body contains @REC@ where the loop continues.
func (t *gvTr) loopDef(c gvCtx, res []gvVar, body string, resType string) string {
	var ps []gvVar
	for _, v := range c.vars {
		if gsMentions(body, "v_"+v.name) {
			ps = append(ps, v)
		}
	}
	for _, r := range res {
		found := false
		for _, v := range ps {
			if v.name == r.name {
				found = true
			}
		}
		if !found {
			ps = append(ps, r)
		}
	}
	name := fmt.Sprintf("%s_loop%d", t.f.coq, len(t.loops)+1)
	var sig, recArgs, callArgs []string
	if gsMentions(body, "fuel'") {
		sig = append(sig, "(fuel' : nat)")
		recArgs = append(recArgs, "fuel'")
		callArgs = append(callArgs, "fuel'")
	}
	sig = append(sig, "(k : nat)")
	recArgs = append(recArgs, "k'")
	callArgs = append(callArgs, "fuel'")
	for _, v := range ps {
		sig = append(sig, "(v_"+v.name+" : "+v.t.coq()+")")
		recArgs = append(recArgs, "v_"+v.name)
		callArgs = append(callArgs, "v_"+v.name)
	}
	body = strings.ReplaceAll(body, "@REC@", name+" "+strings.Join(recArgs, " "))
	def := "Fixpoint " + name + " " + strings.Join(sig, " ") + " {struct k} : outcome " + resType + " :=\n" +
		"  match k with\n  | O => Panic\n  | S k' =>\n" + gsIndent(gsIndent(body)) + "\n  end.\n"
	t.loops = append(t.loops, def)
	return name + " " + strings.Join(callArgs, " ")
}

func (t *gvTr) forStmt(x *ast.ForStmt, c gvCtx, next func(gvCtx) string) string {
	if x.Init != nil || x.Post != nil {
		t.fail(x, "a for loop with init / post statement")
		return "Panic"
	}
	hasRet := gsContainsReturn(x.Body)
	canExit := x.Cond != nil || gvHasBreak(x.Body)
	var nodes []ast.Node
	nodes = append(nodes, x.Body)
	if x.Cond != nil {
		nodes = append(nodes, x.Cond)
	}
	res := t.assigned(c, nodes...)
	vtuple := gvTupleOrUnit(gvVarNames(res))
	vtype := gvTypeTupleOrUnit(gvVarTypes(res))
	cb := c
	cb.nested = true
	cb.inSwitch = false
	cb.cont = func() string { return "@REC@" }
	var exit, resType string
	switch {
	case !hasRet:
		if len(res) == 0 {
			t.fail(x, "a loop that changes nothing")
			return "Panic"
		}
		if !canExit {
			t.fail(x, "a loop that can neither end nor return")
			return "Panic"
		}
		exit, resType = "Ok "+vtuple, vtype
	case !canExit:
		cb.retv = func(tp string) string { return "Ok " + tp }
		cb.retPlain = true
		resType = t.resultType()
	default:
		cb.retv = func(tp string) string { return "Ok (inl " + tp + ")" }
		cb.retPlain = false
		exit = "Ok (inr " + vtuple + ")"
		resType = "(" + t.resultType() + " + " + vtype + ")"
	}
	if canExit {
		cb.brk = func() string { return exit }
	} else {
		cb.brk = nil
	}
	body := ""
	if x.Cond != nil {
		cc := cb
		pre, ct := t.cond(x.Cond, &cc)
		iter := t.stmts(x.Body.List, cc, func(gvCtx) string { return "@REC@" })
		body = pre + "if " + ct + " then\n" + gsIndent(iter) + "\nelse\n" + gsIndent(exit)
	} else {
		body = t.stmts(x.Body.List, cb, func(gvCtx) string { return "@REC@" })
	}
	call := t.loopDef(c, res, body, resType)
	switch {
	case !hasRet:
		return "do " + vtuple + " <- " + call + ";\n" + next(c)
	case !canExit:
		if c.retPlain {
			return call
		}
		tmp := t.tmp()
		return "do " + tmp + " <- " + call + ";\n" + c.retv(tmp)
	}
	tmp, r := t.tmp(), t.tmp()
	return "do " + tmp + " <- " + call + ";\nmatch " + tmp + " with\n| inl " + r + " => " + c.retv(r) + "\n| inr " + vtuple + " =>\n" + gsIndent(next(c)) + "\nend"
}

// ------------------------------------------------------------------ functions

func gvSignature(p *pkgInfo, f *gvFunc) bool {
	fd := f.fd
	bad := func(format string, a ...interface{}) bool {
		problem("internal/fastcsv/csv.go translation, function %s: %s", f.goName, fmt.Sprintf(format, a...))
		return false
	}
	if fd.Recv != nil {
		if len(fd.Recv.List) != 1 || len(fd.Recv.List[0].Names) != 1 {
			return bad("receiver not understood")
		}
		rt := gvResolve(p, fd.Recv.List[0].Type, "")
		if rt.k != "struct" {
			return bad("receiver type not understood")
		}
		f.recv = fd.Recv.List[0].Names[0].Name
		f.recvT = rt
	}
	for _, fl := range fd.Type.Params.List {
		if len(fl.Names) == 0 {
			return bad("an argument without name")
		}
		for _, n := range fl.Names {
			ty := gvResolve(p, fl.Type, f.goName+"."+n.Name)
			if ty.k == "bad" || ty.k == "buf" {
				return bad("argument %s has a type that is not understood", n.Name)
			}
			f.params = append(f.params, gvVar{n.Name, ty})
			if ty.k == "win" || ty.k == "struct" && ty.ptr {
				f.outs = append(f.outs, gvVar{n.Name, ty})
			}
		}
	}
	if f.recv != "" && f.recvT.ptr {
		f.outs = append(f.outs, gvVar{f.recv, f.recvT})
	}
	if fd.Type.Results != nil {
		i := 0
		for _, fl := range fd.Type.Results.List {
			if len(fl.Names) > 0 {
				return bad("named results")
			}
			ty := gvResolve(p, fl.Type, fmt.Sprintf("%s.result%d", f.goName, i))
			if ty.k == "bad" || ty.k == "win" || ty.k == "rd" || ty.k == "buf" {
				return bad("result type not understood")
			}
			f.results = append(f.results, ty)
			i++
		}
	}
	return true
}

// does the function contain a loop or call a fuelled function?
func gvNeedsFuel(f *gvFunc) bool {
	need := false
	ast.Inspect(f.fd.Body, func(n ast.Node) bool {
		switch x := n.(type) {
		case *ast.ForStmt, *ast.RangeStmt:
			need = true
		case *ast.CallExpr:
			name := ""
			switch fn := x.Fun.(type) {
			case *ast.Ident:
				name = fn.Name
			case *ast.SelectorExpr:
				name = fn.Sel.Name
			}
			for _, g := range gvFuncs {
				if g.done && g.needsFuel && (g.goName == name || strings.HasSuffix(g.goName, "."+name)) {
					need = true
				}
			}
		}
		return true
	})
	return need
}

func gvTranslate(p *pkgInfo, f *gvFunc) {
	t := &gvTr{p: p, f: f, consts: map[string]*big.Rat{}}
	c := gvCtx{retv: func(tp string) string { return "Ok " + tp }, retPlain: true}
	if f.recv != "" {
		c.vars = append(c.vars, gvVar{f.recv, f.recvT})
	}
	c.vars = append(c.vars, f.params...)
	for _, v := range c.vars {
		if _, isFn := gvFuncs[v.name]; isFn {
			t.fail(f.fd, "argument %s shadows a function", v.name)
		}
	}
	body := t.stmts(f.fd.Body.List, c, func(c2 gvCtx) string {
		if len(f.results) != 0 {
			t.fail(f.fd, "the function can fall off its end")
		}
		return "Ok " + t.outsTuple(nil)
	})
	var sig []string
	if f.needsFuel {
		sig = append(sig, "(fuel : nat)")
	}
	for _, v := range c.vars {
		sig = append(sig, "(v_"+v.name+" : "+v.t.coq()+")")
	}
	var b strings.Builder
	fmt.Fprintf(&b, "(* %s\n%s *)\n", gvPkg, gsSource(p, f.fd))
	for _, l := range t.loops {
		b.WriteString(l)
	}
	if f.needsFuel {
		fmt.Fprintf(&b, "Definition %s %s : outcome %s :=\n  match fuel with\n  | O => Panic\n  | S fuel' =>\n%s\n  end.\n",
			f.coq, strings.Join(sig, " "), t.resultType(), gsIndent(gsIndent(body)))
	} else {
		if gsMentions(body, "fuel'") {
			t.fail(f.fd, "a function without fuel uses fuel")
		}
		fmt.Fprintf(&b, "Definition %s %s : outcome %s :=\n%s.\n", f.coq, strings.Join(sig, " "), t.resultType(), gsIndent(body))
	}
	f.text = b.String()
	f.ok = !t.bad
}

func genFastCsv() string {
	p := loadPkg(gvPkg)
	gvLoadStructs(p)
	gvFuncs = map[string]*gvFunc{}
	var order []*gvFunc
	names := map[string]bool{}
	for _, sn := range gvStructs {
		if s := gvStructTab[sn]; s != nil {
			for _, f := range s.fields {
				names["gv_"+sn+"_"+f.name] = true
				names["gv_"+sn+"_set_"+f.name] = true
			}
		}
	}
	for _, n := range gvSpecs {
		f := &gvFunc{goName: n, coq: "gv_" + strings.ReplaceAll(n, ".", "_")}
		if names[f.coq] {
			problem("internal/fastcsv/csv.go translation: the name %s of function %s is also the name of a field access", f.coq, n)
		}
		gvFuncs[n] = f
		order = append(order, f)
	}
	structsOK := true
	for _, s := range gvStructs {
		if !gvStructTab[s].ok {
			structsOK = false
		}
	}
	for _, f := range order {
		fd, ok := p.funcs[f.goName]
		if !ok || fd.Body == nil {
			problem("internal/fastcsv/csv.go translation: function %s not found in %s", f.goName, gvPkg)
			continue
		}
		f.fd = fd
		if !structsOK || !gvSignature(p, f) {
			f.fd = nil
		}
	}
	for _, f := range order {
		if f.fd != nil {
			f.needsFuel = gvNeedsFuel(f)
			gvTranslate(p, f)
		}
		f.done = true
	}
	golden := ""
	if fl := flag.Lookup("golden"); fl != nil && fl.Value.String() != "" {
		if gb, err := os.ReadFile(filepath.Join(fl.Value.String(), "GenFastCsv.v")); err == nil {
			golden = string(gb)
		}
	}
	block := func(b *strings.Builder, name, text string, ok bool) {
		if !ok {
			old, found := gfGoldenBlock(golden, name)
			if !found {
				return
			}
			text = "(* FALLBACK " + name + ": not derivable from the current source; text of the last validated tree *)\n" + old
		}
		fmt.Fprintf(b, "(* BEGIN %s *)\n%s(* END %s *)\n\n", name, text, name)
	}
	var b strings.Builder
	b.WriteString(gvPreamble1)
	for _, sn := range gvStructs {
		s := gvStructTab[sn]
		text := ""
		if s.ok {
			text = "(* " + gvPkg + "\n" + ggStructSource(p, sn) + " *)\n" + s.record()
		}
		block(&b, "gv_"+sn, text, s.ok)
	}
	b.WriteString(gvPreamble2)
	for _, f := range order {
		block(&b, f.coq, f.text, f.ok)
	}
	b.WriteString("End GenFastCsv.\n")
	return b.String()
}
