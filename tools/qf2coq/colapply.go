package main

// Translation of the column level of Apply into Gallina (coq/Gen/GenColApply.v, tie T1 for C06 / C07):
// Column.Apply1 and Column.Apply2 of the five column types with everything they run below them —
//   internal/icolumn, fcolumn, bcolumn (column_gen.go, the instantiated template): New, Column.Apply1, Column.Apply2;
//   internal/scolumn/column.go: NewBytes, New, Column.stringAt, stringToPtr, toUpper, the table stringApplyFuncs,
//     Column.Apply1, Column.Apply2;
//   internal/ecolumn/column.go: Column.stringPtrAt, toUpper, the table enumApplyFuncs, Column.Apply1, Column.Apply2.
// coq/Proofs/GenColApplyProofs.v proves every generated definition equal to the hand-written model (Model/Ops.v:
// col_apply1, col_apply2, scatter, s_to_upper, e_to_upper), coq/Properties/T1ColApply.v registers the theorems
// T1_colapply_<name>; an edit of one of these Go functions changes the generated text and stops a named theorem.
//
// THE SCHEME (anything that does not fit is reported through problem(...); the block then keeps the text of the
// golden copy, marked FALLBACK, so that the development still builds — the exit status says the tie is broken).
//
//	integers    int, uint32 (a row id of index.Int), enumVal (uint8) and qfstrings.Pointer (uint64) -> Z; int is
//	            exact (lengths, positions, offsets: overflow of int is outside the translation as it is outside
//	            the model), enumVal(e) is the wrap gap_u8 e = e mod 256, a Pointer is only made and read by the
//	            functions of internal/strings/pointer.go in their GenFuncs.v translation (gf_strings_NewPointer,
//	            gf_strings_Pointer_Offset/Len/IsNull).
//	float64     -> the abstract type F64 (no arithmetic on cells anywhere in the translated functions); its zero
//	            value is the section variable f64_zero.  The one float64 computation,
//	                int(float64(A) * (float64(B) / float64(C)))
//	            (the capacity hint of scolumn.toUpper), is matched as a whole: size_estimate A B C (a variable).
//	strings     string and []byte -> bytes; *string -> option bytes (nil = None), &s and &x[i] -> Some (the VALUE
//	            reading of a pointer that the callee only reads: a user function that writes through the pointer
//	            it is handed is outside the model as well), *p -> gap_deref p (Panic for nil).
//	slices      []T -> list T.  make([]T, n) -> gap_make zero n, make([]T, 0, c) -> gap_make0 c (Panic for a
//	            negative size; the capacity is not kept), s[i] -> gap_index, s[a:b] -> gap_slice (Panic outside the
//	            LENGTH), len(s) -> gap_len s.  A store s[i] = v -> gap_update (Panic outside the range) and
//	            X = append(X, e) / append(X, e...) -> X ++ .. are accepted only on a variable that the function
//	            itself made with make: the value reading is then exact (nothing else can reach the array).
//	maps        map[string]V -> gap_map V, an association list; make(map..) -> [], v, ok := m[k] -> gap_mget2,
//	            m[k] = v -> gap_mset (only on a map the function made).  A package level map literal whose values
//	            are translated functions (stringApplyFuncs, enumApplyFuncs) is a Definition of that type.
//	structs     type Column struct of each package -> Record gap_<pkg>_Column, generated from the declaration.
//	interface{} -> Inductive gap_dyn: one constructor for every type that a type switch / type assertion of the
//	            translated functions names or that a translated function hands back as interface{} (discovered),
//	            gap_dyn_nil, gap_dyn_other for everything else.  A function value func(A) B is  A -> outcome B
//	            (the user's function may panic; it is a function of its arguments: the model records it as a table).
//	column.Column -> Inductive gap_anycol: nil, the five translated column types, anything else; s2.(Column) is
//	            the match on the constructor of the package, x.DataType() is gap_col_DataType x (Panic for nil).
//	errors      error -> gap_error = option bytes (nil = None); qerrors.New(op, format, args..) -> Some format (the
//	            arguments are evaluated — a method call on a nil interface among them stays a Panic — and dropped).
//	vocabulary  qfstrings.ToUpper(&buf, s) -> strings_ToUpper buf s : outcome (result * new buffer) (translated on
//	            its own by strser.go; the result may alias the buffer: accepted because it is consumed before the next
//	            call), strings.ToUpper -> go_strings_ToUpper, qfstrings.UnsafeBytesToString -> identity,
//	            reflect.TypeOf(x) -> total, c.fnName(..) -> total (text-matched).
//	results     every function answers outcome T (Panic = Go panic), T the tuple of its results.  NO fuel: every
//	            loop is a range loop over a slice that is evaluated once.
//	statements  x := e; a, b := f(..); v, ok := m[k]; v, ok := x.(T); x = e; x op= e; s[i] = e; m[k] = e;
//	            if (with init); range; switch t := x.(type) as the last statement with terminating clauses; return.
//	range       for i, v := range X { body } -> Definition gap_.._loopN (free variables) := fix loop (l : list T)
//	            [(v_i : Z)] (assigned outer variables) {struct l}; the body may not return.
//	rejected    everything else (for with a header, break, continue, goto, defer, closures, switch on values, stores
//	            into anything the function did not make, field stores, shadowing of a variable that is stored into).

import (
	"bytes"
	"flag"
	"fmt"
	"go/ast"
	"go/printer"
	"go/token"
	"os"
	"path/filepath"
	"regexp"
	"strconv"
	"strings"
)

var gapPkgs = []string{"icolumn", "fcolumn", "bcolumn", "scolumn", "ecolumn"}

// in dependency order; "var X" is a package level map literal of translated functions
var gapSpecs = map[string][]string{
	"icolumn": {"New", "Column.Apply1", "Column.Apply2"},
	"fcolumn": {"New", "Column.Apply1", "Column.Apply2"},
	"bcolumn": {"New", "Column.Apply1", "Column.Apply2"},
	"scolumn": {"NewBytes", "New", "Column.stringAt", "stringToPtr", "toUpper", "var stringApplyFuncs", "Column.Apply1", "Column.Apply2"},
	"ecolumn": {"Column.stringPtrAt", "toUpper", "var enumApplyFuncs", "Column.Apply1", "Column.Apply2"},
}

// the text of Column.fnName that the vocabulary stands for (a total function)
const gapFnNameBody = "{\n\treturn fmt.Sprintf(\"%s.%s\", c.DataType(), name)\n}"

const gapPreamble1 = `(* GENERATED by tools/qf2coq (colapply.go) from internal/icolumn, fcolumn, bcolumn (column_gen.go), internal/scolumn
   and internal/ecolumn (column.go) of tobgu/qframe — do not edit.  Column.Apply1 / Column.Apply2 of the five column
   types and what they run: the constructors, scolumn stringAt / stringToPtr / toUpper, ecolumn stringPtrAt / toUpper,
   the built-in tables.  One Record gap_<pkg>_Column per column struct, Inductive gap_dyn for interface{} (a constructor
   per dynamic type the translated functions name), Inductive gap_anycol for column.Column, one definition
   gap_<pkg>_<Receiver>_<function> per Go function, one Definition .._loopN (a fix over the ranged list) per loop; the
   scheme is described at the top of tools/qf2coq/colapply.go.
   F64 = float64 (abstract), OTHER = a value of an unlisted dynamic type, OTHERC = an unlisted column type.  A user
   function func(A) B is A -> outcome B.  The section variables are the vocabulary: f64_zero, strings_ToUpper
   (qfstrings.ToUpper(&buf, s): result and new buffer), go_strings_ToUpper (strings.ToUpper), size_estimate (the
   float64 capacity hint of scolumn.toUpper).  Every function answers outcome T (Panic = Go panic); there is no fuel:
   every loop ranges over a list. *)
From QF Require Import Base.Prelude Gen.GenFuncs.
Local Open Scope Z_scope.

(* enumVal(e) *)
Definition gap_u8 (x : Z) : Z := x mod 256.
(* len(s), make([]T, n), make([]T, 0, c), s[i], s[i] = v, s[a:b], *p *)
Definition gap_len {T : Type} (s : list T) : Z := Z.of_nat (length s).
Definition gap_make {T : Type} (zero : T) (n : Z) : outcome (list T) :=
  if n <? 0 then Panic else Ok (repeat zero (Z.to_nat n)).
Definition gap_make0 {T : Type} (c : Z) : outcome (list T) :=
  if c <? 0 then Panic else Ok (@nil T).
Definition gap_index {T : Type} (s : list T) (i : Z) : outcome T :=
  if i <? 0 then Panic else idx s (Z.to_nat i).
Definition gap_update {T : Type} (s : list T) (i : Z) (v : T) : outcome (list T) :=
  if i <? 0 then Panic else do _ <- idx s (Z.to_nat i); Ok (set_nth s (Z.to_nat i) v).
Definition gap_slice {T : Type} (s : list T) (a b : Z) : outcome (list T) :=
  if (a <? 0) || (b <? a) || (Z.of_nat (length s) <? b) then Panic
  else Ok (firstn (Z.to_nat (b - a)) (skipn (Z.to_nat a) s)).
Definition gap_deref {T : Type} (p : option T) : outcome T :=
  match p with Some v => Ok v | None => Panic end.
(* error values: nil or the format text of qerrors.New *)
Definition gap_error : Type := option bytes.
Definition gap_isnil {T : Type} (p : option T) : bool := match p with None => true | Some _ => false end.
(* map[string]V: v, ok := m[k]; m[k] = v *)
Definition gap_map (V : Type) : Type := list (bytes * V).
Fixpoint gap_mget2 {V : Type} (zero : V) (m : gap_map V) (k : bytes) : V * bool :=
  match m with
  | [] => (zero, false)
  | (k', v) :: r => if bytes_eqb k' k then (v, true) else gap_mget2 zero r k
  end.
Fixpoint gap_mset {V : Type} (m : gap_map V) (k : bytes) (v : V) : gap_map V :=
  match m with
  | [] => [(k, v)]
  | (k', v') :: r => if bytes_eqb k' k then (k', v) :: r else (k', v') :: gap_mset r k v
  end.

`

const gapPreamble2 = `Section GenColApply.
Context {F64 OTHER OTHERC : Type}.
Variable f64_zero : F64.                                              (* the float64 zero value *)
Variable strings_ToUpper : bytes -> bytes -> outcome (bytes * bytes). (* qfstrings.ToUpper(&buf, s): the result and the new buffer *)
Variable go_strings_ToUpper : bytes -> bytes.                         (* strings.ToUpper(s) of the standard library *)
Variable size_estimate : Z -> Z -> Z -> Z.                            (* int(float64(a) * (float64(b) / float64(c))) *)

`

// ------------------------------------------------------------------ helpers

func gapSrc(fset *token.FileSet, n ast.Node) string {
	var b bytes.Buffer
	printer.Fprint(&b, fset, n)
	return b.String()
}

func gapIndent(s string) string {
	lines := strings.Split(strings.TrimRight(s, "\n"), "\n")
	for i := range lines {
		lines[i] = "  " + lines[i]
	}
	return strings.Join(lines, "\n")
}

func gapMentions(text, tok string) bool {
	re := regexp.MustCompile(`(^|[^A-Za-z0-9_'])` + regexp.QuoteMeta(tok) + `($|[^A-Za-z0-9_'])`)
	return re.MatchString(text)
}

func gapGoldenBlock(golden, name string) (string, bool) {
	b := "(* BEGIN " + name + " *)\n"
	e := "(* END " + name + " *)\n"
	i := strings.Index(golden, b)
	if i < 0 {
		return "", false
	}
	j := strings.Index(golden[i:], e)
	if j < 0 {
		return "", false
	}
	return golden[i+len(b) : i+j], true
}

func gapCommentSafe(s string) string {
	s = strings.ReplaceAll(s, "(*", "( *")
	s = strings.ReplaceAll(s, "*)", "* )")
	s = strings.ReplaceAll(s, "\"", "'")
	return s
}

func gapTuple(parts []string) string {
	if len(parts) == 0 {
		return "tt"
	}
	if len(parts) == 1 {
		return parts[0]
	}
	return "(" + strings.Join(parts, ", ") + ")"
}

func gapPat(parts []string) string {
	if len(parts) == 0 {
		return "_"
	}
	if len(parts) == 1 {
		return parts[0]
	}
	return "(" + strings.Join(parts, ", ") + ")"
}

func gapTypeTuple(parts []string) string {
	if len(parts) == 0 {
		return "unit"
	}
	if len(parts) == 1 {
		return parts[0]
	}
	return "(" + strings.Join(parts, " * ") + ")"
}

// ------------------------------------------------------------------ types

type gapT struct {
	k   string // int u32 ev ptr const f64 bool string byte pstr slice func dyn err struct anycol map nil bad
	el  *gapT
	pkg string
	ps  []*gapT
	rs  []*gapT
}

func gapK(k string) *gapT { return &gapT{k: k} }

var gapBad = gapK("bad")

func (t *gapT) isNum() bool {
	return t.k == "int" || t.k == "u32" || t.k == "ev" || t.k == "const"
}

func (t *gapT) same(u *gapT) bool {
	if t.k != u.k || t.pkg != u.pkg || len(t.ps) != len(u.ps) || len(t.rs) != len(u.rs) {
		return false
	}
	if (t.el == nil) != (u.el == nil) {
		return false
	}
	if t.el != nil && !t.el.same(u.el) {
		return false
	}
	for i := range t.ps {
		if !t.ps[i].same(u.ps[i]) {
			return false
		}
	}
	for i := range t.rs {
		if !t.rs[i].same(u.rs[i]) {
			return false
		}
	}
	return true
}

// the Go spelling, for constructor names and messages
func (t *gapT) name() string {
	switch t.k {
	case "int", "bool", "string", "byte":
		return t.k
	case "u32":
		return "uint32"
	case "ev":
		return "enumVal"
	case "ptr":
		return "Pointer"
	case "f64":
		return "float64"
	case "pstr":
		return "ptr_string"
	case "slice":
		return "slice_" + t.el.name()
	case "struct":
		return t.pkg + "_Column"
	case "func":
		var ps []string
		for _, p := range t.ps {
			ps = append(ps, p.name())
		}
		var rs []string
		for _, r := range t.rs {
			rs = append(rs, r.name())
		}
		return "func_" + strings.Join(ps, "_") + "_to_" + strings.Join(rs, "_")
	case "map":
		return "map_" + t.el.name()
	case "dyn":
		return "interface"
	case "anycol":
		return "column_Column"
	case "err":
		return "error"
	}
	return t.k
}

func (t *gapT) usesF64() bool {
	switch t.k {
	case "f64", "dyn", "anycol":
		return true
	case "slice", "map":
		return t.el.usesF64()
	case "struct":
		return t.pkg == "fcolumn"
	case "func":
		for _, p := range append(append([]*gapT{}, t.ps...), t.rs...) {
			if p.usesF64() {
				return true
			}
		}
	}
	return false
}

func (t *gapT) coq() string {
	switch t.k {
	case "int", "u32", "ev", "ptr", "const":
		return "Z"
	case "f64":
		return "F64"
	case "bool":
		return "bool"
	case "string":
		return "bytes"
	case "byte":
		return "N"
	case "pstr":
		return "(option bytes)"
	case "slice":
		if t.el.k == "byte" {
			return "bytes"
		}
		return "(list " + t.el.coq() + ")"
	case "map":
		return "(gap_map " + t.el.coq() + ")"
	case "dyn":
		return "(gap_dyn F64 OTHER)"
	case "anycol":
		return "(gap_anycol F64 OTHERC)"
	case "err":
		return "gap_error"
	case "struct":
		if t.pkg == "fcolumn" {
			return "(gap_fcolumn_Column F64)"
		}
		return "gap_" + t.pkg + "_Column"
	case "func":
		var parts []string
		for _, p := range t.ps {
			parts = append(parts, p.coq())
		}
		var rs []string
		for _, r := range t.rs {
			rs = append(rs, r.coq())
		}
		parts = append(parts, "outcome "+gapTypeTuple(rs))
		return "(" + strings.Join(parts, " -> ") + ")"
	}
	return "unit"
}

func (t *gapT) zero() (string, bool) {
	switch t.k {
	case "int", "u32", "ev", "ptr":
		return "0", true
	case "f64":
		return "f64_zero", true
	case "bool":
		return "false", true
	case "string":
		return "(@nil N)", true
	case "byte":
		return "0%N", true
	case "pstr", "err":
		return "None", true
	case "slice":
		return "(@nil " + t.el.coq() + ")", true
	case "map":
		return "(@nil (bytes * " + t.el.coq() + "))", true
	case "dyn":
		return "gap_dyn_nil", true
	case "anycol":
		return "gap_col_nil", true
	case "struct":
		s, ok := gapStructs[t.pkg]
		if !ok {
			return "", false
		}
		parts := []string{"gap_mk_" + t.pkg + "_Column"}
		for _, f := range s.fields {
			z, ok := f.ty.zero()
			if !ok {
				return "", false
			}
			parts = append(parts, z)
		}
		return "(" + strings.Join(parts, " ") + ")", true
	case "func":
		// a nil function value: calling it panics
		s := "(fun"
		for range t.ps {
			s += " _"
		}
		return s + " => Panic)", true
	}
	return "", false
}

// ------------------------------------------------------------------ structs

type gapField struct {
	name string
	ty   *gapT
}

type gapStruct struct {
	pkg    string
	fields []gapField
	ok     bool
}

var gapStructs map[string]*gapStruct

func (s *gapStruct) field(name string) (*gapT, bool) {
	for _, f := range s.fields {
		if f.name == name {
			return f.ty, true
		}
	}
	return nil, false
}

func (s *gapStruct) record(src string) string {
	var b strings.Builder
	rn := "gap_" + s.pkg + "_Column"
	par := ""
	if s.pkg == "fcolumn" {
		par = " (F64 : Type)"
	}
	fmt.Fprintf(&b, "(* internal/%s\n%s *)\n", s.pkg, gapCommentSafe(src))
	fmt.Fprintf(&b, "Record %s%s := gap_mk_%s_Column {\n", rn, par, s.pkg)
	for i, f := range s.fields {
		sep := ";"
		if i == len(s.fields)-1 {
			sep = " }."
		}
		fmt.Fprintf(&b, "  %s_%s : %s%s\n", rn, f.name, f.ty.coq(), sep)
	}
	if par != "" {
		fmt.Fprintf(&b, "Arguments gap_mk_%s_Column {F64}.\n", s.pkg)
		for _, f := range s.fields {
			fmt.Fprintf(&b, "Arguments %s_%s {F64}.\n", rn, f.name)
		}
	}
	return b.String()
}

// the imports of a package by local name (all files must agree)
func gapImports(p *pkgInfo) map[string]string {
	m := map[string]string{}
	for _, f := range p.files {
		for _, im := range f.Imports {
			path, _ := strconv.Unquote(im.Path.Value)
			name := filepath.Base(path)
			if im.Name != nil {
				name = im.Name.Name
			}
			m[name] = path
		}
	}
	return m
}

func gapLoadStruct(p *pkgInfo, pkg string) (*gapStruct, string) {
	s := &gapStruct{pkg: pkg, ok: true}
	src := ""
	found := false
	tr := &gapTr{pkg: pkg, p: p, f: &gapFn{name: "type Column"}}
	for _, f := range p.files {
		for _, d := range f.Decls {
			gd, ok := d.(*ast.GenDecl)
			if !ok || gd.Tok != token.TYPE {
				continue
			}
			for _, sp := range gd.Specs {
				ts := sp.(*ast.TypeSpec)
				if ts.Name.Name != "Column" {
					continue
				}
				st, ok := ts.Type.(*ast.StructType)
				if !ok {
					continue
				}
				found = true
				// without the comments inside the declaration
				var names []string
				for _, fl := range st.Fields.List {
					ty := tr.resolve(fl.Type)
					if len(fl.Names) == 0 {
						tr.fail(fl, "embedded field")
					}
					for _, n := range fl.Names {
						s.fields = append(s.fields, gapField{n.Name, ty})
						names = append(names, n.Name+" "+gapSrc(p.fset, fl.Type))
					}
				}
				src = "type Column struct { " + strings.Join(names, "; ") + " }"
			}
		}
	}
	if !found {
		problem("column apply translation: type Column struct not found in internal/%s", pkg)
		s.ok = false
	}
	if tr.bad {
		s.ok = false
	}
	return s, src
}

// ------------------------------------------------------------------ translation state

type gapVar struct {
	name string
	coq  string
	ty   *gapT
	own  bool // made by the function itself (make): stores are allowed
}

type gapFn struct {
	pkg     string
	name    string // "Column.Apply1" or "New"
	coq     string
	fd      *ast.FuncDecl
	recv    *gapVar
	params  []gapVar
	results []*gapT
	ok      bool
	text    string
}

// the translated functions and tables by "pkg.name"
var gapFuncs map[string]*gapFn

type gapTable struct {
	coq string
	ty  *gapT
}

var gapTables map[string]*gapTable

// the constructors of gap_dyn in order of discovery
type gapDynCon struct {
	con  string
	ty   *gapT
	note string
}

var gapDyns []gapDynCon

func gapDynConOf(ty *gapT) string {
	n := "gap_dyn_" + ty.name()
	for _, d := range gapDyns {
		if d.con == n {
			return n
		}
	}
	gapDyns = append(gapDyns, gapDynCon{n, ty, ty.name()})
	return n
}

type gapCtx struct {
	vars []gapVar
}

func (c gapCtx) push(v gapVar) gapCtx {
	n := make([]gapVar, len(c.vars), len(c.vars)+1)
	copy(n, c.vars)
	return gapCtx{append(n, v)}
}

func (c gapCtx) lookup(name string) (gapVar, bool) {
	for i := len(c.vars) - 1; i >= 0; i-- {
		if c.vars[i].name == name {
			return c.vars[i], true
		}
	}
	return gapVar{}, false
}

type gapTr struct {
	pkg   string
	p     *pkgInfo
	f     *gapFn
	bad   bool
	ntmp  int
	nloop int
	loops []string
}

func (t *gapTr) fail(n ast.Node, format string, a ...interface{}) {
	t.bad = true
	pos := ""
	if n != nil && t.p != nil {
		pos = fmt.Sprintf(" (%s)", t.p.fset.Position(n.Pos()))
	}
	problem("column apply translation: internal/%s %s%s: %s", t.pkg, t.f.name, pos, fmt.Sprintf(format, a...))
}

func (t *gapTr) src(n ast.Node) string { return gapSrc(t.p.fset, n) }

func (t *gapTr) tmp() string {
	t.ntmp++
	return fmt.Sprintf("t%d", t.ntmp)
}

func (t *gapTr) imported(local, path string) bool {
	return gapImports(t.p)[local] == path
}

const gapMod = "github.com/tobgu/qframe/"

func (t *gapTr) resolve(e ast.Expr) *gapT {
	switch x := e.(type) {
	case *ast.Ident:
		switch x.Name {
		case "int":
			return gapK("int")
		case "uint32":
			return gapK("u32")
		case "float64":
			return gapK("f64")
		case "bool":
			return gapK("bool")
		case "string":
			return gapK("string")
		case "byte":
			return gapK("byte")
		case "error":
			return gapK("err")
		case "Column":
			return &gapT{k: "struct", pkg: t.pkg}
		case "enumVal":
			if t.pkg == "ecolumn" {
				return gapK("ev")
			}
		}
	case *ast.SelectorExpr:
		if id, ok := x.X.(*ast.Ident); ok {
			switch {
			case id.Name == "index" && x.Sel.Name == "Int" && t.imported("index", gapMod+"internal/index"):
				return &gapT{k: "slice", el: gapK("u32")}
			case id.Name == "qfstrings" && x.Sel.Name == "Pointer" && t.imported("qfstrings", gapMod+"internal/strings"):
				return gapK("ptr")
			case id.Name == "column" && x.Sel.Name == "Column" && t.imported("column", gapMod+"internal/column"):
				return gapK("anycol")
			case id.Name == "scolumn" && x.Sel.Name == "Column" && t.imported("scolumn", gapMod+"internal/scolumn"):
				return &gapT{k: "struct", pkg: "scolumn"}
			}
		}
	case *ast.InterfaceType:
		if x.Methods == nil || len(x.Methods.List) == 0 {
			return gapK("dyn")
		}
	case *ast.StarExpr:
		if id, ok := x.X.(*ast.Ident); ok && id.Name == "string" {
			return gapK("pstr")
		}
	case *ast.ArrayType:
		if x.Len == nil {
			el := t.resolve(x.Elt)
			if el.k == "bad" {
				return gapBad
			}
			return &gapT{k: "slice", el: el}
		}
	case *ast.MapType:
		if id, ok := x.Key.(*ast.Ident); ok && id.Name == "string" {
			el := t.resolve(x.Value)
			if el.k == "bad" {
				return gapBad
			}
			return &gapT{k: "map", el: el}
		}
	case *ast.FuncType:
		ft := &gapT{k: "func"}
		for _, fl := range x.Params.List {
			ty := t.resolve(fl.Type)
			n := len(fl.Names)
			if n == 0 {
				n = 1
			}
			for i := 0; i < n; i++ {
				ft.ps = append(ft.ps, ty)
			}
		}
		if x.Results != nil {
			for _, fl := range x.Results.List {
				ty := t.resolve(fl.Type)
				n := len(fl.Names)
				if n == 0 {
					n = 1
				}
				for i := 0; i < n; i++ {
					ft.rs = append(ft.rs, ty)
				}
			}
		}
		for _, q := range append(append([]*gapT{}, ft.ps...), ft.rs...) {
			if q.k == "bad" {
				return gapBad
			}
		}
		return ft
	}
	t.fail(e, "type %s is outside the translation", t.src(e))
	return gapBad
}

// text of type `have` where a value of type `want` is expected (Go's implicit conversions)
func (t *gapTr) coerce(n ast.Node, text string, have, want *gapT) string {
	if have.k == "bad" || want.k == "bad" {
		return text
	}
	if have.same(want) {
		return text
	}
	if have.k == "const" && want.isNum() {
		return text
	}
	if have.k == "nil" {
		switch want.k {
		case "pstr", "err", "slice", "map", "dyn", "anycol", "func":
			z, _ := want.zero()
			return z
		}
	}
	if want.k == "dyn" {
		switch have.k {
		case "slice", "struct", "func", "string", "int", "f64", "bool", "pstr":
			return "(" + gapDynConOf(have) + " " + text + ")"
		}
	}
	if want.k == "anycol" && have.k == "struct" {
		return "(gap_col_" + have.pkg + " " + text + ")"
	}
	// a []byte where a string is expected and back: the same list
	if (have.k == "string" && want.k == "slice" && want.el.k == "byte") || (want.k == "string" && have.k == "slice" && have.el.k == "byte") {
		return text
	}
	t.fail(n, "a value of type %s where %s is expected", have.name(), want.name())
	return text
}

// ------------------------------------------------------------------ expressions

func gapParen(s string) string {
	if strings.ContainsAny(s, " ") && !strings.HasPrefix(s, "(") {
		return "(" + s + ")"
	}
	return s
}

func (t *gapTr) bind(pre *[]string, rhs string) string {
	v := t.tmp()
	*pre = append(*pre, fmt.Sprintf("do %s <- %s;", v, rhs))
	return v
}

// the capacity hint int(float64(A) * (float64(B) / float64(C)))
func (t *gapTr) sizeEstimate(x *ast.CallExpr, c gapCtx, pre *[]string) (string, bool) {
	conv := func(e ast.Expr, name string) (ast.Expr, bool) {
		ce, ok := e.(*ast.CallExpr)
		if !ok || len(ce.Args) != 1 {
			return nil, false
		}
		id, ok := ce.Fun.(*ast.Ident)
		if !ok || id.Name != name {
			return nil, false
		}
		return ce.Args[0], true
	}
	inner, ok := conv(x, "int")
	if !ok {
		return "", false
	}
	mul, ok := inner.(*ast.BinaryExpr)
	if !ok || mul.Op != token.MUL {
		return "", false
	}
	a, ok := conv(mul.X, "float64")
	if !ok {
		return "", false
	}
	par, ok := mul.Y.(*ast.ParenExpr)
	if !ok {
		return "", false
	}
	quo, ok := par.X.(*ast.BinaryExpr)
	if !ok || quo.Op != token.QUO {
		return "", false
	}
	b, ok1 := conv(quo.X, "float64")
	cc, ok2 := conv(quo.Y, "float64")
	if !ok1 || !ok2 {
		return "", false
	}
	var parts []string
	for _, e := range []ast.Expr{a, b, cc} {
		s, ty := t.expr(e, c, pre)
		if ty.k != "int" && ty.k != "bad" {
			t.fail(e, "the capacity hint is computed from %s, not from an int", ty.name())
		}
		parts = append(parts, gapParen(s))
	}
	return "(size_estimate " + strings.Join(parts, " ") + ")", true
}

func (t *gapTr) expr(e ast.Expr, c gapCtx, pre *[]string) (string, *gapT) {
	switch x := e.(type) {
	case *ast.ParenExpr:
		return t.expr(x.X, c, pre)
	case *ast.Ident:
		switch x.Name {
		case "nil":
			return "None", gapK("nil")
		case "true", "false":
			return x.Name, gapK("bool")
		}
		if v, ok := c.lookup(x.Name); ok {
			return v.coq, v.ty
		}
		if tb, ok := gapTables[t.pkg+"."+x.Name]; ok {
			return tb.coq, tb.ty
		}
		t.fail(e, "identifier %s is outside the translation", x.Name)
		return "tt", gapBad
	case *ast.BasicLit:
		switch x.Kind {
		case token.INT:
			v, err := strconv.ParseInt(x.Value, 0, 64)
			if err != nil {
				t.fail(e, "literal %s", x.Value)
				return "0", gapBad
			}
			return fmt.Sprintf("%d", v), gapK("const")
		case token.STRING:
			s, err := strconv.Unquote(x.Value)
			if err != nil {
				t.fail(e, "literal %s", x.Value)
				return "[]", gapBad
			}
			return coqBytes(s), gapK("string")
		}
	case *ast.SelectorExpr:
		s, ty := t.expr(x.X, c, pre)
		if ty.k == "struct" {
			st, ok := gapStructs[ty.pkg]
			if ok {
				if ft, ok := st.field(x.Sel.Name); ok {
					return fmt.Sprintf("(gap_%s_Column_%s %s)", ty.pkg, x.Sel.Name, s), ft
				}
			}
		}
		if ty.k != "bad" {
			t.fail(e, "selector %s", t.src(e))
		}
		return "tt", gapBad
	case *ast.IndexExpr:
		s, ty := t.expr(x.X, c, pre)
		i, ity := t.expr(x.Index, c, pre)
		if ty.k == "bad" || ity.k == "bad" {
			return "tt", gapBad
		}
		if ty.k != "slice" || !ity.isNum() {
			t.fail(e, "index expression %s", t.src(e))
			return "tt", gapBad
		}
		return t.bind(pre, fmt.Sprintf("gap_index %s %s", gapParen(s), gapParen(i))), ty.el
	case *ast.SliceExpr:
		if x.Slice3 || x.Low == nil || x.High == nil {
			t.fail(e, "slice expression %s", t.src(e))
			return "tt", gapBad
		}
		s, ty := t.expr(x.X, c, pre)
		a, aty := t.expr(x.Low, c, pre)
		b, bty := t.expr(x.High, c, pre)
		if ty.k == "bad" || aty.k == "bad" || bty.k == "bad" {
			return "tt", gapBad
		}
		if ty.k != "slice" || !aty.isNum() || !bty.isNum() {
			t.fail(e, "slice expression %s", t.src(e))
			return "tt", gapBad
		}
		return t.bind(pre, fmt.Sprintf("gap_slice %s %s %s", gapParen(s), gapParen(a), gapParen(b))), ty
	case *ast.StarExpr:
		s, ty := t.expr(x.X, c, pre)
		if ty.k == "bad" {
			return "tt", gapBad
		}
		if ty.k != "pstr" {
			t.fail(e, "dereference of %s", ty.name())
			return "tt", gapBad
		}
		return t.bind(pre, "gap_deref "+gapParen(s)), gapK("string")
	case *ast.UnaryExpr:
		switch x.Op {
		case token.NOT:
			s, ty := t.expr(x.X, c, pre)
			if ty.k != "bool" && ty.k != "bad" {
				t.fail(e, "! on %s", ty.name())
			}
			return "(negb " + gapParen(s) + ")", gapK("bool")
		case token.AND:
			// &s for a string variable, &x[i] for an element of a []string: the value reading
			s, ty := t.expr(x.X, c, pre)
			if ty.k == "bad" {
				return "None", gapBad
			}
			if ty.k != "string" {
				t.fail(e, "address of a %s", ty.name())
				return "None", gapBad
			}
			return "(Some " + gapParen(s) + ")", gapK("pstr")
		}
	case *ast.BinaryExpr:
		return t.binary(x, c, pre)
	case *ast.CompositeLit:
		return t.composite(x, c, pre)
	case *ast.CallExpr:
		texts, tys := t.call(x, c, pre)
		if len(texts) != 1 {
			if len(tys) != 0 && tys[0].k != "bad" {
				t.fail(e, "a call with %d results where one value is expected", len(texts))
			}
			return "tt", gapBad
		}
		return texts[0], tys[0]
	}
	t.fail(e, "expression %s is outside the translation", t.src(e))
	return "tt", gapBad
}

func (t *gapTr) binary(x *ast.BinaryExpr, c gapCtx, pre *[]string) (string, *gapT) {
	a, aty := t.expr(x.X, c, pre)
	var pre2 []string
	b, bty := t.expr(x.Y, c, &pre2)
	if aty.k == "bad" || bty.k == "bad" {
		return "tt", gapBad
	}
	if (x.Op == token.LAND || x.Op == token.LOR) && len(pre2) > 0 {
		t.fail(x, "the right operand of %s can panic", x.Op)
		return "false", gapBad
	}
	*pre = append(*pre, pre2...)
	num := aty.isNum() && bty.isNum() && (aty.k == bty.k || aty.k == "const" || bty.k == "const")
	rty := aty
	if aty.k == "const" {
		rty = bty
	}
	switch x.Op {
	case token.ADD:
		if num {
			return fmt.Sprintf("(%s + %s)", a, b), rty
		}
	case token.SUB:
		if num {
			return fmt.Sprintf("(%s - %s)", a, b), rty
		}
	case token.LAND:
		if aty.k == "bool" && bty.k == "bool" {
			return fmt.Sprintf("(%s && %s)", a, b), aty
		}
	case token.LOR:
		if aty.k == "bool" && bty.k == "bool" {
			return fmt.Sprintf("(%s || %s)", a, b), aty
		}
	case token.LSS:
		if num {
			return fmt.Sprintf("(%s <? %s)", a, b), gapK("bool")
		}
	case token.GTR:
		if num {
			return fmt.Sprintf("(%s <? %s)", b, a), gapK("bool")
		}
	case token.EQL, token.NEQ:
		s := ""
		switch {
		case num:
			s = fmt.Sprintf("(%s =? %s)", a, b)
		case aty.k == "string" && bty.k == "string":
			s = fmt.Sprintf("(bytes_eqb %s %s)", a, b)
		case (aty.k == "pstr" || aty.k == "err") && bty.k == "nil":
			s = fmt.Sprintf("(gap_isnil %s)", a)
		case aty.k == "bool" && bty.k == "bool":
			s = fmt.Sprintf("(Bool.eqb %s %s)", a, b)
		}
		if s != "" {
			if x.Op == token.NEQ {
				s = "(negb " + s + ")"
			}
			return s, gapK("bool")
		}
	}
	t.fail(x, "operator %s on %s and %s", x.Op, aty.name(), bty.name())
	return "tt", gapBad
}

func (t *gapTr) composite(x *ast.CompositeLit, c gapCtx, pre *[]string) (string, *gapT) {
	ty := t.resolve(x.Type)
	if ty.k == "bad" {
		return "tt", gapBad
	}
	if ty.k != "struct" {
		t.fail(x, "composite literal of type %s", ty.name())
		return "tt", gapBad
	}
	st, ok := gapStructs[ty.pkg]
	if !ok || ty.pkg != t.pkg {
		t.fail(x, "composite literal of a struct of another package")
		return "tt", gapBad
	}
	vals := map[string]string{}
	for _, el := range x.Elts {
		kv, ok := el.(*ast.KeyValueExpr)
		if !ok {
			t.fail(el, "positional composite literal")
			return "tt", gapBad
		}
		id, ok := kv.Key.(*ast.Ident)
		if !ok {
			t.fail(el, "composite literal key")
			return "tt", gapBad
		}
		ft, ok := st.field(id.Name)
		if !ok {
			t.fail(el, "unknown field %s", id.Name)
			return "tt", gapBad
		}
		s, vty := t.expr(kv.Value, c, pre)
		vals[id.Name] = gapParen(t.coerce(kv.Value, s, vty, ft))
	}
	parts := []string{"gap_mk_" + ty.pkg + "_Column"}
	for _, f := range st.fields {
		if v, ok := vals[f.name]; ok {
			parts = append(parts, v)
		} else {
			z, _ := f.ty.zero()
			parts = append(parts, z)
		}
	}
	return "(" + strings.Join(parts, " ") + ")", ty
}

// ------------------------------------------------------------------ calls

// arguments for parameter types ps; a single call with several results spreads over the parameters
func (t *gapTr) args(n ast.Node, as []ast.Expr, ps []*gapT, c gapCtx, pre *[]string) []string {
	if len(as) == 1 && len(ps) > 1 {
		if ce, ok := as[0].(*ast.CallExpr); ok {
			texts, tys := t.call(ce, c, pre)
			if len(texts) != len(ps) {
				if len(tys) == 0 || tys[0].k != "bad" {
					t.fail(n, "%d values for %d parameters", len(texts), len(ps))
				}
				return make([]string, len(ps))
			}
			var out []string
			for i := range texts {
				out = append(out, gapParen(t.coerce(as[0], texts[i], tys[i], ps[i])))
			}
			return out
		}
	}
	if len(as) != len(ps) {
		t.fail(n, "%d arguments for %d parameters", len(as), len(ps))
		return make([]string, len(ps))
	}
	var out []string
	for i, a := range as {
		s, ty := t.expr(a, c, pre)
		out = append(out, gapParen(t.coerce(a, s, ty, ps[i])))
	}
	return out
}

// a call of a translated function g: one temporary, or one per result
func (t *gapTr) callFn(n ast.Node, g *gapFn, recv string, as []ast.Expr, c gapCtx, pre *[]string) ([]string, []*gapT) {
	if g == nil || (!g.ok && g.text == "") {
		t.fail(n, "call of a function that is not translated")
		return []string{"tt"}, []*gapT{gapBad}
	}
	var ps []*gapT
	for _, p := range g.params {
		ps = append(ps, p.ty)
	}
	parts := []string{g.coq}
	if recv != "" {
		parts = append(parts, gapParen(recv))
	}
	parts = append(parts, t.args(n, as, ps, c, pre)...)
	if len(g.results) == 1 {
		return []string{t.bind(pre, strings.Join(parts, " "))}, g.results
	}
	var names []string
	for range g.results {
		names = append(names, t.tmp())
	}
	*pre = append(*pre, fmt.Sprintf("do %s <- %s;", gapPat(names), strings.Join(parts, " ")))
	return names, g.results
}

func (t *gapTr) call(x *ast.CallExpr, c gapCtx, pre *[]string) ([]string, []*gapT) {
	one := func(s string, ty *gapT) ([]string, []*gapT) { return []string{s}, []*gapT{ty} }
	bad := func() ([]string, []*gapT) { return []string{"tt"}, []*gapT{gapBad} }
	if x.Ellipsis != token.NoPos {
		t.fail(x, "call with ... outside append")
		return bad()
	}
	switch f := x.Fun.(type) {
	case *ast.Ident:
		if v, ok := c.lookup(f.Name); ok {
			// a function value
			if v.ty.k != "func" {
				t.fail(x, "call of %s, which is a %s", f.Name, v.ty.name())
				return bad()
			}
			parts := append([]string{v.coq}, t.args(x, x.Args, v.ty.ps, c, pre)...)
			if len(v.ty.rs) != 1 {
				t.fail(x, "a function value with %d results", len(v.ty.rs))
				return bad()
			}
			return one(t.bind(pre, strings.Join(parts, " ")), v.ty.rs[0])
		}
		switch f.Name {
		case "len":
			if len(x.Args) == 1 {
				s, ty := t.expr(x.Args[0], c, pre)
				if ty.k == "slice" || ty.k == "string" {
					return one("(gap_len "+gapParen(s)+")", gapK("int"))
				}
				if ty.k != "bad" {
					t.fail(x, "len of a %s", ty.name())
				}
				return bad()
			}
		case "make":
			if len(x.Args) >= 1 {
				ty := t.resolve(x.Args[0])
				if ty.k == "bad" {
					return bad()
				}
				if ty.k == "map" && len(x.Args) <= 2 {
					if len(x.Args) == 2 {
						_, hty := t.expr(x.Args[1], c, pre)
						if !hty.isNum() && hty.k != "bad" {
							t.fail(x, "size hint of type %s", hty.name())
						}
					}
					z, _ := ty.zero()
					return one(z, ty)
				}
				if ty.k == "slice" && len(x.Args) == 2 {
					n, nty := t.expr(x.Args[1], c, pre)
					z, ok := ty.el.zero()
					if !ok || (!nty.isNum() && nty.k != "bad") {
						t.fail(x, "make(%s)", t.src(x.Args[0]))
						return bad()
					}
					return one(t.bind(pre, fmt.Sprintf("gap_make %s %s", z, gapParen(n))), ty)
				}
				if ty.k == "slice" && len(x.Args) == 3 {
					if lit, ok := x.Args[1].(*ast.BasicLit); ok && lit.Value == "0" {
						n, nty := t.expr(x.Args[2], c, pre)
						if !nty.isNum() && nty.k != "bad" {
							t.fail(x, "capacity of type %s", nty.name())
							return bad()
						}
						return one(t.bind(pre, fmt.Sprintf("gap_make0 (T := %s) %s", ty.el.coq(), gapParen(n))), ty)
					}
				}
			}
			t.fail(x, "this form of make")
			return bad()
		case "int":
			if s, ok := t.sizeEstimate(x, c, pre); ok {
				return one(s, gapK("int"))
			}
		case "enumVal":
			if t.pkg == "ecolumn" && len(x.Args) == 1 {
				s, ty := t.expr(x.Args[0], c, pre)
				if ty.isNum() {
					return one("(gap_u8 "+gapParen(s)+")", gapK("ev"))
				}
			}
		}
		if g, ok := gapFuncs[t.pkg+"."+f.Name]; ok {
			return t.callFn(x, g, "", x.Args, c, pre)
		}
		t.fail(x, "call of %s is outside the translation", f.Name)
		return bad()
	case *ast.SelectorExpr:
		if id, ok := f.X.(*ast.Ident); ok {
			if _, isVar := c.lookup(id.Name); !isVar {
				path := gapImports(t.p)[id.Name]
				switch {
				case path == gapMod+"internal/strings" && f.Sel.Name == "NewPointer":
					as := t.args(x, x.Args, []*gapT{gapK("int"), gapK("int"), gapK("bool")}, c, pre)
					return one("(gf_strings_NewPointer "+strings.Join(as, " ")+")", gapK("ptr"))
				case path == gapMod+"internal/strings" && f.Sel.Name == "UnsafeBytesToString" && len(x.Args) == 1:
					s, ty := t.expr(x.Args[0], c, pre)
					if ty.k == "slice" && ty.el.k == "byte" {
						return one(s, gapK("string"))
					}
				case path == "strings" && f.Sel.Name == "ToUpper" && len(x.Args) == 1:
					s, ty := t.expr(x.Args[0], c, pre)
					if ty.k == "string" {
						return one("(go_strings_ToUpper "+gapParen(s)+")", gapK("string"))
					}
				case path == gapMod+"internal/scolumn" && t.pkg != "scolumn":
					if g, ok := gapFuncs["scolumn."+f.Sel.Name]; ok && g.recv == nil {
						return t.callFn(x, g, "", x.Args, c, pre)
					}
				case path == gapMod+"qerrors" && f.Sel.Name == "New" && len(x.Args) >= 2:
					return t.qerrorsNew(x, c, pre)
				}
				t.fail(x, "call of %s.%s is outside the translation", id.Name, f.Sel.Name)
				return bad()
			}
		}
		// a method call
		s, ty := t.expr(f.X, c, pre)
		switch ty.k {
		case "bad":
			return bad()
		case "ptr":
			if len(x.Args) == 0 {
				switch f.Sel.Name {
				case "IsNull":
					return one("(gf_strings_Pointer_IsNull "+gapParen(s)+")", gapK("bool"))
				case "Offset":
					return one("(gf_strings_Pointer_Offset "+gapParen(s)+")", gapK("int"))
				case "Len":
					return one("(gf_strings_Pointer_Len "+gapParen(s)+")", gapK("int"))
				}
			}
		case "ev":
			if len(x.Args) == 0 && f.Sel.Name == "isNull" {
				return one("(gf_ecolumn_enumVal_isNull "+gapParen(s)+")", gapK("bool"))
			}
		case "anycol":
			if len(x.Args) == 0 && f.Sel.Name == "DataType" {
				return one(t.bind(pre, "gap_col_DataType "+gapParen(s)), gapK("opaque"))
			}
		case "struct":
			if g, ok := gapFuncs[ty.pkg+".Column."+f.Sel.Name]; ok {
				return t.callFn(x, g, s, x.Args, c, pre)
			}
		}
		t.fail(x, "method call %s is outside the translation", t.src(x.Fun))
		return bad()
	}
	t.fail(x, "call %s is outside the translation", t.src(x))
	return bad()
}

// qerrors.New(op, format, args...): Some format; op and the arguments are evaluated and dropped
func (t *gapTr) qerrorsNew(x *ast.CallExpr, c gapCtx, pre *[]string) ([]string, []*gapT) {
	for i, a := range x.Args {
		if i == 1 {
			continue
		}
		if ce, ok := a.(*ast.CallExpr); ok {
			if se, ok := ce.Fun.(*ast.SelectorExpr); ok {
				if id, ok := se.X.(*ast.Ident); ok {
					// c.fnName("..") on the receiver: total (its text is matched by the generator)
					if v, isVar := c.lookup(id.Name); isVar && v.ty.k == "struct" && se.Sel.Name == "fnName" && len(ce.Args) == 1 {
						if _, isLit := ce.Args[0].(*ast.BasicLit); isLit {
							gapFnNameUsed[t.pkg] = true
							continue
						}
					}
					// reflect.TypeOf(x): total
					if _, isVar := c.lookup(id.Name); !isVar && gapImports(t.p)[id.Name] == "reflect" && se.Sel.Name == "TypeOf" && len(ce.Args) == 1 {
						t.expr(ce.Args[0], c, pre)
						continue
					}
				}
			}
		}
		t.expr(a, c, pre)
	}
	lit, ok := x.Args[1].(*ast.BasicLit)
	if !ok || lit.Kind != token.STRING {
		t.fail(x, "the format of qerrors.New is not a string literal")
		return []string{"None"}, []*gapT{gapBad}
	}
	s, _ := strconv.Unquote(lit.Value)
	return []string{"(Some " + coqBytes(s) + ")"}, []*gapT{gapK("err")}
}

var gapFnNameUsed = map[string]bool{}

// ------------------------------------------------------------------ statements

func gapRoot(e ast.Expr) string {
	switch x := e.(type) {
	case *ast.Ident:
		return x.Name
	case *ast.IndexExpr:
		return gapRoot(x.X)
	case *ast.SelectorExpr:
		return gapRoot(x.X)
	case *ast.ParenExpr:
		return gapRoot(x.X)
	case *ast.StarExpr:
		return gapRoot(x.X)
	}
	return ""
}

// the names stored into and the names declared anywhere inside the nodes
func gapAssigned(nodes ...ast.Node) (assigned, declared map[string]bool) {
	assigned, declared = map[string]bool{}, map[string]bool{}
	for _, n := range nodes {
		if n == nil {
			continue
		}
		ast.Inspect(n, func(m ast.Node) bool {
			switch x := m.(type) {
			case *ast.AssignStmt:
				for _, l := range x.Lhs {
					if id, ok := l.(*ast.Ident); ok && x.Tok == token.DEFINE {
						declared[id.Name] = true
					} else if r := gapRoot(l); r != "" {
						assigned[r] = true
					}
				}
			case *ast.IncDecStmt:
				if r := gapRoot(x.X); r != "" {
					assigned[r] = true
				}
			case *ast.RangeStmt:
				if x.Tok == token.DEFINE {
					for _, e := range []ast.Expr{x.Key, x.Value} {
						if id, ok := e.(*ast.Ident); ok {
							declared[id.Name] = true
						}
					}
				} else {
					for _, e := range []ast.Expr{x.Key, x.Value} {
						if e != nil {
							assigned[gapRoot(e)] = true
						}
					}
				}
			case *ast.UnaryExpr:
				// &x handed to a callee that stores through it (qfstrings.ToUpper(&buf, ..))
				if x.Op == token.AND {
					if id, ok := x.X.(*ast.Ident); ok {
						assigned[id.Name] = true
					}
				}
			case *ast.DeclStmt:
				if gd, ok := x.Decl.(*ast.GenDecl); ok {
					for _, sp := range gd.Specs {
						if vs, ok := sp.(*ast.ValueSpec); ok {
							for _, id := range vs.Names {
								declared[id.Name] = true
							}
						}
					}
				}
			}
			return true
		})
	}
	return
}

// the variables of the context that the nodes store into, in context order
func (t *gapTr) stateVars(n ast.Node, c gapCtx, nodes ...ast.Node) []gapVar {
	assigned, declared := gapAssigned(nodes...)
	var out []gapVar
	seen := map[string]bool{}
	for i := len(c.vars) - 1; i >= 0; i-- {
		v := c.vars[i]
		if seen[v.name] {
			continue
		}
		seen[v.name] = true
		if assigned[v.name] {
			if declared[v.name] {
				t.fail(n, "variable %s is stored into and also declared again inside the statement", v.name)
			}
			out = append([]gapVar{v}, out...)
		}
	}
	return out
}

func gapVarNames(vs []gapVar) []string {
	var out []string
	for _, v := range vs {
		out = append(out, v.coq)
	}
	return out
}

func gapVarTypes(vs []gapVar) []string {
	var out []string
	for _, v := range vs {
		out = append(out, v.ty.coq())
	}
	return out
}

func (t *gapTr) declare(c *gapCtx, name string, ty *gapT, own bool) string {
	if name == "_" {
		return "_"
	}
	v := gapVar{name: name, coq: "v_" + name, ty: ty, own: own}
	*c = c.push(v)
	return v.coq
}

// x := e / x = e on a plain variable
func (t *gapTr) setVar(n ast.Node, tok token.Token, lhs ast.Expr, text string, ty *gapT, own bool, c *gapCtx) string {
	id, ok := lhs.(*ast.Ident)
	if !ok {
		t.fail(n, "assignment to %s", t.src(lhs))
		return "_"
	}
	if tok == token.DEFINE || id.Name == "_" {
		if ty.k == "const" {
			ty = gapK("int")
		}
		if ty.k == "nil" || ty.k == "opaque" {
			t.fail(n, "a variable of this type")
		}
		return t.declare(c, id.Name, ty, own)
	}
	v, ok := c.lookup(id.Name)
	if !ok {
		t.fail(n, "assignment to %s, which is not a local variable", id.Name)
		return "_"
	}
	if ty.k != "bad" && !(ty.same(v.ty) || (ty.k == "const" && v.ty.isNum())) {
		t.fail(n, "assignment of a %s to %s of type %s", ty.name(), id.Name, v.ty.name())
	}
	return v.coq
}

func (t *gapTr) isCallTo(e ast.Expr, pkgPath, name string) (*ast.CallExpr, bool) {
	ce, ok := e.(*ast.CallExpr)
	if !ok {
		return nil, false
	}
	if pkgPath == "" {
		id, ok := ce.Fun.(*ast.Ident)
		return ce, ok && id.Name == name
	}
	se, ok := ce.Fun.(*ast.SelectorExpr)
	if !ok || se.Sel.Name != name {
		return nil, false
	}
	id, ok := se.X.(*ast.Ident)
	return ce, ok && gapImports(t.p)[id.Name] == pkgPath
}

func (t *gapTr) simple(st ast.Stmt, c *gapCtx) []string {
	var pre []string
	switch x := st.(type) {
	case *ast.AssignStmt:
		if x.Tok != token.DEFINE && x.Tok != token.ASSIGN && x.Tok != token.ADD_ASSIGN {
			break
		}
		if x.Tok == token.ADD_ASSIGN {
			if len(x.Lhs) != 1 || len(x.Rhs) != 1 {
				break
			}
			a, aty := t.expr(x.Lhs[0], *c, &pre)
			b, bty := t.expr(x.Rhs[0], *c, &pre)
			if !(aty.isNum() && (bty.k == aty.k || bty.k == "const")) && aty.k != "bad" && bty.k != "bad" {
				t.fail(st, "+= on %s and %s", aty.name(), bty.name())
			}
			name := t.setVar(st, token.ASSIGN, x.Lhs[0], "", aty, false, c)
			return append(pre, fmt.Sprintf("let %s := (%s + %s) in", name, a, b))
		}
		if len(x.Lhs) == 2 && len(x.Rhs) == 1 {
			switch r := x.Rhs[0].(type) {
			case *ast.TypeAssertExpr:
				if r.Type == nil {
					break
				}
				s, sty := t.expr(r.X, *c, &pre)
				want := t.resolve(r.Type)
				if sty.k == "bad" || want.k == "bad" {
					return pre
				}
				z, zok := want.zero()
				con := ""
				switch {
				case sty.k == "dyn":
					con = gapDynConOf(want)
				case sty.k == "anycol" && want.k == "struct":
					con = "gap_col_" + want.pkg
				}
				if con == "" || !zok {
					t.fail(st, "type assertion %s", t.src(r))
					return pre
				}
				a := t.setVar(st, x.Tok, x.Lhs[0], "", want, false, c)
				b := t.setVar(st, x.Tok, x.Lhs[1], "", gapK("bool"), false, c)
				return append(pre, fmt.Sprintf("let '(%s, %s) := (match %s with %s y => (y, true) | _ => (%s, false) end) in", a, b, s, con, z))
			case *ast.IndexExpr:
				m, mty := t.expr(r.X, *c, &pre)
				k, kty := t.expr(r.Index, *c, &pre)
				if mty.k == "bad" || kty.k == "bad" {
					return pre
				}
				if mty.k != "map" || kty.k != "string" {
					t.fail(st, "two-value index expression on a %s", mty.name())
					return pre
				}
				z, _ := mty.el.zero()
				a := t.setVar(st, x.Tok, x.Lhs[0], "", mty.el, false, c)
				b := t.setVar(st, x.Tok, x.Lhs[1], "", gapK("bool"), false, c)
				return append(pre, fmt.Sprintf("let '(%s, %s) := gap_mget2 %s %s %s in", a, b, z, gapParen(m), gapParen(k)))
			case *ast.CallExpr:
				texts, tys := t.call(r, *c, &pre)
				if len(texts) != 2 {
					if len(tys) == 0 || tys[0].k != "bad" {
						t.fail(st, "a call with %d results for two variables", len(texts))
					}
					return pre
				}
				a := t.setVar(st, x.Tok, x.Lhs[0], "", tys[0], false, c)
				b := t.setVar(st, x.Tok, x.Lhs[1], "", tys[1], false, c)
				return append(pre, fmt.Sprintf("let '(%s, %s) := (%s, %s) in", a, b, texts[0], texts[1]))
			}
			break
		}
		if len(x.Lhs) != 1 || len(x.Rhs) != 1 {
			break
		}
		// s[i] = e, m[k] = e on something the function made
		if ie, ok := x.Lhs[0].(*ast.IndexExpr); ok && x.Tok == token.ASSIGN {
			id, ok := ie.X.(*ast.Ident)
			if !ok {
				t.fail(st, "store into %s", t.src(ie.X))
				return pre
			}
			v, ok := c.lookup(id.Name)
			if !ok || !v.own {
				t.fail(st, "store into %s, which the function did not make itself", id.Name)
				return pre
			}
			i, ity := t.expr(ie.Index, *c, &pre)
			e, ety := t.expr(x.Rhs[0], *c, &pre)
			if ity.k == "bad" || ety.k == "bad" {
				return pre
			}
			switch {
			case v.ty.k == "slice" && ity.isNum():
				e = t.coerce(st, e, ety, v.ty.el)
				return append(pre, fmt.Sprintf("do %s <- gap_update %s %s %s;", v.coq, v.coq, gapParen(i), gapParen(e)))
			case v.ty.k == "map" && ity.k == "string":
				e = t.coerce(st, e, ety, v.ty.el)
				return append(pre, fmt.Sprintf("let %s := gap_mset %s %s %s in", v.coq, v.coq, gapParen(i), gapParen(e)))
			}
			t.fail(st, "store %s", t.src(x.Lhs[0]))
			return pre
		}
		// X = append(X, e) / append(X, e...)
		if ce, ok := t.isCallTo(x.Rhs[0], "", "append"); ok {
			id, isId := x.Lhs[0].(*ast.Ident)
			if !isId || x.Tok != token.ASSIGN || len(ce.Args) != 2 || gapRoot(ce.Args[0]) != id.Name {
				t.fail(st, "append is translated only as X = append(X, e)")
				return pre
			}
			if _, same := ce.Args[0].(*ast.Ident); !same {
				t.fail(st, "append is translated only as X = append(X, e)")
				return pre
			}
			v, ok := c.lookup(id.Name)
			if !ok || !v.own || v.ty.k != "slice" {
				t.fail(st, "append to %s, which the function did not make itself", id.Name)
				return pre
			}
			e, ety := t.expr(ce.Args[1], *c, &pre)
			if ety.k == "bad" {
				return pre
			}
			if ce.Ellipsis != token.NoPos {
				if !(ety.k == "slice" && ety.el.same(v.ty.el)) && !(ety.k == "string" && v.ty.el.k == "byte") {
					t.fail(st, "append of a %s to a %s", ety.name(), v.ty.name())
				}
				return append(pre, fmt.Sprintf("let %s := (%s ++ %s) in", v.coq, v.coq, e))
			}
			e = t.coerce(st, e, ety, v.ty.el)
			return append(pre, fmt.Sprintf("let %s := (%s ++ [%s]) in", v.coq, v.coq, e))
		}
		// r := qfstrings.ToUpper(&buf, s)
		if ce, ok := t.isCallTo(x.Rhs[0], gapMod+"internal/strings", "ToUpper"); ok {
			if len(ce.Args) == 2 {
				if ue, ok := ce.Args[0].(*ast.UnaryExpr); ok && ue.Op == token.AND {
					if id, ok := ue.X.(*ast.Ident); ok {
						v, ok := c.lookup(id.Name)
						s, sty := t.expr(ce.Args[1], *c, &pre)
						if ok && v.own && v.ty.k == "slice" && v.ty.el.k == "byte" && sty.k == "string" {
							r := t.tmp()
							pre = append(pre, fmt.Sprintf("do (%s, %s) <- strings_ToUpper %s %s;", r, v.coq, v.coq, gapParen(s)))
							name := t.setVar(st, x.Tok, x.Lhs[0], "", &gapT{k: "slice", el: gapK("byte")}, false, c)
							return append(pre, fmt.Sprintf("let %s := %s in", name, r))
						}
					}
				}
			}
			t.fail(st, "this call of qfstrings.ToUpper")
			return pre
		}
		own := false
		if _, ok := t.isCallTo(x.Rhs[0], "", "make"); ok {
			own = true
		}
		e, ety := t.expr(x.Rhs[0], *c, &pre)
		if ety.k == "bad" {
			return pre
		}
		name := t.setVar(st, x.Tok, x.Lhs[0], e, ety, own, c)
		if x.Tok == token.ASSIGN {
			if id, ok := x.Lhs[0].(*ast.Ident); ok {
				if v, ok := c.lookup(id.Name); ok && v.own && !own {
					t.fail(st, "variable %s, which the function stores into, is given another array", id.Name)
				}
			}
		}
		return append(pre, fmt.Sprintf("let %s := %s in", name, e))
	}
	t.fail(st, "statement %s is outside the translation", t.src(st))
	return pre
}

func gapJoin(lines []string, last string) string {
	if len(lines) == 0 {
		return last
	}
	return strings.Join(lines, "\n") + "\n" + last
}

func gapContainsReturn(n ast.Node) bool {
	found := false
	ast.Inspect(n, func(m ast.Node) bool {
		if _, ok := m.(*ast.ReturnStmt); ok {
			found = true
		}
		return !found
	})
	return found
}

func gapTerminates(list []ast.Stmt) bool {
	if len(list) == 0 {
		return false
	}
	switch x := list[len(list)-1].(type) {
	case *ast.ReturnStmt:
		return true
	case *ast.BlockStmt:
		return gapTerminates(x.List)
	case *ast.IfStmt:
		if x.Else == nil || !gapTerminates(x.Body.List) {
			return false
		}
		switch e := x.Else.(type) {
		case *ast.BlockStmt:
			return gapTerminates(e.List)
		case *ast.IfStmt:
			return gapTerminates([]ast.Stmt{e})
		}
	case *ast.TypeSwitchStmt:
		hasDefault := false
		for _, cl := range x.Body.List {
			cc := cl.(*ast.CaseClause)
			if cc.List == nil {
				hasDefault = true
			}
			if !gapTerminates(cc.Body) {
				return false
			}
		}
		return hasDefault
	}
	return false
}

func (t *gapTr) ret(x *ast.ReturnStmt, c gapCtx) string {
	var pre []string
	var vals []string
	if len(x.Results) != len(t.f.results) {
		t.fail(x, "return of %d values for %d results", len(x.Results), len(t.f.results))
		return "Panic"
	}
	for i, r := range x.Results {
		s, ty := t.expr(r, c, &pre)
		vals = append(vals, t.coerce(r, s, ty, t.f.results[i]))
	}
	return gapJoin(pre, "Ok "+gapTuple(vals))
}

func (t *gapTr) unreachable(n ast.Node) func(gapCtx) string {
	return func(gapCtx) string {
		t.fail(n, "control can fall out of a block that must end in return")
		return "Panic"
	}
}

func (t *gapTr) stmts(list []ast.Stmt, c gapCtx, k func(gapCtx) string) string {
	if len(list) == 0 {
		return k(c)
	}
	rest := list[1:]
	cont := func(c2 gapCtx) string { return t.stmts(rest, c2, k) }
	switch x := list[0].(type) {
	case *ast.ReturnStmt:
		if len(rest) > 0 {
			t.fail(x, "statements after return")
		}
		return t.ret(x, c)
	case *ast.IfStmt:
		return t.ifStmt(x, c, cont, len(rest) == 0)
	case *ast.RangeStmt:
		return t.rangeStmt(x, c, cont)
	case *ast.TypeSwitchStmt:
		return t.typeSwitch(x, c, cont)
	case *ast.BlockStmt:
		t.fail(x, "nested block")
		return "Panic"
	}
	c2 := c
	lines := t.simple(list[0], &c2)
	return gapJoin(lines, cont(c2))
}

func (t *gapTr) ifStmt(x *ast.IfStmt, c gapCtx, cont func(gapCtx) string, last bool) string {
	outer := c
	var lines []string
	if x.Init != nil {
		_, declared := gapAssigned(x.Init)
		for n := range declared {
			if _, ok := c.lookup(n); ok {
				t.fail(x, "the init statement of the if declares %s again", n)
			}
		}
		lines = t.simple(x.Init, &c)
	}
	cond, cty := t.expr(x.Cond, c, &lines)
	if cty.k != "bool" && cty.k != "bad" {
		t.fail(x, "condition of type %s", cty.name())
	}
	var elseList []ast.Stmt
	hasElse := false
	switch e := x.Else.(type) {
	case nil:
	case *ast.BlockStmt:
		elseList, hasElse = e.List, true
	case *ast.IfStmt:
		elseList, hasElse = []ast.Stmt{e}, true
	}
	thenT := gapTerminates(x.Body.List)
	switch {
	case thenT && !hasElse:
		th := t.stmts(x.Body.List, c, t.unreachable(x))
		return gapJoin(lines, fmt.Sprintf("if %s then\n%s\nelse\n%s", cond, gapIndent(th), gapIndent(cont(outer))))
	case thenT && hasElse && gapTerminates(elseList):
		th := t.stmts(x.Body.List, c, t.unreachable(x))
		el := t.stmts(elseList, c, t.unreachable(x))
		if !last {
			t.fail(x, "statements after an if whose branches all return")
		}
		return gapJoin(lines, fmt.Sprintf("if %s then\n%s\nelse\n%s", cond, gapIndent(th), gapIndent(el)))
	case !gapContainsReturn(x.Body) && (x.Else == nil || !gapContainsReturn(x.Else)):
		nodes := []ast.Node{x.Body}
		if x.Else != nil {
			nodes = append(nodes, x.Else)
		}
		vars := t.stateVars(x, outer, nodes...)
		out := func(gapCtx) string { return "Ok " + gapTuple(gapVarNames(vars)) }
		th := t.stmts(x.Body.List, c, out)
		el := t.stmts(elseList, c, out)
		return gapJoin(lines, fmt.Sprintf("do %s <- (if %s then\n%s\nelse\n%s);\n%s", gapPat(gapVarNames(vars)), cond, gapIndent(th), gapIndent(el), cont(outer)))
	}
	t.fail(x, "this shape of if (a return in one branch only, with statements after the other)")
	return "Panic"
}

func (t *gapTr) typeSwitch(x *ast.TypeSwitchStmt, c gapCtx, cont func(gapCtx) string) string {
	if x.Init != nil {
		t.fail(x, "type switch with init statement")
		return "Panic"
	}
	bindName := ""
	var ta *ast.TypeAssertExpr
	switch a := x.Assign.(type) {
	case *ast.AssignStmt:
		if len(a.Lhs) == 1 && len(a.Rhs) == 1 && a.Tok == token.DEFINE {
			if id, ok := a.Lhs[0].(*ast.Ident); ok {
				bindName = id.Name
			}
			ta, _ = a.Rhs[0].(*ast.TypeAssertExpr)
		}
	case *ast.ExprStmt:
		ta, _ = a.X.(*ast.TypeAssertExpr)
	}
	if ta == nil {
		t.fail(x, "type switch header")
		return "Panic"
	}
	id, ok := ta.X.(*ast.Ident)
	if !ok {
		t.fail(x, "type switch on %s", t.src(ta.X))
		return "Panic"
	}
	sv, ok := c.lookup(id.Name)
	if !ok || sv.ty.k != "dyn" {
		t.fail(x, "type switch on %s, which is not an interface{} variable", id.Name)
		return "Panic"
	}
	var b strings.Builder
	fmt.Fprintf(&b, "match %s with\n", sv.coq)
	hasDefault := false
	var defaultText string
	seen := map[string]bool{}
	for _, cl := range x.Body.List {
		cc := cl.(*ast.CaseClause)
		if !gapTerminates(cc.Body) {
			t.fail(cc, "a clause of the type switch does not end in return")
			continue
		}
		if cc.List == nil {
			hasDefault = true
			c2 := c
			line := ""
			if bindName != "" {
				line = fmt.Sprintf("let %s := %s in\n", t.declare(&c2, bindName, sv.ty, false), sv.coq)
			}
			defaultText = line + t.stmts(cc.Body, c2, t.unreachable(cc))
			continue
		}
		if len(cc.List) != 1 {
			t.fail(cc, "a clause with several types")
			continue
		}
		ty := t.resolve(cc.List[0])
		if ty.k == "bad" {
			continue
		}
		con := gapDynConOf(ty)
		if seen[con] {
			t.fail(cc, "type %s twice", ty.name())
		}
		seen[con] = true
		c2 := c
		name := "_"
		if bindName != "" {
			name = t.declare(&c2, bindName, ty, false)
		}
		body := t.stmts(cc.Body, c2, t.unreachable(cc))
		fmt.Fprintf(&b, "| %s %s =>\n%s\n", con, name, gapIndent(body))
	}
	if hasDefault {
		fmt.Fprintf(&b, "| _ =>\n%s\n", gapIndent(defaultText))
	} else {
		fmt.Fprintf(&b, "| _ =>\n%s\n", gapIndent(cont(c)))
	}
	b.WriteString("end")
	return b.String()
}

func (t *gapTr) rangeStmt(x *ast.RangeStmt, c gapCtx, cont func(gapCtx) string) string {
	if x.Tok != token.DEFINE && !(x.Key == nil && x.Value == nil) {
		t.fail(x, "range assigning to existing variables")
		return "Panic"
	}
	if gapContainsReturn(x.Body) {
		t.fail(x, "return inside a loop")
		return "Panic"
	}
	bad := false
	ast.Inspect(x.Body, func(m ast.Node) bool {
		switch m.(type) {
		case *ast.BranchStmt, *ast.DeferStmt, *ast.GoStmt, *ast.FuncLit, *ast.LabeledStmt:
			bad = true
		}
		return true
	})
	if bad {
		t.fail(x, "break / continue / goto / defer / closure inside a loop")
		return "Panic"
	}
	var pre []string
	xs, xty := t.expr(x.X, c, &pre)
	if xty.k == "bad" {
		return "Panic"
	}
	if xty.k != "slice" || len(pre) != 0 {
		t.fail(x, "range over %s", t.src(x.X))
		return "Panic"
	}
	keyName, valName := "_", "_"
	if id, ok := x.Key.(*ast.Ident); ok {
		keyName = id.Name
	} else if x.Key != nil {
		t.fail(x, "range key %s", t.src(x.Key))
	}
	if id, ok := x.Value.(*ast.Ident); ok {
		valName = id.Name
	} else if x.Value != nil {
		t.fail(x, "range value %s", t.src(x.Value))
	}
	state := t.stateVars(x, c, x.Body)
	root := gapRoot(x.X)
	for _, v := range state {
		if v.name == root {
			t.fail(x, "the loop stores into the slice it ranges over")
		}
	}
	inner := c
	keyCoq, valCoq := "_", "_"
	if keyName != "_" {
		keyCoq = t.declare(&inner, keyName, gapK("int"), false)
	}
	if valName != "_" {
		valCoq = t.declare(&inner, valName, xty.el, false)
	}
	t.nloop++
	loopName := fmt.Sprintf("%s_loop%d", t.f.coq, t.nloop)
	stNames := gapVarNames(state)
	recur := "loop l'"
	if keyName != "_" {
		recur += " (" + keyCoq + " + 1)"
	}
	for _, n := range stNames {
		recur += " " + n
	}
	body := t.stmts(x.Body.List, inner, func(gapCtx) string { return recur })
	// the free variables of the body
	var params []gapVar
	seen := map[string]bool{}
	for i := len(c.vars) - 1; i >= 0; i-- {
		v := c.vars[i]
		if seen[v.name] {
			continue
		}
		seen[v.name] = true
		isState := false
		for _, s := range state {
			if s.name == v.name {
				isState = true
			}
		}
		if !isState && gapMentions(body, v.coq) {
			params = append([]gapVar{v}, params...)
		}
	}
	stT := gapTypeTuple(gapVarTypes(state))
	var b strings.Builder
	fmt.Fprintf(&b, "Definition %s", loopName)
	for _, p := range params {
		fmt.Fprintf(&b, " (%s : %s)", p.coq, p.ty.coq())
	}
	fmt.Fprintf(&b, " : %s", xty.coq())
	if keyName != "_" {
		b.WriteString(" -> Z")
	}
	for _, s := range state {
		fmt.Fprintf(&b, " -> %s", s.ty.coq())
	}
	fmt.Fprintf(&b, " -> outcome %s :=\n  fix loop (l : %s)", stT, xty.coq())
	if keyName != "_" {
		fmt.Fprintf(&b, " (%s : Z)", keyCoq)
	}
	for _, s := range state {
		fmt.Fprintf(&b, " (%s : %s)", s.coq, s.ty.coq())
	}
	fmt.Fprintf(&b, " {struct l} : outcome %s :=\n    match l with\n    | [] => Ok %s\n    | %s :: l' =>\n%s\n    end.\n",
		stT, gapTuple(stNames), valCoq, gapIndent(gapIndent(gapIndent(body))))
	t.loops = append(t.loops, b.String())
	call := loopName
	for _, p := range params {
		call += " " + p.coq
	}
	call += " " + gapParen(xs)
	if keyName != "_" {
		call += " 0"
	}
	for _, n := range stNames {
		call += " " + n
	}
	return fmt.Sprintf("do %s <- %s;\n%s", gapPat(stNames), call, cont(c))
}

// ------------------------------------------------------------------ functions

func gapCoqName(pkg, fn string) string { return "gap_" + pkg + "_" + strings.ReplaceAll(fn, ".", "_") }

func gapSource(p *pkgInfo, fd *ast.FuncDecl) string {
	cp := *fd
	cp.Doc = nil
	return gapCommentSafe(gapSrc(p.fset, &cp))
}

func (t *gapTr) signature() bool {
	fd := t.f.fd
	if fd.Recv != nil {
		if len(fd.Recv.List) != 1 || len(fd.Recv.List[0].Names) != 1 {
			t.fail(fd, "receiver")
			return false
		}
		if _, isPtr := fd.Recv.List[0].Type.(*ast.StarExpr); isPtr {
			t.fail(fd, "pointer receiver")
			return false
		}
		ty := t.resolve(fd.Recv.List[0].Type)
		n := fd.Recv.List[0].Names[0].Name
		t.f.recv = &gapVar{name: n, coq: "v_" + n, ty: ty}
	}
	for _, fl := range fd.Type.Params.List {
		ty := t.resolve(fl.Type)
		if len(fl.Names) == 0 {
			t.fail(fd, "unnamed parameter")
			return false
		}
		for _, n := range fl.Names {
			coq := "v_" + n.Name
			if n.Name == "_" {
				coq = "_"
			}
			t.f.params = append(t.f.params, gapVar{name: n.Name, coq: coq, ty: ty})
		}
	}
	if fd.Type.Results != nil {
		for _, fl := range fd.Type.Results.List {
			if len(fl.Names) != 0 {
				t.fail(fd, "named results")
				return false
			}
			t.f.results = append(t.f.results, t.resolve(fl.Type))
		}
	}
	return !t.bad
}

func (t *gapTr) translate() {
	f := t.f
	c := gapCtx{}
	var sig []string
	if f.recv != nil {
		c = c.push(*f.recv)
		sig = append(sig, fmt.Sprintf("(%s : %s)", f.recv.coq, f.recv.ty.coq()))
	}
	for _, v := range f.params {
		sig = append(sig, fmt.Sprintf("(%s : %s)", v.coq, v.ty.coq()))
		if v.name != "_" {
			c = c.push(v)
		}
	}
	body := t.stmts(f.fd.Body.List, c, func(gapCtx) string {
		t.fail(f.fd, "the function can fall off its end")
		return "Panic"
	})
	var rs []string
	for _, r := range f.results {
		rs = append(rs, r.coq())
	}
	var b strings.Builder
	fmt.Fprintf(&b, "(* internal/%s\n%s *)\n", f.pkg, gapSource(t.p, f.fd))
	for _, l := range t.loops {
		b.WriteString(l)
	}
	fmt.Fprintf(&b, "Definition %s %s : outcome %s :=\n%s.\n", f.coq, strings.Join(sig, " "), gapTypeTuple(rs), gapIndent(body))
	f.text = b.String()
	f.ok = !t.bad
}

// var X = map[string]func(..) ..{"key": fn, ..}
func gapTranslateTable(p *pkgInfo, pkg, name string) (string, bool) {
	tr := &gapTr{pkg: pkg, p: p, f: &gapFn{name: "var " + name}}
	e, ok := p.vars[name]
	if !ok {
		problem("column apply translation: table %s not found in internal/%s", name, pkg)
		return "", false
	}
	cl, ok := e.(*ast.CompositeLit)
	if !ok {
		tr.fail(e, "the table is not a map literal")
		return "", false
	}
	ty := tr.resolve(cl.Type)
	if ty.k != "map" || ty.el.k != "func" {
		if ty.k != "bad" {
			tr.fail(e, "the table is not a map from names to functions")
		}
		return "", false
	}
	var entries []string
	for _, el := range cl.Elts {
		kv, ok := el.(*ast.KeyValueExpr)
		if !ok {
			tr.fail(el, "table entry")
			continue
		}
		key, ok := stringOf(p, kv.Key)
		id, ok2 := kv.Value.(*ast.Ident)
		if !ok || !ok2 {
			tr.fail(el, "table entry %s", gapSrc(p.fset, el))
			continue
		}
		g, ok := gapFuncs[pkg+"."+id.Name]
		if !ok || (!g.ok && g.text == "") || g.recv != nil {
			tr.fail(el, "table entry %s is not a translated function", id.Name)
			continue
		}
		gt := &gapT{k: "func", rs: g.results}
		for _, q := range g.params {
			gt.ps = append(gt.ps, q.ty)
		}
		if !gt.same(ty.el) {
			tr.fail(el, "table entry %s has another signature", id.Name)
			continue
		}
		entries = append(entries, fmt.Sprintf("(%s, %s)", coqBytes(key), g.coq))
	}
	coq := "gap_" + pkg + "_" + name
	gapTables[pkg+"."+name] = &gapTable{coq: coq, ty: ty}
	text := fmt.Sprintf("(* internal/%s\nvar %s = %s *)\nDefinition %s : %s :=\n  [%s].\n", pkg, name,
		gapCommentSafe(gapSrc(p.fset, cl)), coq, ty.coq(), strings.Join(entries, "; "))
	return text, !tr.bad
}

func genColApply() string {
	gapFuncs = map[string]*gapFn{}
	gapTables = map[string]*gapTable{}
	gapStructs = map[string]*gapStruct{}
	gapDyns = nil
	gapFnNameUsed = map[string]bool{}
	golden := ""
	if fl := flag.Lookup("golden"); fl != nil && fl.Value.String() != "" {
		if gb, err := os.ReadFile(filepath.Join(fl.Value.String(), "GenColApply.v")); err == nil {
			golden = string(gb)
		}
	}
	var head, body strings.Builder
	block := func(b *strings.Builder, name, text string, ok bool) bool {
		if !ok {
			old, found := gapGoldenBlock(golden, name)
			if !found {
				return false
			}
			text = "(* FALLBACK " + name + ": not derivable from the current source; text of the last validated tree *)\n" + old
		}
		fmt.Fprintf(b, "(* BEGIN %s *)\n%s(* END %s *)\n\n", name, text, name)
		return true
	}
	head.WriteString(gapPreamble1)
	for _, pkg := range gapPkgs {
		p := loadPkg("internal/" + pkg)
		s, src := gapLoadStruct(p, pkg)
		gapStructs[pkg] = s
		block(&head, "gap_"+pkg+"_Column", s.record(src), s.ok)
	}
	// column.Column
	var ac strings.Builder
	ac.WriteString("(* column.Column: the nil interface, a column of one of the translated packages, any other implementation *)\n")
	ac.WriteString("Inductive gap_anycol (F64 OTHERC : Type) : Type :=\n| gap_col_nil\n")
	for _, pkg := range gapPkgs {
		fmt.Fprintf(&ac, "| gap_col_%s (c : %s)\n", pkg, (&gapT{k: "struct", pkg: pkg}).coq())
	}
	ac.WriteString("| gap_col_other (x : OTHERC).\nArguments gap_col_nil {F64 OTHERC}.\n")
	for _, pkg := range gapPkgs {
		fmt.Fprintf(&ac, "Arguments gap_col_%s {F64 OTHERC}.\n", pkg)
	}
	ac.WriteString("Arguments gap_col_other {F64 OTHERC}.\n")
	ac.WriteString("(* x.DataType() for error texts: a method call on the nil interface panics *)\n")
	ac.WriteString("Definition gap_col_DataType {F64 OTHERC : Type} (c : gap_anycol F64 OTHERC) : outcome unit :=\n  match c with gap_col_nil => Panic | _ => Ok tt end.\n")
	block(&head, "gap_anycol", ac.String(), true)

	for _, pkg := range gapPkgs {
		p := loadPkg("internal/" + pkg)
		for _, fn := range gapSpecs[pkg] {
			if strings.HasPrefix(fn, "var ") {
				name := strings.TrimPrefix(fn, "var ")
				text, ok := gapTranslateTable(p, pkg, name)
				if !block(&body, "gap_"+pkg+"_"+name, text, ok) {
					delete(gapTables, pkg+"."+name)
				}
				continue
			}
			f := &gapFn{pkg: pkg, name: fn, coq: gapCoqName(pkg, fn)}
			gapFuncs[pkg+"."+fn] = f
			fd, ok := p.funcs[fn]
			if !ok || fd.Body == nil {
				problem("column apply translation: function %s not found in internal/%s", fn, pkg)
			} else {
				f.fd = fd
				t := &gapTr{pkg: pkg, p: p, f: f}
				if t.signature() {
					t.translate()
				}
			}
			text := f.text
			if !f.ok {
				f.text = ""
			}
			if block(&body, f.coq, text, f.ok) && !f.ok {
				f.text = "fallback"
			}
		}
		if gapFnNameUsed[pkg] {
			fd, ok := p.funcs["Column.fnName"]
			if !ok || fd.Body == nil || gapSrc(p.fset, fd.Body) != gapFnNameBody {
				problem("column apply translation: internal/%s Column.fnName is not the text the vocabulary stands for", pkg)
			}
		}
	}
	for _, pth := range []struct{ dir, fn string }{{"internal/strings", "ToUpper"}, {"internal/strings", "UnsafeBytesToString"}, {"internal/strings", "NewPointer"}, {"internal/strings", "Pointer.IsNull"}, {"internal/strings", "Pointer.Offset"}, {"internal/strings", "Pointer.Len"}, {"internal/ecolumn", "enumVal.isNull"}} {
		if fd, ok := loadPkg(pth.dir).funcs[pth.fn]; !ok || fd.Body == nil {
			problem("column apply translation: %s not found in %s", pth.fn, pth.dir)
		}
	}
	// interface{}
	var dy strings.Builder
	dy.WriteString("(* interface{}: a value with its dynamic type; one constructor per type that a type switch or a type assertion of\n   the translated functions names or that a translated function answers as interface{}; gap_dyn_nil the nil interface,\n   gap_dyn_other anything else *)\n")
	dy.WriteString("Inductive gap_dyn (F64 OTHER : Type) : Type :=\n| gap_dyn_nil\n")
	for _, d := range gapDyns {
		fmt.Fprintf(&dy, "| %s (x : %s)\n", d.con, d.ty.coq())
	}
	dy.WriteString("| gap_dyn_other (x : OTHER).\nArguments gap_dyn_nil {F64 OTHER}.\n")
	for _, d := range gapDyns {
		fmt.Fprintf(&dy, "Arguments %s {F64 OTHER}.\n", d.con)
	}
	dy.WriteString("Arguments gap_dyn_other {F64 OTHER}.\n")
	block(&head, "gap_dyn", dy.String(), true)
	return head.String() + gapPreamble2 + body.String() + "End GenColApply.\n"
}
