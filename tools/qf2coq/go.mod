module qf2coq

go 1.20
