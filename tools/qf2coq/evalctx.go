package main

// Translation of the evaluation context and of the function package into Gallina (coq/Gen/GenEvalCtx.v, tie T1 for
// C07 / C10):
//   config/eval/context.go: ArgCount.String, NewDefaultCtx, Context.GetFunc, Context.setFunc, Context.SetFunc
//     (Context.String ranges over maps in the runtime's order and is not a function of the context: not translated);
//   config/eval/config.go: NewConfig, EvalContext;
//   function/string.go, int.go, float.go, bool.go: the functions that are not integer / boolean arithmetic already in
//     GenFuncs.v (nilSafe, UpperS, LowerS, StrS, LenS, ConcatS, StrI, FloatI, StrF, IntF, StrB); the others are
//     variables of the generated section, typed by their Go signature.
// coq/Proofs/GenEvalCtxProofs.v proves the generated definitions equal to the hand-written model (Model/Eval.v ctx /
// get_func) through an explicit representation relation, coq/Properties/T1EvalCtx.v registers T1_evalctx_<name>.
//
// THE SCHEME (anything that does not fit is reported through problem(...); main.go then answers with the whole golden
// copy of the file, so that the development still builds — the exit status says the tie is broken).
//
//	integers    int and the named byte types (ArgCount, types.FunctionType) -> Z; their constants are evaluated from
//	            the const blocks (iota) into Definitions gct_<Name> / gct_types_<Name>.  A byte variable can hold any
//	            value: GetFunc's "else" branch answers every ArgCount other than ArgCountOne, as in the source.
//	float64     -> the abstract type F64; int(x) / float64(x) -> the variables f64_to_int / int_to_f64;
//	            fmt.Sprintf("%f", x) -> fmt_Sprintf_f x.
//	strings     string -> bytes; *string -> option bytes (nil = None); &x -> Some x; *p -> gct_deref p (Panic for
//	            nil); len(s) -> length; s + t -> s ++ t.
//	maps        map[K]V -> gct_map K V = option (list (K * V)): None is the nil map (reads answer the zero value,
//	            a store panics), Some l an association list without meaning of its order for reads (first match);
//	            a map literal -> Some [..] (a constant key twice is rejected); v, ok := m[k] -> gct_mget; m[k] ->
//	            fst of it.  Maps are reference values in Go: the translation keeps every map in exactly ONE place
//	            (inside the Context value; a map is never copied into a second variable or field — anything else is
//	            rejected), so the store  root.f[k1].g[k2] = v  is the functional update of that path: the new inner
//	            map is written back along the path (gct_mset at every map step, a rebuilt record at every field
//	            step) and the root variable is rebound.  A store through a missing outer key reads the zero struct,
//	            whose maps are nil: Panic, as in Go.
//	structs     type T struct -> Record gct_T (constructor gct_mk_T, projections gct_T_<field>); *T -> option gct_T
//	            (nil = None), p.f -> gct_deref p first (Panic for nil), &T{..} -> Some.  A method with a pointer
//	            receiver that stores (directly or through a callee) answers the new receiver as its first result.
//	interface{} -> Inductive gct_dyn: gct_dyn_nil, one constructor gct_dyn_func_<params>_to_<result> for every
//	            function type that the type switch of SetFunc names or that a function stored by NewDefaultCtx has
//	            (discovered; same names as the constructors of gap_dyn in GenColApply.v), gct_dyn_other for every
//	            other dynamic type.  A function value func(A) B is A -> outcome B.  switch x.(type) without binding
//	            -> match with or-patterns for a clause that lists several types.
//	errors      error -> option E; qerrors.New(op, format, args..) -> Some (err_New op format) (the arguments must be
//	            variables or reflect.TypeOf of a variable: total, dropped), qerrors.Propagate(op, err) -> Some
//	            (err_Propagate op err), qfstrings.CheckName -> the variable strings_CheckName (translated on its own
//	            in GenFuncs.v).
//	functions   a stored function function.X / math.Abs -> the translated gct_function_X where this file translates
//	            it, else the section variable function_X / math_Abs of the type of its Go signature.
//	closures    a function whose body is `return func(..) {..}` -> a Definition answering the fun directly (making
//	            a closure cannot fail); func(c *T) with stores into c -> gct_T -> outcome gct_T (the in/out reading of
//	            a pointer that is never nil: the only call site is f(&result)).
//	results     every function answers outcome T (Panic = Go panic).  NO fuel: the one loop ranges over a slice.
//	statements  x := e; var x T; a, b = e1, e2; v, ok = m[k]; path = e; if (with init) / else; switch on a value
//	            with constant cases; switch x.(type); for _, f := range s { f(&v) }; a call statement of a storing
//	            method; return.  The continuation of an if / switch is repeated in every branch.
//	rejected    everything else.

import (
	"fmt"
	"go/ast"
	"go/token"
	"strconv"
	"strings"
)

type gctT struct {
	k      string // Z f64 bool string pstr dyn err map struct ptr func slice statefn bad
	name   string
	key    *gctT
	elem   *gctT
	params []*gctT
	result *gctT
}

var gctBad = &gctT{k: "bad"}
var gctZ = &gctT{k: "Z"}
var gctBool = &gctT{k: "bool"}
var gctString = &gctT{k: "string"}
var gctPstr = &gctT{k: "pstr"}
var gctDyn = &gctT{k: "dyn"}
var gctErr = &gctT{k: "err"}
var gctF64 = &gctT{k: "f64"}

func (t *gctT) coq() string {
	switch t.k {
	case "Z":
		return "Z"
	case "f64":
		return "F64"
	case "bool":
		return "bool"
	case "string":
		return "bytes"
	case "pstr":
		return "(option bytes)"
	case "dyn":
		return "gct_dyn"
	case "err":
		return "(option E)"
	case "map":
		return "(gct_map " + t.key.coq() + " " + t.elem.coq() + ")"
	case "struct":
		return "gct_" + t.name
	case "ptr":
		return "(option gct_" + t.elem.name + ")"
	case "slice":
		return "(list " + t.elem.coq() + ")"
	case "statefn":
		return "(gct_" + t.elem.name + " -> outcome gct_" + t.elem.name + ")"
	case "func":
		s := ""
		for _, p := range t.params {
			s += p.coq() + " -> "
		}
		if t.result == nil {
			return "(" + s + "outcome unit)"
		}
		return "(" + s + "outcome " + t.result.coq() + ")"
	}
	return "BAD"
}

func (t *gctT) short() string {
	switch t.k {
	case "Z":
		return "int"
	case "f64":
		return "float64"
	case "bool":
		return "bool"
	case "string":
		return "string"
	case "pstr":
		return "ptr_string"
	}
	return "X"
}

func (t *gctT) same(u *gctT) bool {
	if t.k != u.k || t.name != u.name {
		return false
	}
	switch t.k {
	case "map":
		return t.key.same(u.key) && t.elem.same(u.elem)
	case "ptr", "slice", "statefn":
		return t.elem.same(u.elem)
	case "func":
		if len(t.params) != len(u.params) || (t.result == nil) != (u.result == nil) {
			return false
		}
		for i := range t.params {
			if !t.params[i].same(u.params[i]) {
				return false
			}
		}
		return t.result == nil || t.result.same(u.result)
	}
	return true
}

type gctField struct {
	name string
	ty   *gctT
}

type gctStruct struct {
	name   string
	fields []gctField
	src    string
}

type gctVar struct {
	name string
	ty   *gctT
}

type gctFn struct {
	pkg      string // eval or function
	key      string // Receiver.Name
	coq      string
	fd       *ast.FuncDecl
	recv     *gctVar
	params   []gctVar
	results  []*gctT
	mutates  bool
	pureFun  bool // body is `return func..`: answers the fun itself
	funcType *gctT
}

type gctState struct {
	structs  map[string]*gctStruct
	sorder   []string
	named    map[string]*gctT // named types of package eval
	fns      map[string]*gctFn
	dyns     []string          // constructor names in order of discovery
	dynTy    map[string]*gctT  // constructor -> func type
	vars     []string          // section variables for stored functions, in order
	varTy    map[string]string // their Coq types
	fnVals   map[string]*gctT  // function package: name -> func type (declared functions and initialised vars)
	fnDone   map[string]bool   // function package: translated by this file
	failed   bool
	curFn    string
	ntmp     int
	imports  map[string]string
	p        *pkgInfo
	pkgKey   string
	curRecv  *gctVar
	curMut   bool
	curRes   []*gctT
	curState *gctVar // a statefn literal's parameter
}

var gct *gctState

func (s *gctState) fail(n ast.Node, format string, a ...interface{}) {
	s.failed = true
	where := ""
	if n != nil && s.p != nil {
		where = s.p.fset.Position(n.Pos()).String() + ": "
	}
	problem("evalctx %s: %s%s", s.curFn, where, fmt.Sprintf(format, a...))
}

func (s *gctState) src(n ast.Node) string { return gapSrc(s.p.fset, n) }

func (s *gctState) tmp() string {
	s.ntmp++
	return "t" + strconv.Itoa(s.ntmp)
}

func gctImports(f *ast.File) map[string]string {
	m := map[string]string{}
	for _, im := range f.Imports {
		path, _ := strconv.Unquote(im.Path.Value)
		name := path[strings.LastIndex(path, "/")+1:]
		if im.Name != nil {
			name = im.Name.Name
		}
		m[name] = path
	}
	return m
}

const gctQ = "github.com/tobgu/qframe/"

// ------------------------------------------------------------------ types

func (s *gctState) resolve(e ast.Expr) *gctT {
	switch t := e.(type) {
	case *ast.ParenExpr:
		return s.resolve(t.X)
	case *ast.Ident:
		switch t.Name {
		case "int", "byte":
			return gctZ
		case "float64":
			return gctF64
		case "bool":
			return gctBool
		case "string":
			return gctString
		case "error":
			return gctErr
		}
		if s.pkgKey == "eval" {
			if ty, ok := s.named[t.Name]; ok {
				return ty
			}
		}
	case *ast.StarExpr:
		in := s.resolve(t.X)
		if in.k == "string" {
			return gctPstr
		}
		if in.k == "struct" {
			return &gctT{k: "ptr", elem: in}
		}
	case *ast.InterfaceType:
		if t.Methods == nil || len(t.Methods.List) == 0 {
			return gctDyn
		}
	case *ast.MapType:
		k, v := s.resolve(t.Key), s.resolve(t.Value)
		if (k.k == "string" || k.k == "Z") && v.k != "bad" {
			return &gctT{k: "map", key: k, elem: v}
		}
	case *ast.ArrayType:
		if t.Len == nil {
			el := s.resolve(t.Elt)
			if el.k != "bad" {
				return &gctT{k: "slice", elem: el}
			}
		}
	case *ast.SelectorExpr:
		if id, ok := t.X.(*ast.Ident); ok && s.imports[id.Name] == gctQ+"types" && t.Sel.Name == "FunctionType" {
			// checked against the declaration: a byte type
			tp := loadPkg("types")
			for _, f := range tp.files {
				for _, d := range f.Decls {
					if gd, ok := d.(*ast.GenDecl); ok && gd.Tok == token.TYPE {
						for _, sp := range gd.Specs {
							ts := sp.(*ast.TypeSpec)
							if ts.Name.Name == "FunctionType" {
								if bid, ok := ts.Type.(*ast.Ident); ok && bid.Name == "byte" {
									return gctZ
								}
							}
						}
					}
				}
			}
		}
	case *ast.FuncType:
		ft := &gctT{k: "func"}
		if t.Params != nil {
			for _, f := range t.Params.List {
				pt := s.resolve(f.Type)
				if pt.k == "bad" {
					return gctBad
				}
				n := len(f.Names)
				if n == 0 {
					n = 1
				}
				for i := 0; i < n; i++ {
					ft.params = append(ft.params, pt)
				}
			}
		}
		if t.Results != nil {
			if len(t.Results.List) != 1 || len(t.Results.List[0].Names) > 1 {
				return gctBad
			}
			ft.result = s.resolve(t.Results.List[0].Type)
			if ft.result.k == "bad" {
				return gctBad
			}
		}
		// func(*T) without result: the in/out reading
		if ft.result == nil && len(ft.params) == 1 && ft.params[0].k == "ptr" {
			return &gctT{k: "statefn", elem: ft.params[0].elem}
		}
		return ft
	}
	s.fail(e, "type %s is outside the scheme", s.src(e))
	return gctBad
}

func (s *gctState) zero(t *gctT) string {
	switch t.k {
	case "Z":
		return "0"
	case "bool":
		return "false"
	case "string":
		return "(@nil N)"
	case "pstr", "err", "map", "ptr":
		return "None"
	case "dyn":
		return "gct_dyn_nil"
	case "struct":
		st := s.structs[t.name]
		r := "(gct_mk_" + t.name
		for _, f := range st.fields {
			r += " " + s.zero(f.ty)
		}
		return r + ")"
	}
	s.fail(nil, "no zero value for %s", t.coq())
	return "BAD"
}

func gctDynName(ft *gctT) string {
	ps := []string{}
	for _, p := range ft.params {
		ps = append(ps, p.short())
	}
	r := "unit"
	if ft.result != nil {
		r = ft.result.short()
	}
	return "gct_dyn_func_" + strings.Join(ps, "_") + "_to_" + r
}

func (s *gctState) dynCon(n ast.Node, ft *gctT) string {
	if ft.k != "func" || ft.result == nil || len(ft.params) == 0 {
		s.fail(n, "dynamic type %s is outside the scheme", ft.coq())
		return "gct_dyn_other"
	}
	for _, p := range append(append([]*gctT{}, ft.params...), ft.result) {
		if p.short() == "X" {
			s.fail(n, "dynamic type %s is outside the scheme", ft.coq())
			return "gct_dyn_other"
		}
	}
	name := gctDynName(ft)
	if _, ok := s.dynTy[name]; !ok {
		s.dynTy[name] = ft
		s.dyns = append(s.dyns, name)
	}
	return name
}

// ------------------------------------------------------------------ environment

type gctEnv struct {
	vars []gctVar
}

func (c gctEnv) push(name string, ty *gctT) gctEnv {
	n := make([]gctVar, len(c.vars), len(c.vars)+1)
	copy(n, c.vars)
	return gctEnv{append(n, gctVar{name, ty})}
}

func (c gctEnv) lookup(name string) (*gctT, bool) {
	for i := len(c.vars) - 1; i >= 0; i-- {
		if c.vars[i].name == name {
			return c.vars[i].ty, true
		}
	}
	return nil, false
}

// ------------------------------------------------------------------ expressions

func (s *gctState) bind(pre *[]string, rhs string) string {
	t := s.tmp()
	*pre = append(*pre, fmt.Sprintf("do %s <- %s;", t, rhs))
	return t
}

func (s *gctState) strLit(e ast.Expr) (string, bool) {
	if bl, ok := e.(*ast.BasicLit); ok && bl.Kind == token.STRING {
		v, err := strconv.Unquote(bl.Value)
		if err == nil {
			return v, true
		}
	}
	return "", false
}

func (s *gctState) isNil(e ast.Expr) bool {
	id, ok := e.(*ast.Ident)
	return ok && id.Name == "nil"
}

func (s *gctState) pkgOf(e ast.Expr) (string, string, bool) {
	if sel, ok := e.(*ast.SelectorExpr); ok {
		if id, ok := sel.X.(*ast.Ident); ok {
			if path, ok := s.imports[id.Name]; ok {
				return path, sel.Sel.Name, true
			}
		}
	}
	return "", "", false
}

// a function of another package used as a value
func (s *gctState) funcValue(n ast.Node, path, name string) (string, *gctT) {
	switch {
	case path == gctQ+"function":
		ft, ok := s.fnVals[name]
		if !ok {
			s.fail(n, "function.%s is not a function of a known type", name)
			return "BAD", gctBad
		}
		if s.fnDone[name] {
			return "gct_function_" + name, ft
		}
		v := "function_" + name
		if _, ok := s.varTy[v]; !ok {
			s.varTy[v] = ft.coq()
			s.vars = append(s.vars, v)
		}
		return v, ft
	case path == "math" && name == "Abs":
		ft := &gctT{k: "func", params: []*gctT{gctF64}, result: gctF64}
		if _, ok := s.varTy["math_Abs"]; !ok {
			s.varTy["math_Abs"] = ft.coq()
			s.vars = append(s.vars, "math_Abs")
		}
		return "math_Abs", ft
	case path == "strings" && (name == "ToUpper" || name == "ToLower"):
		return "go_strings_" + name, &gctT{k: "func", params: []*gctT{gctString}, result: gctString}
	}
	s.fail(n, "function value %s.%s is outside the vocabulary", path, name)
	return "BAD", gctBad
}

func (s *gctState) coerce(n ast.Node, text string, have, want *gctT) string {
	if want == nil || have.k == "bad" || want.k == "bad" {
		return text
	}
	if want.k == "dyn" && have.k == "func" {
		return "(" + s.dynCon(n, have) + " " + text + ")"
	}
	if !have.same(want) {
		s.fail(n, "a value of type %s where %s is expected", have.coq(), want.coq())
	}
	return text
}

func (s *gctState) expr(e ast.Expr, c gctEnv, pre *[]string, want *gctT) (string, *gctT) {
	switch x := e.(type) {
	case *ast.ParenExpr:
		return s.expr(x.X, c, pre, want)
	case *ast.BasicLit:
		if v, ok := s.strLit(x); ok {
			return coqBytes(v), gctString
		}
		if x.Kind == token.INT {
			return x.Value, gctZ
		}
	case *ast.Ident:
		switch x.Name {
		case "nil":
			if want != nil {
				switch want.k {
				case "pstr", "err", "map", "ptr":
					return "None", want
				case "dyn":
					return "gct_dyn_nil", want
				}
			}
			s.fail(x, "nil without a known type")
			return "BAD", gctBad
		case "true", "false":
			return x.Name, gctBool
		}
		if ty, ok := c.lookup(x.Name); ok {
			if ty.k == "map" {
				s.fail(x, "a map value is copied (%s)", x.Name)
			}
			return "v_" + x.Name, ty
		}
		if s.pkgKey == "eval" {
			if _, ok := gctConsts["gct_"+x.Name]; ok {
				return "gct_" + x.Name, gctZ
			}
		}
	case *ast.SelectorExpr:
		if path, name, ok := s.pkgOf(x); ok {
			if path == gctQ+"types" {
				if _, ok := gctConsts["gct_types_"+name]; ok {
					return "gct_types_" + name, gctZ
				}
			}
			return s.funcValue(x, path, name)
		}
		return s.field(x, c, pre)
	case *ast.IndexExpr:
		m, mt := s.place(x.X, c, pre)
		if mt.k != "map" {
			break
		}
		k, kt := s.expr(x.Index, c, pre, mt.key)
		s.coerce(x.Index, k, kt, mt.key)
		return fmt.Sprintf("(fst (gct_mget %s %s %s %s))", gctEqb(mt.key), s.zero(mt.elem), m, k), mt.elem
	case *ast.StarExpr:
		p, pt := s.expr(x.X, c, pre, nil)
		if pt.k == "pstr" {
			return s.bind(pre, "gct_deref "+p), gctString
		}
	case *ast.UnaryExpr:
		switch x.Op {
		case token.NOT:
			a, at := s.expr(x.X, c, pre, gctBool)
			s.coerce(x.X, a, at, gctBool)
			return "(negb " + a + ")", gctBool
		case token.AND:
			if cl, ok := x.X.(*ast.CompositeLit); ok {
				v, vt := s.composite(cl, c, pre)
				if vt.k == "struct" {
					return "(Some " + v + ")", &gctT{k: "ptr", elem: vt}
				}
			}
			if id, ok := x.X.(*ast.Ident); ok {
				if ty, ok := c.lookup(id.Name); ok && ty.k == "string" {
					return "(Some v_" + id.Name + ")", gctPstr
				}
			}
		}
	case *ast.BinaryExpr:
		return s.binary(x, c, pre)
	case *ast.CompositeLit:
		return s.composite(x, c, pre)
	case *ast.CallExpr:
		return s.call(x, c, pre)
	case *ast.FuncLit:
		return s.funcLit(x, c)
	}
	s.fail(e, "expression %s is outside the scheme", s.src(e))
	return "BAD", gctBad
}

func gctEqb(k *gctT) string {
	if k.k == "string" {
		return "bytes_eqb"
	}
	return "Z.eqb"
}

// place: an expression that may be of map type (read in place, not copied): a field path
func (s *gctState) place(e ast.Expr, c gctEnv, pre *[]string) (string, *gctT) {
	if sel, ok := e.(*ast.SelectorExpr); ok {
		if _, _, isPkg := s.pkgOf(sel); !isPkg {
			return s.field(sel, c, pre)
		}
	}
	return s.expr(e, c, pre, nil)
}

func (s *gctState) field(x *ast.SelectorExpr, c gctEnv, pre *[]string) (string, *gctT) {
	b, bt := s.expr(x.X, c, pre, nil)
	if bt.k == "ptr" {
		b = s.bind(pre, "gct_deref "+b)
		bt = bt.elem
	}
	if bt.k == "struct" {
		for _, f := range s.structs[bt.name].fields {
			if f.name == x.Sel.Name {
				return "(gct_" + bt.name + "_" + f.name + " " + b + ")", f.ty
			}
		}
	}
	s.fail(x, "selector %s is outside the scheme", s.src(x))
	return "BAD", gctBad
}

func (s *gctState) binary(x *ast.BinaryExpr, c gctEnv, pre *[]string) (string, *gctT) {
	if x.Op == token.EQL || x.Op == token.NEQ {
		var other ast.Expr
		if s.isNil(x.Y) {
			other = x.X
		} else if s.isNil(x.X) {
			other = x.Y
		}
		if other != nil {
			a, at := s.place(other, c, pre)
			switch at.k {
			case "pstr", "err", "ptr", "map":
				r := "(gct_isnil " + a + ")"
				if x.Op == token.NEQ {
					r = "(negb " + r + ")"
				}
				return r, gctBool
			}
			s.fail(x, "comparison of a %s with nil", at.coq())
			return "BAD", gctBad
		}
	}
	if x.Op == token.LAND || x.Op == token.LOR {
		// the right operand is evaluated only when needed: it must be free of effects
		a, at := s.expr(x.X, c, pre, gctBool)
		var pre2 []string
		b, bt := s.expr(x.Y, c, &pre2, gctBool)
		if len(pre2) > 0 || at.k != "bool" || bt.k != "bool" {
			s.fail(x, "operands of %s", x.Op)
		}
		if x.Op == token.LAND {
			return "(" + a + " && " + b + ")", gctBool
		}
		return "(" + a + " || " + b + ")", gctBool
	}
	a, at := s.expr(x.X, c, pre, nil)
	b, bt := s.expr(x.Y, c, pre, at)
	if at.k == "bad" || bt.k == "bad" {
		return "BAD", gctBad
	}
	if !at.same(bt) {
		s.fail(x, "operands of different types")
		return "BAD", gctBad
	}
	switch {
	case at.k == "Z":
		switch x.Op {
		case token.EQL:
			return "(" + a + " =? " + b + ")", gctBool
		case token.NEQ:
			return "(negb (" + a + " =? " + b + "))", gctBool
		case token.LSS:
			return "(" + a + " <? " + b + ")", gctBool
		case token.GTR:
			return "(" + b + " <? " + a + ")", gctBool
		case token.LEQ:
			return "(" + a + " <=? " + b + ")", gctBool
		case token.GEQ:
			return "(" + b + " <=? " + a + ")", gctBool
		}
	case at.k == "string" && x.Op == token.ADD:
		return "(" + a + " ++ " + b + ")", gctString
	}
	s.fail(x, "operator %s on %s is outside the scheme", x.Op, at.coq())
	return "BAD", gctBad
}

func (s *gctState) composite(x *ast.CompositeLit, c gctEnv, pre *[]string) (string, *gctT) {
	ty := s.resolve(x.Type)
	switch ty.k {
	case "struct":
		st := s.structs[ty.name]
		vals := make([]string, len(st.fields))
		for i, f := range st.fields {
			vals[i] = s.zero(f.ty)
		}
		for i, el := range x.Elts {
			pos := i
			var ve ast.Expr = el
			if kv, ok := el.(*ast.KeyValueExpr); ok {
				pos = -1
				if id, ok := kv.Key.(*ast.Ident); ok {
					for j, f := range st.fields {
						if f.name == id.Name {
							pos = j
						}
					}
				}
				ve = kv.Value
			}
			if pos < 0 || pos >= len(st.fields) {
				s.fail(el, "field of the literal")
				continue
			}
			v, vt := s.litValue(ve, c, pre, st.fields[pos].ty)
			vals[pos] = s.coerce(ve, v, vt, st.fields[pos].ty)
		}
		return "(gct_mk_" + ty.name + " " + strings.Join(vals, " ") + ")", ty
	case "map":
		items := []string{}
		seen := map[string]bool{}
		for _, el := range x.Elts {
			kv, ok := el.(*ast.KeyValueExpr)
			if !ok {
				s.fail(el, "element of a map literal")
				continue
			}
			var kpre []string
			k, kt := s.expr(kv.Key, c, &kpre, ty.key)
			s.coerce(kv.Key, k, kt, ty.key)
			if len(kpre) > 0 {
				s.fail(kv.Key, "key of a map literal")
			}
			if seen[k] {
				s.fail(kv.Key, "key %s twice in a map literal", s.src(kv.Key))
			}
			seen[k] = true
			v, vt := s.litValue(kv.Value, c, pre, ty.elem)
			v = s.coerce(kv.Value, v, vt, ty.elem)
			items = append(items, "("+k+", "+v+")")
		}
		return "(Some [" + strings.Join(items, ";\n    ") + "])", ty
	}
	s.fail(x, "literal %s is outside the scheme", s.src(x.Type))
	return "BAD", gctBad
}

// the value of a literal's element: a nested literal (its type may be left out in Go) or an expression; a map that
// is not itself a literal would be a second reference to an existing map
func (s *gctState) litValue(e ast.Expr, c gctEnv, pre *[]string, want *gctT) (string, *gctT) {
	if cl, ok := e.(*ast.CompositeLit); ok {
		if cl.Type == nil {
			s.fail(e, "literal without type")
			return "BAD", gctBad
		}
		return s.composite(cl, c, pre)
	}
	if want.k == "map" && !s.isNil(e) {
		s.fail(e, "a map that is not a literal is stored (%s): a second reference to a map", s.src(e))
		return "BAD", gctBad
	}
	return s.expr(e, c, pre, want)
}

func (s *gctState) pureArg(e ast.Expr, c gctEnv) bool {
	if id, ok := e.(*ast.Ident); ok {
		_, ok := c.lookup(id.Name)
		return ok
	}
	if call, ok := e.(*ast.CallExpr); ok && len(call.Args) == 1 {
		if path, name, ok := s.pkgOf(call.Fun); ok && path == "reflect" && name == "TypeOf" {
			return s.pureArg(call.Args[0], c)
		}
	}
	return false
}

func (s *gctState) call(x *ast.CallExpr, c gctEnv, pre *[]string) (string, *gctT) {
	if id, ok := x.Fun.(*ast.Ident); ok {
		switch id.Name {
		case "len":
			if len(x.Args) == 1 {
				a, at := s.expr(x.Args[0], c, pre, nil)
				if at.k == "string" || at.k == "slice" {
					return "(Z.of_nat (length " + a + "))", gctZ
				}
			}
		case "int":
			if len(x.Args) == 1 {
				a, at := s.expr(x.Args[0], c, pre, nil)
				if at.k == "f64" {
					return "(f64_to_int " + a + ")", gctZ
				}
			}
		case "float64":
			if len(x.Args) == 1 {
				a, at := s.expr(x.Args[0], c, pre, nil)
				if at.k == "Z" {
					return "(int_to_f64 " + a + ")", gctF64
				}
			}
		}
		// a variable of function type
		if ty, ok := c.lookup(id.Name); ok && ty.k == "func" && len(ty.params) == len(x.Args) && ty.result != nil {
			args := []string{}
			for i, a := range x.Args {
				v, vt := s.expr(a, c, pre, ty.params[i])
				args = append(args, s.coerce(a, v, vt, ty.params[i]))
			}
			return s.bind(pre, "v_"+id.Name+" "+strings.Join(args, " ")), ty.result
		}
		// a function of the same package
		if g, ok := s.fns[s.pkgKey+"."+id.Name]; ok && g.recv == nil && len(g.params) == len(x.Args) && len(g.results) == 1 {
			args := []string{}
			for i, a := range x.Args {
				v, vt := s.expr(a, c, pre, g.params[i].ty)
				args = append(args, s.coerce(a, v, vt, g.params[i].ty))
			}
			callText := strings.TrimSpace(g.coq + " " + strings.Join(args, " "))
			if g.pureFun {
				return "(" + callText + ")", g.results[0]
			}
			return s.bind(pre, callText), g.results[0]
		}
	}
	if path, name, ok := s.pkgOf(x.Fun); ok {
		switch {
		case path == gctQ+"internal/strings" && name == "CheckName" && len(x.Args) == 1:
			a, at := s.expr(x.Args[0], c, pre, gctString)
			s.coerce(x.Args[0], a, at, gctString)
			return "(strings_CheckName " + a + ")", gctErr
		case path == gctQ+"qerrors" && name == "Propagate" && len(x.Args) == 2:
			if op, ok := s.strLit(x.Args[0]); ok {
				a, at := s.expr(x.Args[1], c, pre, gctErr)
				s.coerce(x.Args[1], a, at, gctErr)
				return "(Some (err_Propagate " + coqBytes(op) + " " + a + "))", gctErr
			}
		case path == gctQ+"qerrors" && name == "New" && len(x.Args) >= 2:
			op, ok1 := s.strLit(x.Args[0])
			f, ok2 := s.strLit(x.Args[1])
			if ok1 && ok2 {
				for _, a := range x.Args[2:] {
					if !s.pureArg(a, c) {
						s.fail(a, "argument of qerrors.New")
					}
				}
				return "(Some (err_New " + coqBytes(op) + " " + coqBytes(f) + "))", gctErr
			}
		case path == "strconv" && name == "Itoa" && len(x.Args) == 1:
			a, at := s.expr(x.Args[0], c, pre, gctZ)
			s.coerce(x.Args[0], a, at, gctZ)
			return "(strconv_Itoa " + a + ")", gctString
		case path == "strconv" && name == "FormatBool" && len(x.Args) == 1:
			a, at := s.expr(x.Args[0], c, pre, gctBool)
			s.coerce(x.Args[0], a, at, gctBool)
			return "(strconv_FormatBool " + a + ")", gctString
		case path == "fmt" && name == "Sprintf" && len(x.Args) == 2:
			if f, ok := s.strLit(x.Args[0]); ok && f == "%f" {
				a, at := s.expr(x.Args[1], c, pre, gctF64)
				s.coerce(x.Args[1], a, at, gctF64)
				return "(fmt_Sprintf_f " + a + ")", gctString
			}
		}
	}
	s.fail(x, "call %s is outside the scheme", s.src(x))
	return "BAD", gctBad
}

// func(params) result { body } as a Coq fun; func(c *T) { stores into c } as gct_T -> outcome gct_T
func (s *gctState) funcLit(x *ast.FuncLit, c gctEnv) (string, *gctT) {
	ft := s.resolve(x.Type)
	saveRecv, saveMut, saveRes, saveState := s.curRecv, s.curMut, s.curRes, s.curState
	defer func() { s.curRecv, s.curMut, s.curRes, s.curState = saveRecv, saveMut, saveRes, saveState }()
	switch ft.k {
	case "func":
		c2 := c
		binders := ""
		i := 0
		for _, f := range x.Type.Params.List {
			for _, n := range f.Names {
				c2 = c2.push(n.Name, ft.params[i])
				binders += fmt.Sprintf(" (v_%s : %s)", n.Name, ft.params[i].coq())
				i++
			}
		}
		if i != len(ft.params) || ft.result == nil {
			break
		}
		s.curRecv, s.curMut, s.curRes, s.curState = nil, false, []*gctT{ft.result}, nil
		body := s.stmts(x.Body.List, c2, func(gctEnv) string {
			s.fail(x, "a function literal that does not end in return")
			return "Panic"
		})
		return "(fun" + binders + " =>\n" + gapIndent(body) + ")", ft
	case "statefn":
		if len(x.Type.Params.List) == 1 && len(x.Type.Params.List[0].Names) == 1 {
			n := x.Type.Params.List[0].Names[0].Name
			sv := gctVar{n, ft.elem}
			c2 := c.push(n, ft.elem)
			s.curRecv, s.curMut, s.curRes, s.curState = nil, false, nil, &sv
			body := s.stmts(x.Body.List, c2, func(gctEnv) string { return "Ok v_" + n })
			return fmt.Sprintf("(fun (v_%s : %s) =>\n%s)", n, ft.elem.coq(), gapIndent(body)), ft
		}
	}
	s.fail(x, "function literal %s is outside the scheme", s.src(x.Type))
	return "BAD", gctBad
}

// ------------------------------------------------------------------ statements

func gctJoin(pre []string, last string) string {
	if len(pre) == 0 {
		return last
	}
	return strings.Join(pre, "\n") + "\n" + last
}

type gctStep struct {
	field string // field name, or
	key   string // the Coq text of a map key
	isKey bool
}

// store: path = value, the functional update described in the scheme
func (s *gctState) store(n ast.Node, lhs ast.Expr, rhs string, rt *gctT, c gctEnv, pre *[]string) {
	// decompose
	var steps []ast.Expr
	cur := lhs
	for {
		steps = append([]ast.Expr{cur}, steps...)
		switch t := cur.(type) {
		case *ast.SelectorExpr:
			cur = t.X
			continue
		case *ast.IndexExpr:
			cur = t.X
			continue
		}
		break
	}
	root, ok := steps[0].(*ast.Ident)
	if !ok {
		s.fail(n, "store into %s", s.src(lhs))
		return
	}
	rty, ok := c.lookup(root.Name)
	if !ok {
		s.fail(n, "store into %s", s.src(lhs))
		return
	}
	isRecv := s.curRecv != nil && s.curRecv.name == root.Name
	isState := s.curState != nil && s.curState.name == root.Name
	isLocalStruct := rty.k == "struct"
	if !isRecv && !isState && !isLocalStruct {
		s.fail(n, "store through %s, which is neither the receiver nor a local struct value", root.Name)
		return
	}
	// read every prefix into a temporary
	type lvl struct {
		val  string
		ty   *gctT
		step gctStep
	}
	var lv []lvl
	val, ty := "v_"+root.Name, rty
	if ty.k == "ptr" {
		val = s.bind(pre, "gct_deref "+val)
		ty = ty.elem
	}
	lv = append(lv, lvl{val: val, ty: ty})
	for _, st := range steps[1:] {
		prev := lv[len(lv)-1]
		switch t := st.(type) {
		case *ast.SelectorExpr:
			if prev.ty.k != "struct" {
				s.fail(n, "store into %s", s.src(lhs))
				return
			}
			var fty *gctT
			for _, f := range s.structs[prev.ty.name].fields {
				if f.name == t.Sel.Name {
					fty = f.ty
				}
			}
			if fty == nil {
				s.fail(n, "store into %s", s.src(lhs))
				return
			}
			lv[len(lv)-1].step = gctStep{field: t.Sel.Name}
			tmp := s.tmp()
			*pre = append(*pre, fmt.Sprintf("let %s := gct_%s_%s %s in", tmp, prev.ty.name, t.Sel.Name, prev.val))
			lv = append(lv, lvl{val: tmp, ty: fty})
		case *ast.IndexExpr:
			if prev.ty.k != "map" {
				s.fail(n, "store into %s", s.src(lhs))
				return
			}
			k, kt := s.expr(t.Index, c, pre, prev.ty.key)
			s.coerce(t.Index, k, kt, prev.ty.key)
			lv[len(lv)-1].step = gctStep{key: k, isKey: true}
			if st == steps[len(steps)-1] {
				lv = append(lv, lvl{ty: prev.ty.elem})
			} else {
				tmp := s.tmp()
				*pre = append(*pre, fmt.Sprintf("let %s := fst (gct_mget %s %s %s %s) in", tmp, gctEqb(prev.ty.key), s.zero(prev.ty.elem), prev.val, k))
				lv = append(lv, lvl{val: tmp, ty: prev.ty.elem})
			}
		}
	}
	last := lv[len(lv)-1]
	if last.ty.k == "map" && rhs != "None" {
		s.fail(n, "a map is stored: a second reference to a map")
	}
	newv := s.coerce(n, rhs, rt, last.ty)
	// write back
	for i := len(lv) - 2; i >= 0; i-- {
		l := lv[i]
		if l.step.isKey {
			newv = s.bind(pre, fmt.Sprintf("gct_mset %s %s %s %s", gctEqb(l.ty.key), l.val, l.step.key, newv))
		} else {
			st := s.structs[l.ty.name]
			parts := []string{}
			for _, f := range st.fields {
				if f.name == l.step.field {
					parts = append(parts, newv)
				} else {
					parts = append(parts, "(gct_"+l.ty.name+"_"+f.name+" "+l.val+")")
				}
			}
			tmp := s.tmp()
			*pre = append(*pre, fmt.Sprintf("let %s := gct_mk_%s %s in", tmp, l.ty.name, strings.Join(parts, " ")))
			newv = tmp
		}
	}
	if rty.k == "ptr" {
		newv = "(Some " + newv + ")"
	}
	*pre = append(*pre, fmt.Sprintf("let v_%s := %s in", root.Name, newv))
	if isRecv {
		s.curMut = true
	}
}

func (s *gctState) assignVar(n ast.Node, tok token.Token, lhs ast.Expr, text string, ty *gctT, c *gctEnv, pre *[]string) {
	id, ok := lhs.(*ast.Ident)
	if !ok {
		if tok == token.ASSIGN {
			s.store(n, lhs, text, ty, *c, pre)
			return
		}
		s.fail(n, "assignment to %s", s.src(lhs))
		return
	}
	if id.Name == "_" {
		return
	}
	if tok == token.DEFINE {
		if ty.k == "map" {
			s.fail(n, "a map value is copied into %s", id.Name)
		}
		*c = c.push(id.Name, ty)
	} else {
		old, ok := c.lookup(id.Name)
		if !ok {
			s.fail(n, "assignment to %s", id.Name)
			return
		}
		text = s.coerce(n, text, ty, old)
	}
	*pre = append(*pre, fmt.Sprintf("let v_%s := %s in", id.Name, text))
}

// simple: a statement without control flow; answers the lines to put before the continuation
func (s *gctState) simple(st ast.Stmt, c *gctEnv) []string {
	var pre []string
	switch x := st.(type) {
	case *ast.DeclStmt:
		gd, ok := x.Decl.(*ast.GenDecl)
		if ok && gd.Tok == token.VAR {
			for _, sp := range gd.Specs {
				vs := sp.(*ast.ValueSpec)
				if vs.Type == nil || len(vs.Values) != 0 {
					s.fail(st, "var declaration")
					continue
				}
				ty := s.resolve(vs.Type)
				for _, n := range vs.Names {
					*c = c.push(n.Name, ty)
					pre = append(pre, fmt.Sprintf("let v_%s := %s in", n.Name, s.zero(ty)))
				}
			}
			return pre
		}
	case *ast.AssignStmt:
		if x.Tok != token.DEFINE && x.Tok != token.ASSIGN {
			break
		}
		if len(x.Lhs) == 2 && len(x.Rhs) == 1 {
			// v, ok = m[k]
			if ix, ok := x.Rhs[0].(*ast.IndexExpr); ok {
				m, mt := s.place(ix.X, *c, &pre)
				if mt.k == "map" {
					k, kt := s.expr(ix.Index, *c, &pre, mt.key)
					s.coerce(ix.Index, k, kt, mt.key)
					t1, t2 := s.tmp(), s.tmp()
					pre = append(pre, fmt.Sprintf("let '(%s, %s) := gct_mget %s %s %s %s in", t1, t2, gctEqb(mt.key), s.zero(mt.elem), m, k))
					s.assignVar(st, x.Tok, x.Lhs[0], t1, mt.elem, c, &pre)
					s.assignVar(st, x.Tok, x.Lhs[1], t2, gctBool, c, &pre)
					return pre
				}
			}
			break
		}
		if len(x.Lhs) == len(x.Rhs) {
			// all right hand sides first
			vals := make([]string, len(x.Rhs))
			tys := make([]*gctT, len(x.Rhs))
			for i, r := range x.Rhs {
				var want *gctT
				if id, ok := x.Lhs[i].(*ast.Ident); ok && x.Tok == token.ASSIGN {
					want, _ = c.lookup(id.Name)
				}
				vals[i], tys[i] = s.expr(r, *c, &pre, want)
				if len(x.Rhs) > 1 {
					t := s.tmp()
					pre = append(pre, fmt.Sprintf("let %s := %s in", t, vals[i]))
					vals[i] = t
				}
			}
			for i := range x.Lhs {
				if tys[i].k == "bad" {
					continue
				}
				s.assignVar(st, x.Tok, x.Lhs[i], vals[i], tys[i], c, &pre)
			}
			return pre
		}
	case *ast.ExprStmt:
		call, ok := x.X.(*ast.CallExpr)
		if !ok {
			break
		}
		// recv.method(args) of a storing method on the receiver of the current function
		if sel, ok := call.Fun.(*ast.SelectorExpr); ok {
			if id, ok := sel.X.(*ast.Ident); ok && s.curRecv != nil && id.Name == s.curRecv.name {
				g, ok := s.fns[s.pkgKey+"."+s.curRecv.ty.elem.name+"."+sel.Sel.Name]
				if ok && g.mutates && len(g.results) == 0 && len(g.params) == len(call.Args) {
					args := []string{"v_" + id.Name}
					for i, a := range call.Args {
						v, vt := s.expr(a, *c, &pre, g.params[i].ty)
						args = append(args, s.coerce(a, v, vt, g.params[i].ty))
					}
					pre = append(pre, fmt.Sprintf("do v_%s <- %s %s;", id.Name, g.coq, strings.Join(args, " ")))
					s.curMut = true
					return pre
				}
			}
		}
		// f(&v): a state function applied to a local struct
		if id, ok := call.Fun.(*ast.Ident); ok && len(call.Args) == 1 {
			if fty, ok := c.lookup(id.Name); ok && fty.k == "statefn" {
				if u, ok := call.Args[0].(*ast.UnaryExpr); ok && u.Op == token.AND {
					if vid, ok := u.X.(*ast.Ident); ok {
						if vty, ok := c.lookup(vid.Name); ok && vty.same(fty.elem) {
							pre = append(pre, fmt.Sprintf("do v_%s <- v_%s v_%s;", vid.Name, id.Name, vid.Name))
							return pre
						}
					}
				}
			}
		}
	}
	s.fail(st, "statement %s is outside the scheme", strings.SplitN(s.src(st), "\n", 2)[0])
	return pre
}

func (s *gctState) ret(x *ast.ReturnStmt, c gctEnv) string {
	var pre []string
	parts := []string{}
	if s.curRecv != nil && s.curMut {
		parts = append(parts, "v_"+s.curRecv.name)
	}
	if len(x.Results) != len(s.curRes) {
		s.fail(x, "return with %d values", len(x.Results))
		return "Panic"
	}
	for i, r := range x.Results {
		v, vt := s.expr(r, c, &pre, s.curRes[i])
		parts = append(parts, s.coerce(r, v, vt, s.curRes[i]))
	}
	return gctJoin(pre, "Ok "+gapTuple(parts))
}

func (s *gctState) stmts(list []ast.Stmt, c gctEnv, k func(gctEnv) string) string {
	if len(list) == 0 {
		return k(c)
	}
	st, rest := list[0], list[1:]
	cont := func(c2 gctEnv) string { return s.stmts(rest, c2, k) }
	switch x := st.(type) {
	case *ast.ReturnStmt:
		if len(rest) > 0 {
			s.fail(x, "statements after return")
		}
		return s.ret(x, c)
	case *ast.IfStmt:
		return s.ifStmt(x, c, cont)
	case *ast.TypeSwitchStmt:
		return s.typeSwitch(x, c, cont)
	case *ast.SwitchStmt:
		return s.valueSwitch(x, c, cont)
	case *ast.RangeStmt:
		return s.rangeStmt(x, c, cont)
	case *ast.BlockStmt:
		s.fail(x, "nested block")
		return "Panic"
	}
	c2 := c
	pre := s.simple(st, &c2)
	return gctJoin(pre, cont(c2))
}

func (s *gctState) ifStmt(x *ast.IfStmt, c gctEnv, cont func(gctEnv) string) string {
	c2 := c
	var pre []string
	if x.Init != nil {
		pre = s.simple(x.Init, &c2)
	}
	cond, ct := s.expr(x.Cond, c2, &pre, gctBool)
	if ct.k != "bool" && ct.k != "bad" {
		s.fail(x.Cond, "condition")
	}
	// variables declared inside a branch or in the init statement do not reach the continuation (shadowing by let
	// keeps the values of the assigned outer ones: the environment of types is the outer one extended by nothing new)
	outer := func(ci gctEnv) gctEnv { return gctEnv{ci.vars[:len(c.vars)]} }
	_ = outer
	thenT := s.stmts(x.Body.List, c2, func(ci gctEnv) string { return cont(s.scopeOut(x, c, ci)) })
	var elseT string
	switch e := x.Else.(type) {
	case nil:
		elseT = cont(s.scopeOut(x, c, c2))
	case *ast.BlockStmt:
		elseT = s.stmts(e.List, c2, func(ci gctEnv) string { return cont(s.scopeOut(x, c, ci)) })
	case *ast.IfStmt:
		elseT = s.ifStmt(e, c2, func(ci gctEnv) string { return cont(s.scopeOut(x, c, ci)) })
	}
	return gctJoin(pre, "if "+cond+" then\n"+gapIndent(thenT)+"\nelse\n"+gapIndent(elseT))
}

// scopeOut: leaving a block; a name declared inside that hides an outer one of the same name would make the let
// shadowing wrong for the continuation: rejected
func (s *gctState) scopeOut(n ast.Node, outer, inner gctEnv) gctEnv {
	for _, v := range inner.vars[len(outer.vars):] {
		if _, ok := outer.lookup(v.name); ok {
			s.fail(n, "%s is declared again in an inner block", v.name)
		}
	}
	return outer
}

func (s *gctState) typeSwitch(x *ast.TypeSwitchStmt, c gctEnv, cont func(gctEnv) string) string {
	es, ok := x.Assign.(*ast.ExprStmt)
	if x.Init != nil || !ok {
		s.fail(x, "type switch header (a binding or an init statement)")
		return "Panic"
	}
	ta, ok := es.X.(*ast.TypeAssertExpr)
	if !ok {
		s.fail(x, "type switch header")
		return "Panic"
	}
	id, ok := ta.X.(*ast.Ident)
	var sty *gctT
	if ok {
		sty, ok = c.lookup(id.Name)
	}
	if !ok || sty.k != "dyn" {
		s.fail(x, "type switch on %s", s.src(ta.X))
		return "Panic"
	}
	var b strings.Builder
	fmt.Fprintf(&b, "match v_%s with\n", id.Name)
	seen := map[string]bool{}
	defaultText := ""
	hasDefault := false
	for _, cl := range x.Body.List {
		cc := cl.(*ast.CaseClause)
		body := s.stmts(cc.Body, c, func(ci gctEnv) string { return cont(s.scopeOut(cc, c, ci)) })
		if cc.List == nil {
			hasDefault = true
			defaultText = body
			continue
		}
		pats := []string{}
		for _, te := range cc.List {
			if s.isNil(te) {
				pats = append(pats, "gct_dyn_nil")
				continue
			}
			ty := s.resolve(te)
			if ty.k == "bad" {
				continue
			}
			con := s.dynCon(te, ty)
			if seen[con] {
				s.fail(te, "type %s twice", s.src(te))
			}
			seen[con] = true
			pats = append(pats, con+" _")
		}
		fmt.Fprintf(&b, "| %s =>\n%s\n", strings.Join(pats, " | "), gapIndent(body))
	}
	if !hasDefault {
		defaultText = cont(c)
	}
	fmt.Fprintf(&b, "| _ =>\n%s\nend", gapIndent(defaultText))
	return b.String()
}

func (s *gctState) valueSwitch(x *ast.SwitchStmt, c gctEnv, cont func(gctEnv) string) string {
	if x.Init != nil || x.Tag == nil {
		s.fail(x, "switch header")
		return "Panic"
	}
	var pre []string
	tag, tt := s.expr(x.Tag, c, &pre, nil)
	if tt.k != "Z" {
		s.fail(x, "switch on a %s", tt.coq())
		return "Panic"
	}
	type arm struct{ cond, body string }
	var arms []arm
	defaultText := ""
	hasDefault := false
	for _, cl := range x.Body.List {
		cc := cl.(*ast.CaseClause)
		for _, st := range cc.Body {
			if bs, ok := st.(*ast.BranchStmt); ok {
				s.fail(bs, "%s in a switch", bs.Tok)
			}
		}
		body := s.stmts(cc.Body, c, func(ci gctEnv) string { return cont(s.scopeOut(cc, c, ci)) })
		if cc.List == nil {
			hasDefault = true
			defaultText = body
			continue
		}
		conds := []string{}
		for _, e := range cc.List {
			var cp []string
			v, vt := s.expr(e, c, &cp, gctZ)
			if len(cp) > 0 || vt.k != "Z" {
				s.fail(e, "case expression")
			}
			conds = append(conds, "("+tag+" =? "+v+")")
		}
		arms = append(arms, arm{strings.Join(conds, " || "), body})
	}
	if !hasDefault {
		defaultText = cont(c)
	}
	text := defaultText
	for i := len(arms) - 1; i >= 0; i-- {
		text = "if " + arms[i].cond + " then\n" + gapIndent(arms[i].body) + "\nelse\n" + gapIndent(text)
	}
	return gctJoin(pre, text)
}

// for _, f := range ff { f(&v) }: the state functions applied in order
func (s *gctState) rangeStmt(x *ast.RangeStmt, c gctEnv, cont func(gctEnv) string) string {
	kid, kok := x.Key.(*ast.Ident)
	vid, vok := x.Value.(*ast.Ident)
	if x.Tok != token.DEFINE || !kok || kid.Name != "_" || !vok || len(x.Body.List) != 1 {
		s.fail(x, "range loop is outside the scheme")
		return "Panic"
	}
	var pre []string
	l, lt := s.expr(x.X, c, &pre, nil)
	if lt.k != "slice" || lt.elem.k != "statefn" {
		s.fail(x, "range over %s", lt.coq())
		return "Panic"
	}
	c2 := c.push(vid.Name, lt.elem)
	body := s.simple(x.Body.List[0], &c2)
	want := ""
	var target string
	if es, ok := x.Body.List[0].(*ast.ExprStmt); ok {
		if call, ok := es.X.(*ast.CallExpr); ok && len(call.Args) == 1 {
			if u, ok := call.Args[0].(*ast.UnaryExpr); ok {
				if t, ok := u.X.(*ast.Ident); ok {
					target = t.Name
					want = fmt.Sprintf("do v_%s <- v_%s v_%s;", target, vid.Name, target)
				}
			}
		}
	}
	if len(body) != 1 || body[0] != want || target == "" {
		s.fail(x, "body of the range loop is outside the scheme")
		return "Panic"
	}
	pre = append(pre, fmt.Sprintf("do v_%s <- gct_apply_all %s v_%s;", target, l, target))
	return gctJoin(pre, cont(c))
}

// ------------------------------------------------------------------ declarations

var gctConsts map[string]string
var gctConstOrder []string

// const blocks with iota of a named byte type
func gctLoadConsts(p *pkgInfo, prefix string, typeNames map[string]bool) {
	names := []string{}
	for n := range p.files {
		names = append(names, n)
	}
	sortStrings(names)
	for _, fnm := range names {
		for _, d := range p.files[fnm].Decls {
			gd, ok := d.(*ast.GenDecl)
			if !ok || gd.Tok != token.CONST {
				continue
			}
			active := false
			for i, sp := range gd.Specs {
				vs := sp.(*ast.ValueSpec)
				if len(vs.Values) > 0 {
					active = false
					if tid, ok := vs.Type.(*ast.Ident); ok && typeNames[tid.Name] && len(vs.Values) == 1 {
						if iid, ok := vs.Values[0].(*ast.Ident); ok && iid.Name == "iota" {
							active = true
						}
					}
				}
				if active && len(vs.Names) == 1 {
					name := prefix + vs.Names[0].Name
					gctConsts[name] = strconv.Itoa(i)
					gctConstOrder = append(gctConstOrder, name)
				}
			}
		}
	}
}

func (s *gctState) loadTypes() {
	// two passes: names first (structs by name, byte types), then fields
	var specs []*ast.TypeSpec
	names := []string{}
	for n := range s.p.files {
		names = append(names, n)
	}
	sortStrings(names)
	for _, fnm := range names {
		for _, d := range s.p.files[fnm].Decls {
			if gd, ok := d.(*ast.GenDecl); ok && gd.Tok == token.TYPE {
				for _, sp := range gd.Specs {
					specs = append(specs, sp.(*ast.TypeSpec))
				}
			}
		}
	}
	for _, ts := range specs {
		switch t := ts.Type.(type) {
		case *ast.StructType:
			s.named[ts.Name.Name] = &gctT{k: "struct", name: ts.Name.Name}
		case *ast.Ident:
			if t.Name == "byte" {
				s.named[ts.Name.Name] = gctZ
			}
		}
	}
	// maps and function types may refer to the structs
	for pass := 0; pass < 2; pass++ {
		for _, ts := range specs {
			switch ts.Type.(type) {
			case *ast.MapType, *ast.FuncType:
				if _, ok := s.named[ts.Name.Name]; !ok {
					save := problems
					ty := s.resolve(ts.Type)
					if ty.k != "bad" {
						s.named[ts.Name.Name] = ty
					} else if pass == 0 {
						problems = save
						s.failed = false
					}
				}
			}
		}
	}
	for _, ts := range specs {
		st, ok := ts.Type.(*ast.StructType)
		if !ok {
			continue
		}
		gs := &gctStruct{name: ts.Name.Name}
		for _, f := range st.Fields.List {
			ty := s.resolve(f.Type)
			for _, n := range f.Names {
				gs.fields = append(gs.fields, gctField{n.Name, ty})
			}
			if len(f.Names) == 0 {
				s.fail(f, "embedded field")
			}
		}
		gs.src = "type " + ts.Name.Name + " " + s.src(ts.Type)
		s.structs[ts.Name.Name] = gs
		s.sorder = append(s.sorder, ts.Name.Name)
	}
}

func gctStructDeps(t *gctT, out map[string]bool) {
	if t == nil {
		return
	}
	if t.k == "struct" {
		out[t.name] = true
	}
	gctStructDeps(t.key, out)
	gctStructDeps(t.elem, out)
	gctStructDeps(t.result, out)
	for _, p := range t.params {
		gctStructDeps(p, out)
	}
}

// structs after the structs their fields mention
func (s *gctState) structOrder() []string {
	var res []string
	done := map[string]bool{}
	for len(res) < len(s.sorder) {
		progress := false
		for _, n := range s.sorder {
			if done[n] {
				continue
			}
			deps := map[string]bool{}
			for _, f := range s.structs[n].fields {
				gctStructDeps(f.ty, deps)
			}
			ready := true
			for d := range deps {
				if d != n && !done[d] {
					ready = false
				}
			}
			if ready {
				done[n] = true
				res = append(res, n)
				progress = true
			}
		}
		if !progress {
			s.fail(nil, "struct types refer to each other")
			break
		}
	}
	return res
}

func gctMutates(fd *ast.FuncDecl, recv string, mutating map[string]bool) bool {
	found := false
	ast.Inspect(fd.Body, func(n ast.Node) bool {
		switch t := n.(type) {
		case *ast.AssignStmt:
			for _, l := range t.Lhs {
				if _, ok := l.(*ast.Ident); !ok && gapRoot(l) == recv {
					found = true
				}
			}
		case *ast.CallExpr:
			if sel, ok := t.Fun.(*ast.SelectorExpr); ok {
				if id, ok := sel.X.(*ast.Ident); ok && id.Name == recv && mutating[sel.Sel.Name] {
					found = true
				}
			}
		}
		return true
	})
	return found
}

func (s *gctState) signature(pkg, key string) *gctFn {
	fd := s.p.funcs[key]
	if fd == nil {
		s.fail(nil, "function %s not found", key)
		return nil
	}
	g := &gctFn{pkg: pkg, key: key, fd: fd}
	if pkg == "eval" {
		g.coq = "gct_" + strings.ReplaceAll(key, ".", "_")
	} else {
		g.coq = "gct_" + pkg + "_" + strings.ReplaceAll(key, ".", "_")
	}
	if fd.Recv != nil {
		f := fd.Recv.List[0]
		if len(f.Names) != 1 {
			s.fail(fd, "receiver without name")
			return nil
		}
		g.recv = &gctVar{f.Names[0].Name, s.resolve(f.Type)}
	}
	for _, f := range fd.Type.Params.List {
		ty := s.resolve(f.Type)
		for _, n := range f.Names {
			g.params = append(g.params, gctVar{n.Name, ty})
		}
		if len(f.Names) == 0 {
			s.fail(fd, "parameter without name")
		}
	}
	if fd.Type.Results != nil {
		for _, f := range fd.Type.Results.List {
			ty := s.resolve(f.Type)
			if len(f.Names) > 0 {
				s.fail(fd, "named results")
			}
			g.results = append(g.results, ty)
		}
	}
	if len(fd.Body.List) == 1 && len(g.results) == 1 && (g.results[0].k == "func" || g.results[0].k == "statefn") {
		if r, ok := fd.Body.List[0].(*ast.ReturnStmt); ok && len(r.Results) == 1 {
			if _, ok := r.Results[0].(*ast.FuncLit); ok {
				g.pureFun = true
			}
		}
	}
	if len(g.results) == 1 && g.recv == nil {
		ft := &gctT{k: "func", result: g.results[0]}
		for _, p := range g.params {
			ft.params = append(ft.params, p.ty)
		}
		g.funcType = ft
	}
	return g
}

func (s *gctState) translate(g *gctFn) string {
	s.curFn = g.key
	s.ntmp = 0
	c := gctEnv{}
	binders := ""
	if g.recv != nil {
		c = c.push(g.recv.name, g.recv.ty)
		binders += fmt.Sprintf(" (v_%s : %s)", g.recv.name, g.recv.ty.coq())
	}
	for _, p := range g.params {
		c = c.push(p.name, p.ty)
		binders += fmt.Sprintf(" (v_%s : %s)", p.name, p.ty.coq())
	}
	s.curRecv, s.curMut, s.curRes, s.curState = nil, false, g.results, nil
	if g.recv != nil && g.recv.ty.k == "ptr" {
		s.curRecv = g.recv
		s.curMut = g.mutates
	}
	resTypes := []string{}
	if s.curMut {
		resTypes = append(resTypes, g.recv.ty.coq())
	}
	for _, r := range g.results {
		resTypes = append(resTypes, r.coq())
	}
	src := "(* " + g.pkg + "\n" + gapCommentSafe(gapSource(s.p, g.fd)) + " *)\n"
	if g.pureFun {
		r := g.fd.Body.List[0].(*ast.ReturnStmt)
		body, _ := s.funcLit(r.Results[0].(*ast.FuncLit), c)
		return fmt.Sprintf("%sDefinition %s%s : %s :=\n%s.\n", src, g.coq, binders, g.results[0].coq(), gapIndent(body))
	}
	body := s.stmts(g.fd.Body.List, c, func(gctEnv) string {
		if len(g.results) > 0 {
			s.fail(g.fd, "the function does not end in return")
			return "Panic"
		}
		if s.curMut {
			return "Ok v_" + g.recv.name
		}
		return "Ok tt"
	})
	return fmt.Sprintf("%sDefinition %s%s : outcome %s :=\n%s.\n", src, g.coq, binders, gapTypeTuple(resTypes), gapIndent(body))
}

const gctPreamble = `(* GENERATED by tools/qf2coq (evalctx.go) from config/eval/context.go, config/eval/config.go and function/*.go of
   tobgu/qframe — do not edit.  The evaluation context (the tables of functions by type and argument count,
   NewDefaultCtx, Context.GetFunc, Context.setFunc, Context.SetFunc, NewConfig, EvalContext) and the functions of the
   function package that are not arithmetic.  One Record gct_<T> per struct, Inductive gct_dyn for interface{} (nil,
   one constructor per function type that SetFunc's type switch names or that a stored function has, other), one
   definition gct_<Receiver>_<function> per Go function of config/eval and gct_function_<name> per function of the
   function package; the scheme is described at the top of tools/qf2coq/evalctx.go.
   F64 = float64 (abstract), OTHER = a value of an unlisted dynamic type, E = error values.  A map is option (list
   (K * V)) (None = the nil map), *T is option gct_T, a function value func(A) B is A -> outcome B, a method that
   stores through its pointer receiver answers the new receiver first.  The section variables are the vocabulary:
   strings_CheckName, err_New, err_Propagate, strconv_Itoa, strconv_FormatBool, fmt_Sprintf_f, f64_to_int,
   int_to_f64, go_strings_ToUpper / ToLower and one variable function_<X> / math_Abs per stored function that is not
   translated here.  Every function answers outcome T (Panic = Go panic); there is no fuel. *)
From QF Require Import Base.Prelude.
Local Open Scope Z_scope.

(* *p, x == nil *)
Definition gct_deref {T : Type} (p : option T) : outcome T :=
  match p with Some v => Ok v | None => Panic end.
Definition gct_isnil {T : Type} (p : option T) : bool := match p with None => true | Some _ => false end.
(* map[K]V: None the nil map; v, ok := m[k]; m[k] = v (Panic on the nil map; an existing key keeps its place) *)
Definition gct_map (K V : Type) : Type := option (list (K * V)).
Fixpoint gct_assoc {K V : Type} (eqb : K -> K -> bool) (l : list (K * V)) (k : K) : option V :=
  match l with
  | [] => None
  | (k', v) :: r => if eqb k' k then Some v else gct_assoc eqb r k
  end.
Definition gct_mget {K V : Type} (eqb : K -> K -> bool) (zero : V) (m : gct_map K V) (k : K) : V * bool :=
  match m with
  | None => (zero, false)
  | Some l => match gct_assoc eqb l k with Some v => (v, true) | None => (zero, false) end
  end.
Fixpoint gct_assoc_set {K V : Type} (eqb : K -> K -> bool) (l : list (K * V)) (k : K) (v : V) : list (K * V) :=
  match l with
  | [] => [(k, v)]
  | (k', v') :: r => if eqb k' k then (k', v) :: r else (k', v') :: gct_assoc_set eqb r k v
  end.
Definition gct_mset {K V : Type} (eqb : K -> K -> bool) (m : gct_map K V) (k : K) (v : V) : outcome (gct_map K V) :=
  match m with
  | None => Panic
  | Some l => Ok (Some (gct_assoc_set eqb l k v))
  end.
(* for _, f := range ff { f(&v) } *)
Fixpoint gct_apply_all {T : Type} (ff : list (T -> outcome T)) (v : T) : outcome T :=
  match ff with
  | [] => Ok v
  | f :: r => do v' <- f v; gct_apply_all r v'
  end.

`

const gctVocabulary = `Section GenEvalCtx.
Context {F64 OTHER E : Type}.
Variable strings_CheckName : bytes -> option E.              (* qfstrings.CheckName(name) *)
Variable err_New : bytes -> bytes -> E.                      (* qerrors.New(operation, format, ...) *)
Variable err_Propagate : bytes -> option E -> E.             (* qerrors.Propagate(operation, err) *)
Variable strconv_Itoa : Z -> bytes.                          (* strconv.Itoa *)
Variable strconv_FormatBool : bool -> bytes.                 (* strconv.FormatBool *)
Variable fmt_Sprintf_f : F64 -> bytes.                       (* fmt.Sprintf("%f", x) *)
Variable f64_to_int : F64 -> Z.                              (* int(x) *)
Variable int_to_f64 : Z -> F64.                              (* float64(x) *)
Variable go_strings_ToUpper go_strings_ToLower : bytes -> outcome bytes.  (* strings.ToUpper, strings.ToLower as values *)
`

// the functions of config/eval in dependency order, and of the function package
var gctEvalSpecs = []string{"ArgCount.String", "NewDefaultCtx", "Context.GetFunc", "Context.setFunc", "Context.SetFunc", "NewConfig", "EvalContext"}
var gctFunctionSpecs = []string{"nilSafe", "var UpperS", "var LowerS", "StrS", "LenS", "ConcatS", "StrI", "FloatI", "StrF", "IntF", "StrB"}

func genEvalCtx() string {
	gct = &gctState{structs: map[string]*gctStruct{}, named: map[string]*gctT{}, fns: map[string]*gctFn{},
		dynTy: map[string]*gctT{}, varTy: map[string]string{}, fnVals: map[string]*gctT{}, fnDone: map[string]bool{}}
	gctConsts = map[string]string{}
	gctConstOrder = nil
	s := gct
	ep := loadPkg("config/eval")
	fp := loadPkg("function")
	tp := loadPkg("types")
	if len(ep.files) == 0 || len(fp.files) == 0 || len(tp.files) == 0 {
		problem("evalctx: config/eval, function or types not found")
		return ""
	}
	gctLoadConsts(ep, "gct_", map[string]bool{"ArgCount": true})
	gctLoadConsts(tp, "gct_types_", map[string]bool{"FunctionType": true})
	for _, n := range []string{"gct_ArgCountOne", "gct_ArgCountTwo", "gct_types_FunctionTypeUndefined"} {
		if _, ok := gctConsts[n]; !ok {
			problem("evalctx: constant %s not found", n)
		}
	}

	// ---- the function package
	s.p, s.pkgKey = fp, "function"
	var fnBlocks []string
	fileOf := func(p *pkgInfo, pos token.Pos) *ast.File {
		for _, f := range p.files {
			if f.Pos() <= pos && pos <= f.End() {
				return f
			}
		}
		return nil
	}
	// types of all declared functions (for the ones that stay variables)
	fnames := []string{}
	for k := range fp.funcs {
		fnames = append(fnames, k)
	}
	sortStrings(fnames)
	for _, k := range fnames {
		fd := fp.funcs[k]
		if fd.Recv != nil || !ast.IsExported(k) {
			continue
		}
		s.imports = gctImports(fileOf(fp, fd.Pos()))
		s.curFn = "function." + k
		save, sf := problems, s.failed
		ft := s.resolve(fd.Type)
		if ft.k == "func" {
			s.fnVals[k] = ft
		} else {
			problems, s.failed = save, sf // a function of another shape is a problem only if it is stored
		}
	}
	for _, spec := range gctFunctionSpecs {
		if strings.HasPrefix(spec, "var ") {
			name := strings.TrimPrefix(spec, "var ")
			init, ok := fp.vars[name]
			if !ok {
				problem("evalctx: function.%s not found", name)
				continue
			}
			s.curFn = "function." + name
			s.ntmp = 0
			var pre []string
			// find the file for the imports
			for _, f := range fp.files {
				if f.Pos() <= init.Pos() && init.Pos() <= f.End() {
					s.imports = gctImports(f)
				}
			}
			v, vt := s.expr(init, gctEnv{}, &pre, nil)
			if len(pre) > 0 || vt.k != "func" {
				s.fail(init, "initialiser of %s", name)
				continue
			}
			s.fnVals[name] = vt
			s.fnDone[name] = true
			fnBlocks = append(fnBlocks, fmt.Sprintf("(* BEGIN gct_function_%s *)\n(* function\nvar %s = %s *)\nDefinition gct_function_%s : %s :=\n  %s.\n(* END gct_function_%s *)\n",
				name, name, gapCommentSafe(s.src(init)), name, vt.coq(), v, name))
			continue
		}
		fd := fp.funcs[spec]
		if fd == nil {
			problem("evalctx: function.%s not found", spec)
			continue
		}
		s.imports = gctImports(fileOf(fp, fd.Pos()))
		s.curFn = "function." + spec
		g := s.signature("function", spec)
		if g == nil {
			continue
		}
		s.fns["function."+spec] = g
		text := s.translate(g)
		if g.funcType != nil && ast.IsExported(spec) {
			s.fnVals[spec] = g.funcType
			s.fnDone[spec] = true
		}
		fnBlocks = append(fnBlocks, fmt.Sprintf("(* BEGIN %s *)\n%s(* END %s *)\n", g.coq, text, g.coq))
	}

	// ---- config/eval
	s.p, s.pkgKey = ep, "eval"
	s.imports = map[string]string{}
	for _, f := range ep.files {
		for k, v := range gctImports(f) {
			if old, ok := s.imports[k]; ok && old != v {
				problem("evalctx: import name %s means two packages", k)
			}
			s.imports[k] = v
		}
	}
	s.curFn = "types of config/eval"
	s.loadTypes()
	mutating := map[string]bool{}
	var evalFns []*gctFn
	for _, key := range gctEvalSpecs {
		s.curFn = key
		g := s.signature("eval", key)
		if g == nil {
			continue
		}
		if g.recv != nil && g.recv.ty.k == "ptr" {
			g.mutates = gctMutates(g.fd, g.recv.name, mutating)
			if g.mutates {
				mutating[g.fd.Name.Name] = true
			}
		}
		s.fns["eval."+key] = g
		evalFns = append(evalFns, g)
	}
	var evalBlocks []string
	for _, g := range evalFns {
		text := s.translate(g)
		evalBlocks = append(evalBlocks, fmt.Sprintf("(* BEGIN %s *)\n%s(* END %s *)\n", g.coq, text, g.coq))
	}
	// every method of Context is accounted for
	for k := range ep.funcs {
		if strings.HasPrefix(k, "Context.") && k != "Context.String" {
			if _, ok := s.fns["eval."+k]; !ok {
				problem("evalctx: method %s of the context is not in the translation", k)
			}
		}
	}

	// ---- assemble
	var b strings.Builder
	b.WriteString(gctPreamble)
	b.WriteString("(* BEGIN gct_consts *)\n(* config/eval: ArgCount; types: FunctionType (byte constants by iota) *)\n")
	for _, n := range gctConstOrder {
		fmt.Fprintf(&b, "Definition %s : Z := %s.\n", n, gctConsts[n])
	}
	b.WriteString("(* END gct_consts *)\n\n")
	b.WriteString(gctVocabulary)
	for _, v := range s.vars {
		fmt.Fprintf(&b, "Variable %s : %s.\n", v, s.varTy[v])
	}
	b.WriteString("\n(* BEGIN gct_dyn *)\n(* interface{}: the nil interface, the function types named by SetFunc's type switch or stored by NewDefaultCtx\n   (in order of discovery), any other dynamic type *)\nInductive gct_dyn : Type :=\n| gct_dyn_nil\n")
	for _, d := range s.dyns {
		fmt.Fprintf(&b, "| %s (x : %s)\n", d, s.dynTy[d].coq())
	}
	b.WriteString("| gct_dyn_other (x : OTHER).\n(* END gct_dyn *)\n\n")
	for _, n := range s.structOrder() {
		st := s.structs[n]
		fmt.Fprintf(&b, "(* BEGIN gct_%s *)\n(* config/eval\n%s *)\nRecord gct_%s : Type := gct_mk_%s {", n, gapCommentSafe(st.src), n, n)
		for i, f := range st.fields {
			if i > 0 {
				b.WriteString(";")
			}
			fmt.Fprintf(&b, "\n  gct_%s_%s : %s", n, f.name, f.ty.coq())
		}
		fmt.Fprintf(&b, " }.\n(* END gct_%s *)\n\n", n)
	}
	for _, t := range fnBlocks {
		b.WriteString(t + "\n")
	}
	for _, t := range evalBlocks {
		b.WriteString(t + "\n")
	}
	b.WriteString("End GenEvalCtx.\n")
	return b.String()
}
