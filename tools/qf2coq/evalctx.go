package main

// genEvalCtx: placeholder until the translation of this part of the library is written (an empty generated file).
func genEvalCtx() string { return "" }
