package main

// Translation of small pure Go functions into Gallina definitions (coq/Gen/GenFuncs.v, tie T1).
//
// Every function listed in funcSpecs is translated statement by statement into a definition
// gf_<pkg>_<name> over Z (integers of every width), bool, tuples (structs, flattened field by field), list Z
// (fixed-size arrays, strings as their bytes).  coq/Proofs/GenFuncsProofs.v proves each generated definition
// equal to the hand-written model function for all inputs of the Go types, so that an edit of the Go function
// changes the generated text and breaks a named theorem of coq/Properties/T1.v.
//
// The scheme (anything else is reported through problem; the function then keeps the text of the golden copy,
// marked FALLBACK, so that the development still builds, and the exit status says that the tie is broken):
//
//	values      uintN -> Z in [0, 2^N); intN -> Z in [-2^(N-1), 2^(N-1)); int/uint are 64 bit; bool -> bool;
//	            struct -> one variable per field (a tuple where a single value is needed);
//	            [n]T -> list Z; string -> list Z (bytes); named types are resolved to their underlying type;
//	            an error result -> bool (true = nil): only nil-ness is kept, constructors qerrors.New,
//	            errors.New and fmt.Errorf all mean "not nil"
//	arithmetic  + - * and conversions wrap explicitly (gu8 … gs64); / % are Z.quot/Z.rem on signed and
//	            Z.div/Z.modulo on unsigned operands; a divisor that is not a non-zero constant makes the
//	            function partial; shifts with a constant count below the width are Z.shiftl/Z.shiftr, other
//	            (unsigned) counts go through gshl/gshr; & | ^ &^ are the Z bit operations (two's complement)
//	constants   untyped constant expressions are folded exactly and take the type of the other operand; an
//	            untyped constant shifted by a variable count takes its type from the context
//	statements  return (also several and named results), x := e, var x T [= e], x = e, x op= e, x++/x--,
//	            a, b := e1, e2, a, b := f(..), a[i] = e, if/else, expression statements calling translated
//	            functions, panic(..), for init; cond; post {..} with break/continue
//	if          when no branch leaves the statement early the branches compute the new values of the variables
//	            they assign (let (x, y) := if c then .. else .. in ..); otherwise the rest of the block is
//	            continued inside both branches
//	loops       recursion on fuel (the Coq term given in funcSpecs).  A loop without return is a function
//	            from the variables it mentions to the new values of the outer variables it assigns; a loop
//	            with a return inside also contains the statements that follow it.  Fuel exhausted = None
//	partiality  a function that can panic (panic, failed index, division, call of a partial function) or
//	            contains a loop returns option; None = the Go function panics or the fuel is exhausted.
//	            Partial operations on the right of && and || are rejected (evaluation order)
//	calls       other functions of funcSpecs (same package, or pkg.F through the import table), methods of
//	            local variables, bits.Mul64, bits.Len64, bits.LeadingZeros64, bits.TrailingZeros64, len,
//	            strings.HasPrefix, strings.HasSuffix; a string argument that is only handed to panic is dropped
//	receivers   a value receiver is the first argument; a method with a pointer receiver to an array and
//	            no result returns the updated array; one that only reads is treated as a value receiver
//	tables      package level arrays of integer or struct constants used by a translated function are
//	            emitted as gt_<pkg>_<name> : list Z / list (Z * Z)
//	not handled variable shadowing, signed variable shift counts, typed constants, floats, slices, maps,
//	            pointers, closures, defer, goto, switch, range, labels, recursion

import (
	"bytes"
	"flag"
	"fmt"
	"go/ast"
	"go/printer"
	"go/token"
	"math/big"
	"os"
	"path/filepath"
	"sort"
	"strconv"
	"strings"
)

// ------------------------------------------------------------------ what is translated

type funcSpec struct {
	pkg  string // directory below the repository root
	fn   string // "Name" or "Receiver.Name"
	fuel string // Coq term of type nat for the loops of the function ("" = the function has no loop)
}

var funcSpecs = []funcSpec{
	{"internal/ryu", "assert", ""},
	{"internal/ryu", "log10Pow2", ""},
	{"internal/ryu", "log10Pow5", ""},
	{"internal/ryu", "pow5Bits", ""},
	{"internal/ryu", "boolToInt", ""},
	{"internal/ryu", "boolToUint32", ""},
	{"internal/ryu", "boolToUint64", ""},
	{"internal/ryu", "decimalLen64", ""},
	{"internal/ryu", "shiftRight128", ""},
	{"internal/ryu", "mulShift64", ""},
	{"internal/ryu", "pow5Factor64", "64%nat"},
	{"internal/ryu", "multipleOfPowerOfFive64", ""},
	{"internal/ryu", "multipleOfPowerOfTwo64", ""},
	{"internal/ryu", "float64ToDecimalExactInt", "20%nat"},
	{"internal/ryu", "float64ToDecimal", "24%nat"},
	{"internal/strings", "NewPointer", ""},
	{"internal/strings", "Pointer.Offset", ""},
	{"internal/strings", "Pointer.Len", ""},
	{"internal/strings", "Pointer.IsNull", ""},
	{"internal/strings", "isQuoted", ""},
	{"internal/strings", "CheckName", ""},
	{"internal/ecolumn", "bitset.set", ""},
	{"internal/ecolumn", "bitset.isSet", ""},
	{"internal/ecolumn", "enumVal.isNull", ""},
	{"internal/ecolumn", "enumVal.compVal", ""},
	{"internal/math/integer", "Max", ""},
	{"internal/math/integer", "Min", ""},
	{"internal/grouper", "calculateInitialSizeExp", ""},
	{"internal/sort", "maxDepth", "(S (Z.to_nat v_n))"},
	{"function", "AbsI", ""},
	{"function", "PlusI", ""},
	{"function", "MinusI", ""},
	{"function", "MulI", ""},
	{"function", "DivI", ""},
	{"function", "BoolI", ""},
	{"function", "NotB", ""},
	{"function", "AndB", ""},
	{"function", "OrB", ""},
	{"function", "XorB", ""},
	{"function", "NandB", ""},
	{"function", "IntB", ""},
}

const gfModulePrefix = "github.com/tobgu/qframe/"

// ------------------------------------------------------------------ types

type gfKind int

const (
	gfInt gfKind = iota
	gfBool
	gfStruct
	gfArray
	gfTuple   // result of a multi-value call
	gfUnit    // no result
	gfString  // a string: the list of its bytes
	gfMsg     // a string argument that is only handed to panic: dropped
	gfErr     // an error result, observed only as nil (true) / not nil (false)
	gfUntyped // untyped integer constant (val set)
	gfNeedCtx // untyped constant shifted by a variable count: the type comes from the context
	gfBad
)

type gfType struct {
	kind   gfKind
	signed bool
	bits   int
	name   string    // struct name
	fnames []string  // struct field names
	elems  []*gfType // struct field types / tuple components / array element (one entry)
	n      int       // array length
	val    *big.Int  // untyped constant
}

var (
	gfBoolT   = &gfType{kind: gfBool}
	gfUnitT   = &gfType{kind: gfUnit}
	gfStringT = &gfType{kind: gfString}
	gfMsgT    = &gfType{kind: gfMsg}
	gfErrT    = &gfType{kind: gfErr}
	gfBadT    = &gfType{kind: gfBad}
	gfIntT    = &gfType{kind: gfInt, signed: true, bits: 64}
	gfU64T    = &gfType{kind: gfInt, signed: false, bits: 64}
)

func gfBasic(name string) *gfType {
	switch name {
	case "int", "int64":
		return gfIntT
	case "uint", "uint64":
		return gfU64T
	case "int32":
		return &gfType{kind: gfInt, signed: true, bits: 32}
	case "uint32":
		return &gfType{kind: gfInt, bits: 32}
	case "int16":
		return &gfType{kind: gfInt, signed: true, bits: 16}
	case "uint16":
		return &gfType{kind: gfInt, bits: 16}
	case "int8":
		return &gfType{kind: gfInt, signed: true, bits: 8}
	case "uint8", "byte":
		return &gfType{kind: gfInt, bits: 8}
	case "bool":
		return gfBoolT
	case "string":
		return gfStringT
	case "error":
		return gfErrT
	}
	return nil
}

func (t *gfType) same(u *gfType) bool {
	if t.kind != u.kind {
		return false
	}
	switch t.kind {
	case gfInt:
		return t.signed == u.signed && t.bits == u.bits
	case gfStruct:
		return t.name == u.name
	case gfArray:
		return t.n == u.n && t.elems[0].same(u.elems[0])
	case gfTuple:
		if len(t.elems) != len(u.elems) {
			return false
		}
		for i := range t.elems {
			if !t.elems[i].same(u.elems[i]) {
				return false
			}
		}
	}
	return true
}

func (t *gfType) wrap() string {
	if t.signed {
		return fmt.Sprintf("gs%d", t.bits)
	}
	return fmt.Sprintf("gu%d", t.bits)
}

func (t *gfType) lo() *big.Int {
	if !t.signed {
		return big.NewInt(0)
	}
	return new(big.Int).Neg(new(big.Int).Lsh(big.NewInt(1), uint(t.bits-1)))
}

func (t *gfType) hi() *big.Int { // exclusive
	if !t.signed {
		return new(big.Int).Lsh(big.NewInt(1), uint(t.bits))
	}
	return new(big.Int).Lsh(big.NewInt(1), uint(t.bits-1))
}

func (t *gfType) coq() string {
	switch t.kind {
	case gfInt:
		return "Z"
	case gfBool, gfErr:
		return "bool"
	case gfString:
		return "list Z"
	case gfUnit:
		return "unit"
	case gfArray:
		return "list " + t.elems[0].coq()
	case gfStruct, gfTuple:
		var parts []string
		for _, e := range t.elems {
			parts = append(parts, e.coq())
		}
		return "(" + strings.Join(parts, " * ") + ")"
	}
	return "BAD"
}

func (t *gfType) goName() string {
	switch t.kind {
	case gfInt:
		if t.signed {
			return fmt.Sprintf("int%d", t.bits)
		}
		return fmt.Sprintf("uint%d", t.bits)
	case gfBool:
		return "bool"
	case gfStruct:
		return t.name
	case gfArray:
		return fmt.Sprintf("[%d]%s", t.n, t.elems[0].goName())
	case gfUntyped:
		return "untyped constant"
	case gfString, gfMsg:
		return "string"
	case gfErr:
		return "error"
	}
	return "?"
}

// ------------------------------------------------------------------ per package information beyond pkgInfo

type gfPkg struct {
	dir     string
	p       *pkgInfo
	types   map[string]ast.Expr // type declarations
	typedC  map[string]bool     // constants declared with an explicit type (not supported)
	imports map[string]string   // import name -> import path
	arrays  map[string]*ast.ValueSpec
}

var gfPkgs = map[string]*gfPkg{}

func gfLoad(dir string) *gfPkg {
	if g, ok := gfPkgs[dir]; ok {
		return g
	}
	g := &gfPkg{dir: dir, p: loadPkg(dir), types: map[string]ast.Expr{}, typedC: map[string]bool{}, imports: map[string]string{}, arrays: map[string]*ast.ValueSpec{}}
	gfPkgs[dir] = g
	for _, f := range g.p.files {
		for _, im := range f.Imports {
			path, err := strconv.Unquote(im.Path.Value)
			if err != nil {
				continue
			}
			name := path[strings.LastIndex(path, "/")+1:]
			if im.Name != nil {
				name = im.Name.Name
			}
			g.imports[name] = path
		}
		for _, d := range f.Decls {
			gd, ok := d.(*ast.GenDecl)
			if !ok {
				continue
			}
			for _, s := range gd.Specs {
				switch t := s.(type) {
				case *ast.TypeSpec:
					g.types[t.Name.Name] = t.Type
				case *ast.ValueSpec:
					if gd.Tok == token.CONST && t.Type != nil {
						for _, id := range t.Names {
							g.typedC[id.Name] = true
						}
					}
					if gd.Tok == token.VAR {
						for _, id := range t.Names {
							g.arrays[id.Name] = t
						}
					}
				}
			}
		}
	}
	return g
}

func gfPkgShort(dir string) string {
	return dir[strings.LastIndex(dir, "/")+1:]
}

func (g *gfPkg) resolveType(e ast.Expr, seen int) *gfType {
	if seen > 8 {
		return nil
	}
	switch t := e.(type) {
	case *ast.Ident:
		if b := gfBasic(t.Name); b != nil {
			if _, shadow := g.types[t.Name]; !shadow {
				return b
			}
		}
		if d, ok := g.types[t.Name]; ok {
			if st, ok := d.(*ast.StructType); ok {
				r := &gfType{kind: gfStruct, name: t.Name}
				for _, f := range st.Fields.List {
					ft := g.resolveType(f.Type, seen+1)
					if ft == nil || ft.kind != gfInt && ft.kind != gfBool {
						return nil
					}
					if len(f.Names) == 0 {
						return nil
					}
					for _, n := range f.Names {
						r.fnames = append(r.fnames, n.Name)
						r.elems = append(r.elems, ft)
					}
				}
				return r
			}
			return g.resolveType(d, seen+1)
		}
	case *ast.ParenExpr:
		return g.resolveType(t.X, seen)
	case *ast.ArrayType:
		if t.Len == nil {
			return nil
		}
		if _, ell := t.Len.(*ast.Ellipsis); ell {
			return nil
		}
		n, ok := gfConst(g, t.Len)
		el := g.resolveType(t.Elt, seen+1)
		if !ok || el == nil || el.kind != gfInt || !n.IsInt64() || n.Int64() < 0 || n.Int64() > 1<<20 {
			return nil
		}
		return &gfType{kind: gfArray, n: int(n.Int64()), elems: []*gfType{el}}
	}
	return nil
}

// gfConst evaluates an untyped integer constant expression exactly.
func gfConst(g *gfPkg, e ast.Expr) (*big.Int, bool) {
	switch t := e.(type) {
	case *ast.BasicLit:
		if t.Kind == token.INT || t.Kind == token.CHAR || t.Kind == token.FLOAT {
			r, ok := evalConst(g.p, t)
			if ok && r.IsInt() {
				return new(big.Int).Set(r.Num()), true
			}
		}
	case *ast.Ident:
		if g.typedC[t.Name] {
			return nil, false
		}
		if c, ok := g.p.consts[t.Name]; ok {
			if _, isCall := c.(*ast.CallExpr); isCall { // a conversion gives the constant a type
				return nil, false
			}
			return gfConst(g, c)
		}
	case *ast.ParenExpr:
		return gfConst(g, t.X)
	case *ast.UnaryExpr:
		v, ok := gfConst(g, t.X)
		if !ok {
			return nil, false
		}
		switch t.Op {
		case token.SUB:
			return new(big.Int).Neg(v), true
		case token.ADD:
			return v, true
		case token.XOR:
			return new(big.Int).Not(v), true
		}
	case *ast.BinaryExpr:
		a, ok1 := gfConst(g, t.X)
		if !ok1 {
			return nil, false
		}
		b, ok2 := gfConst(g, t.Y)
		if !ok2 {
			return nil, false
		}
		switch t.Op {
		case token.ADD:
			return new(big.Int).Add(a, b), true
		case token.SUB:
			return new(big.Int).Sub(a, b), true
		case token.MUL:
			return new(big.Int).Mul(a, b), true
		case token.QUO:
			if b.Sign() != 0 {
				return new(big.Int).Quo(a, b), true
			}
		case token.REM:
			if b.Sign() != 0 {
				return new(big.Int).Rem(a, b), true
			}
		case token.AND:
			return new(big.Int).And(a, b), true
		case token.OR:
			return new(big.Int).Or(a, b), true
		case token.XOR:
			return new(big.Int).Xor(a, b), true
		case token.AND_NOT:
			return new(big.Int).AndNot(a, b), true
		case token.SHL:
			if b.Sign() >= 0 && b.IsInt64() && b.Int64() < 4096 {
				return new(big.Int).Lsh(a, uint(b.Int64())), true
			}
		case token.SHR:
			if b.Sign() >= 0 && b.IsInt64() && b.Int64() < 4096 {
				return new(big.Int).Rsh(a, uint(b.Int64())), true
			}
		}
	}
	return nil, false
}

func gfNum(v *big.Int) string {
	if v.Sign() < 0 {
		return "(" + v.String() + ")"
	}
	return v.String()
}

// ------------------------------------------------------------------ translated functions

type gfFunc struct {
	spec    funcSpec
	g       *gfPkg
	fd      *ast.FuncDecl
	name    string // Coq name
	partial bool
	params  []gfVar
	result  *gfType
	recvOut *gfVar  // pointer receiver returned as the result
	resVars []gfVar // named results (Go names)
	text    string  // the definitions (auxiliary loop functions first)
	ok      bool
	busy    bool
}

type gfVar struct {
	name string
	typ  *gfType
}

var gfFuncs = map[string]*gfFunc{} // key: dir + ":" + fn
var gfOrder []*gfFunc
var gfTables = map[string]string{} // Coq name -> definition
var gfTableOrder []string

// translation context of one function
type gfCtx struct {
	f       *gfFunc
	bad     bool
	tmp     int
	pending []gfBinding
	aux     []string
	nloop   int
	partial bool // the code being emitted has type option _
	inMerge int  // > 0 inside the branches of a merged if or inside a state-transformer loop
}

type gfBinding struct{ name, term string }

type gfEnv struct {
	order []string
	typ   map[string]*gfType
}

func (e *gfEnv) clone() *gfEnv {
	n := &gfEnv{order: append([]string(nil), e.order...), typ: map[string]*gfType{}}
	for k, v := range e.typ {
		n.typ[k] = v
	}
	return n
}

func (e *gfEnv) declare(name string, t *gfType) {
	if _, ok := e.typ[name]; !ok {
		e.order = append(e.order, name)
	}
	e.typ[name] = t
}

func (c *gfCtx) fail(format string, a ...interface{}) {
	if !c.bad {
		problem("function %s.%s: %s", c.f.spec.pkg, c.f.spec.fn, fmt.Sprintf(format, a...))
	}
	c.bad = true
}

func (c *gfCtx) fresh() string {
	c.tmp++
	return fmt.Sprintf("t%d", c.tmp)
}

func (c *gfCtx) take() []gfBinding {
	p := c.pending
	c.pending = nil
	return p
}

func (c *gfCtx) wrapBinds(b []gfBinding, inner string) string {
	if len(b) > 0 && !c.partial {
		c.fail("internal: partial operation in a function classified as total")
	}
	for i := len(b) - 1; i >= 0; i-- {
		inner = fmt.Sprintf("gbind %s (fun %s =>\n  %s)", b[i].term, b[i].name, inner)
	}
	return inner
}

// coq variable(s) of a Go variable
func gfCoqVar(name string) string { return "v_" + name }

func gfFlat(name string, t *gfType) []gfVar {
	if t.kind == gfStruct {
		var out []gfVar
		for i, f := range t.fnames {
			out = append(out, gfVar{gfCoqVar(name) + "_" + f, t.elems[i]})
		}
		return out
	}
	return []gfVar{{gfCoqVar(name), t}}
}

func gfZero(t *gfType) string {
	switch t.kind {
	case gfBool:
		return "false"
	case gfStruct:
		var z []string
		for _, e := range t.elems {
			z = append(z, gfZero(e))
		}
		return "(" + strings.Join(z, ", ") + ")"
	}
	return "0"
}

func gfValue(name string, t *gfType) string {
	fl := gfFlat(name, t)
	if len(fl) == 1 {
		return fl[0].name
	}
	var parts []string
	for _, v := range fl {
		parts = append(parts, v.name)
	}
	return "(" + strings.Join(parts, ", ") + ")"
}

func gfPattern(name string, t *gfType) string {
	fl := gfFlat(name, t)
	if len(fl) == 1 {
		return fl[0].name
	}
	var parts []string
	for _, v := range fl {
		parts = append(parts, v.name)
	}
	return "'(" + strings.Join(parts, ", ") + ")"
}

// ------------------------------------------------------------------ classification: can the function panic?

func gfCalleeKey(g *gfPkg, call *ast.CallExpr) (string, bool) {
	switch f := call.Fun.(type) {
	case *ast.Ident:
		if _, ok := g.p.funcs[f.Name]; ok {
			return g.dir + ":" + f.Name, true
		}
	case *ast.SelectorExpr:
		if id, ok := f.X.(*ast.Ident); ok {
			if path, ok := g.imports[id.Name]; ok && strings.HasPrefix(path, gfModulePrefix) {
				return strings.TrimPrefix(path, gfModulePrefix) + ":" + f.Sel.Name, true
			}
		}
	}
	return "", false
}

func gfNodePartial(g *gfPkg, n ast.Node) bool {
	res := false
	ast.Inspect(n, func(x ast.Node) bool {
		switch t := x.(type) {
		case *ast.ForStmt, *ast.IndexExpr:
			res = true
		case *ast.CallExpr:
			if id, ok := t.Fun.(*ast.Ident); ok && id.Name == "panic" {
				res = true
			}
			if key, ok := gfCalleeKey(g, t); ok {
				if f := gfGet(key); f != nil && f.partial {
					res = true
				}
			}
		case *ast.BinaryExpr:
			if t.Op == token.QUO || t.Op == token.REM {
				if v, ok := gfConst(g, t.Y); !ok || v.Sign() == 0 {
					res = true
				}
			}
		case *ast.AssignStmt:
			if t.Tok == token.QUO_ASSIGN || t.Tok == token.REM_ASSIGN {
				if v, ok := gfConst(g, t.Rhs[0]); !ok || v.Sign() == 0 {
					res = true
				}
			}
		}
		return !res
	})
	return res
}

// ------------------------------------------------------------------ expressions

func (c *gfCtx) constAs(v *big.Int, t *gfType) string {
	if t.kind != gfInt {
		c.fail("constant %s used at type %s", v.String(), t.goName())
		return "0"
	}
	if v.Cmp(t.lo()) < 0 || v.Cmp(t.hi()) >= 0 {
		c.fail("constant %s does not fit %s", v.String(), t.goName())
		return "0"
	}
	return gfNum(v)
}

// typed forces an untyped constant to the wanted type (or int when there is none).
func (c *gfCtx) typed(term string, t *gfType, want *gfType) (string, *gfType) {
	if t.kind == gfUntyped {
		if want == nil || want.kind != gfInt {
			want = gfIntT
		}
		return c.constAs(t.val, want), want
	}
	if t.kind == gfNeedCtx {
		c.fail("shift of an untyped constant by a variable count without a typed context")
		return "0", gfBadT
	}
	return term, t
}

func gfUntypedOf(v *big.Int) (string, *gfType) {
	return gfNum(v), &gfType{kind: gfUntyped, val: v}
}

// expr translates e.  want is the type an untyped constant operand should take (nil = none known).
// The result type may be gfUntyped (val set) or gfNeedCtx; callers that need a value call typed().
func (c *gfCtx) expr(env *gfEnv, e ast.Expr, want *gfType) (string, *gfType) {
	g := c.f.g
	if v, ok := gfConst(g, e); ok {
		return gfUntypedOf(v)
	}
	switch t := e.(type) {
	case *ast.ParenExpr:
		return c.expr(env, t.X, want)
	case *ast.BasicLit:
		if t.Kind == token.STRING {
			str, err := strconv.Unquote(t.Value)
			if err != nil {
				c.fail("string literal not understood")
				return "[]", gfBadT
			}
			var bs []string
			for _, b := range []byte(str) {
				bs = append(bs, strconv.Itoa(int(b)))
			}
			return "[" + strings.Join(bs, "; ") + "]", gfStringT
		}
	case *ast.Ident:
		switch t.Name {
		case "true":
			return "true", gfBoolT
		case "false":
			return "false", gfBoolT
		}
		if t.Name == "nil" && want != nil && want.kind == gfErr {
			return "true", gfErrT
		}
		if vt, ok := env.typ[t.Name]; ok {
			if vt.kind == gfMsg {
				c.fail("string variable %s is classified as a panic message but used as a value", t.Name)
				return "0", gfBadT
			}
			return gfValue(t.Name, vt), vt
		}
		if vs, ok := g.arrays[t.Name]; ok {
			return c.table(t.Name, vs)
		}
		c.fail("identifier %s not understood", t.Name)
		return "0", gfBadT
	case *ast.SelectorExpr:
		if id, ok := t.X.(*ast.Ident); ok {
			if vt, ok := env.typ[id.Name]; ok && vt.kind == gfStruct {
				for i, f := range vt.fnames {
					if f == t.Sel.Name {
						return gfCoqVar(id.Name) + "_" + f, vt.elems[i]
					}
				}
			}
		}
		c.fail("selector expression not understood")
		return "0", gfBadT
	case *ast.UnaryExpr:
		switch t.Op {
		case token.NOT:
			x, tx := c.expr(env, t.X, gfBoolT)
			if tx.kind != gfBool {
				c.fail("! applied to %s", tx.goName())
			}
			return "(negb " + x + ")", gfBoolT
		case token.SUB, token.XOR, token.ADD:
			x, tx := c.expr(env, t.X, want)
			x, tx = c.typed(x, tx, want)
			if tx.kind != gfInt {
				c.fail("unary %s applied to %s", t.Op, tx.goName())
				return "0", gfBadT
			}
			switch t.Op {
			case token.SUB:
				return fmt.Sprintf("(%s (- %s))", tx.wrap(), x), tx
			case token.XOR:
				return fmt.Sprintf("(%s (Z.lnot %s))", tx.wrap(), x), tx
			}
			return x, tx
		}
		c.fail("unary operator %s not supported", t.Op)
		return "0", gfBadT
	case *ast.BinaryExpr:
		return c.binary(env, t.Op, t.X, t.Y, want)
	case *ast.CallExpr:
		return c.call(env, t, want)
	case *ast.IndexExpr:
		a, ta := c.expr(env, t.X, nil)
		if ta.kind != gfArray {
			c.fail("index into a value that is not an array")
			return "0", gfBadT
		}
		i, ti := c.expr(env, t.Index, gfIntT)
		i, ti = c.typed(i, ti, gfIntT)
		if ti.kind != gfInt {
			c.fail("index is not an integer")
			return "0", gfBadT
		}
		name := c.fresh()
		c.pending = append(c.pending, gfBinding{name, fmt.Sprintf("(gidx %d %s %s)", ta.n, a, i)})
		return name, ta.elems[0]
	case *ast.CompositeLit:
		id, ok := t.Type.(*ast.Ident)
		if !ok {
			break
		}
		st := g.resolveType(id, 0)
		if st == nil || st.kind != gfStruct {
			break
		}
		vals := make([]string, len(st.fnames))
		for i, el := range t.Elts {
			pos := i
			val := el
			if kv, ok := el.(*ast.KeyValueExpr); ok {
				k, ok := kv.Key.(*ast.Ident)
				pos = -1
				if ok {
					for j, f := range st.fnames {
						if f == k.Name {
							pos = j
						}
					}
				}
				val = kv.Value
			}
			if pos < 0 || pos >= len(vals) || vals[pos] != "" {
				c.fail("composite literal of %s not understood", st.name)
				return "0", gfBadT
			}
			x, tx := c.expr(env, val, st.elems[pos])
			x, tx = c.typed(x, tx, st.elems[pos])
			if !tx.same(st.elems[pos]) {
				c.fail("field %s of %s initialised with %s", st.fnames[pos], st.name, tx.goName())
			}
			vals[pos] = x
		}
		for i := range vals {
			if vals[i] == "" {
				if st.elems[i].kind == gfBool {
					vals[i] = "false"
				} else {
					vals[i] = "0"
				}
			}
		}
		return "(" + strings.Join(vals, ", ") + ")", st
	}
	c.fail("expression %T not supported", e)
	return "0", gfBadT
}

func (c *gfCtx) table(name string, vs *ast.ValueSpec) (string, *gfType) {
	g := c.f.g
	coqName := "gt_" + gfPkgShort(g.dir) + "_" + name
	idx := -1
	for i, id := range vs.Names {
		if id.Name == name {
			idx = i
		}
	}
	if idx < 0 || idx >= len(vs.Values) {
		c.fail("package variable %s has no initialiser", name)
		return "[]", gfBadT
	}
	cl, ok := vs.Values[idx].(*ast.CompositeLit)
	if !ok {
		c.fail("package variable %s is not an array literal", name)
		return "[]", gfBadT
	}
	at, ok := cl.Type.(*ast.ArrayType)
	if !ok || at.Len == nil {
		c.fail("package variable %s is not an array", name)
		return "[]", gfBadT
	}
	el := g.resolveType(at.Elt, 0)
	if el == nil || el.kind != gfInt && el.kind != gfStruct {
		c.fail("package variable %s: element type not supported", name)
		return "[]", gfBadT
	}
	var vals []string
	for i, x := range cl.Elts {
		if _, kv := x.(*ast.KeyValueExpr); kv {
			c.fail("package variable %s: keyed element", name)
			return "[]", gfBadT
		}
		if el.kind == gfStruct {
			scl, ok := x.(*ast.CompositeLit)
			if !ok || len(scl.Elts) != len(el.elems) {
				c.fail("package variable %s: element %d is not a complete struct literal", name, i)
				return "[]", gfBadT
			}
			parts := make([]string, len(el.elems))
			for j, fe := range scl.Elts {
				pos := j
				if kv, ok := fe.(*ast.KeyValueExpr); ok {
					pos = -1
					if k, ok := kv.Key.(*ast.Ident); ok {
						for m, fn := range el.fnames {
							if fn == k.Name {
								pos = m
							}
						}
					}
					fe = kv.Value
				}
				v, ok := gfConst(g, fe)
				if !ok || pos < 0 || parts[pos] != "" || el.elems[pos].kind != gfInt {
					c.fail("package variable %s: element %d not understood", name, i)
					return "[]", gfBadT
				}
				parts[pos] = c.constAs(v, el.elems[pos])
			}
			vals = append(vals, "("+strings.Join(parts, ", ")+")")
			continue
		}
		v, ok := gfConst(g, x)
		if !ok {
			c.fail("package variable %s: element %d is not an integer constant", name, i)
			return "[]", gfBadT
		}
		vals = append(vals, c.constAs(v, el))
	}
	if _, ell := at.Len.(*ast.Ellipsis); !ell {
		n, ok := gfConst(g, at.Len)
		if !ok || !n.IsInt64() || int(n.Int64()) < len(vals) {
			c.fail("package variable %s: array length not understood", name)
			return "[]", gfBadT
		}
		for len(vals) < int(n.Int64()) {
			vals = append(vals, gfZero(el))
		}
	}
	if _, done := gfTables[coqName]; !done {
		gfTables[coqName] = fmt.Sprintf("(* var %s = [...]%s{…} *)\nDefinition %s : list %s := [\n  %s\n].\n", name, el.goName(), coqName, el.coq(), strings.Join(vals, ";\n  "))
		gfTableOrder = append(gfTableOrder, coqName)
	}
	return coqName, &gfType{kind: gfArray, n: len(vals), elems: []*gfType{el}}
}

func gfIsShift(op token.Token) bool { return op == token.SHL || op == token.SHR }

func (c *gfCtx) binary(env *gfEnv, op token.Token, X, Y ast.Expr, want *gfType) (string, *gfType) {
	switch op {
	case token.LAND, token.LOR:
		x, tx := c.expr(env, X, gfBoolT)
		before := len(c.pending)
		y, ty := c.expr(env, Y, gfBoolT)
		if len(c.pending) != before {
			c.fail("operation that can panic on the right of %s", op)
		}
		if tx.kind != gfBool || ty.kind != gfBool {
			c.fail("%s applied to non-boolean operands", op)
		}
		if op == token.LAND {
			return fmt.Sprintf("(%s && %s)", x, y), gfBoolT
		}
		return fmt.Sprintf("(%s || %s)", x, y), gfBoolT
	}
	if gfIsShift(op) {
		x, tx := c.expr(env, X, want)
		n, tn := c.expr(env, Y, nil)
		if tn.kind == gfUntyped {
			if tn.val.Sign() < 0 {
				c.fail("negative shift count")
				return "0", gfBadT
			}
		} else if tn.kind != gfInt || tn.signed {
			c.fail("shift count of type %s (only unsigned or constant counts are supported)", tn.goName())
			return "0", gfBadT
		}
		if tx.kind == gfUntyped || tx.kind == gfNeedCtx {
			if tx.kind == gfNeedCtx || want == nil || want.kind != gfInt {
				return "0", &gfType{kind: gfNeedCtx}
			}
			x, tx = c.typed(x, tx, want)
		}
		if tx.kind != gfInt {
			c.fail("shift of %s", tx.goName())
			return "0", gfBadT
		}
		small := tn.kind == gfUntyped && tn.val.Cmp(big.NewInt(int64(tx.bits))) < 0
		if op == token.SHL {
			if small {
				return fmt.Sprintf("(%s (Z.shiftl %s %s))", tx.wrap(), x, n), tx
			}
			return fmt.Sprintf("(gshl %s %d %s %s)", tx.wrap(), tx.bits, x, n), tx
		}
		if small {
			return fmt.Sprintf("(Z.shiftr %s %s)", x, n), tx
		}
		return fmt.Sprintf("(gshr %d %s %s)", tx.bits, x, n), tx
	}
	cmp := map[token.Token]string{token.EQL: "=?", token.LSS: "<?", token.LEQ: "<=?", token.GTR: ">?", token.GEQ: ">=?"}
	_, isCmp := cmp[op]
	isCmp = isCmp || op == token.NEQ
	opWant := want
	if isCmp {
		opWant = nil
	}
	x, tx := c.expr(env, X, opWant)
	var y string
	var ty *gfType
	if tx.kind == gfInt {
		y, ty = c.expr(env, Y, tx)
	} else {
		y, ty = c.expr(env, Y, opWant)
	}
	if tx.kind == gfNeedCtx && ty.kind == gfInt {
		x, tx = c.expr(env, X, ty)
	}
	if ty.kind == gfNeedCtx && tx.kind == gfInt {
		y, ty = c.expr(env, Y, tx)
	}
	if tx.kind == gfNeedCtx || ty.kind == gfNeedCtx {
		if opWant != nil && opWant.kind == gfInt {
			x, tx = c.expr(env, X, opWant)
			y, ty = c.expr(env, Y, opWant)
		} else {
			return "0", &gfType{kind: gfNeedCtx}
		}
	}
	if tx.kind == gfUntyped && ty.kind == gfUntyped {
		c.fail("constant expression I cannot fold")
		return "0", gfBadT
	}
	if tx.kind == gfUntyped {
		x, tx = c.typed(x, tx, ty)
	}
	if ty.kind == gfUntyped {
		y, ty = c.typed(y, ty, tx)
	}
	if tx.kind == gfBool && ty.kind == gfBool && (op == token.EQL || op == token.NEQ) {
		if op == token.EQL {
			return fmt.Sprintf("(Bool.eqb %s %s)", x, y), gfBoolT
		}
		return fmt.Sprintf("(negb (Bool.eqb %s %s))", x, y), gfBoolT
	}
	if tx.kind != gfInt || ty.kind != gfInt {
		c.fail("operator %s on %s and %s", op, tx.goName(), ty.goName())
		return "0", gfBadT
	}
	if !tx.same(ty) {
		c.fail("operator %s on mismatched types %s and %s", op, tx.goName(), ty.goName())
		return "0", gfBadT
	}
	if isCmp {
		if op == token.NEQ {
			return fmt.Sprintf("(negb (%s =? %s))", x, y), gfBoolT
		}
		return fmt.Sprintf("(%s %s %s)", x, cmp[op], y), gfBoolT
	}
	w := tx.wrap()
	switch op {
	case token.ADD:
		return fmt.Sprintf("(%s (%s + %s))", w, x, y), tx
	case token.SUB:
		return fmt.Sprintf("(%s (%s - %s))", w, x, y), tx
	case token.MUL:
		return fmt.Sprintf("(%s (%s * %s))", w, x, y), tx
	case token.AND:
		return fmt.Sprintf("(Z.land %s %s)", x, y), tx
	case token.OR:
		return fmt.Sprintf("(Z.lor %s %s)", x, y), tx
	case token.XOR:
		return fmt.Sprintf("(Z.lxor %s %s)", x, y), tx
	case token.AND_NOT:
		return fmt.Sprintf("(Z.ldiff %s %s)", x, y), tx
	case token.QUO, token.REM:
		var term string
		switch {
		case op == token.QUO && tx.signed:
			term = fmt.Sprintf("(%s (Z.quot %s %s))", w, x, y)
		case op == token.QUO:
			term = fmt.Sprintf("(%s / %s)", x, y)
		case tx.signed:
			term = fmt.Sprintf("(Z.rem %s %s)", x, y)
		default:
			term = fmt.Sprintf("(%s mod %s)", x, y)
		}
		if v, ok := gfConst(c.f.g, Y); ok && v.Sign() != 0 {
			return term, tx
		}
		name := c.fresh()
		c.pending = append(c.pending, gfBinding{name, fmt.Sprintf("(if %s =? 0 then None else Some %s)", y, term)})
		return name, tx
	}
	c.fail("operator %s not supported", op)
	return "0", gfBadT
}

func (c *gfCtx) call(env *gfEnv, call *ast.CallExpr, want *gfType) (string, *gfType) {
	g := c.f.g
	// conversions
	if id, ok := call.Fun.(*ast.Ident); ok && len(call.Args) == 1 {
		if _, isFunc := g.p.funcs[id.Name]; !isFunc {
			if tt := g.resolveType(id, 0); tt != nil {
				if tt.kind != gfInt {
					c.fail("conversion to %s not supported", id.Name)
					return "0", gfBadT
				}
				x, tx := c.expr(env, call.Args[0], tt)
				if tx.kind == gfUntyped {
					return c.constAs(tx.val, tt), tt
				}
				x, tx = c.typed(x, tx, tt)
				if tx.kind != gfInt {
					c.fail("conversion of %s to %s not supported", tx.goName(), id.Name)
					return "0", gfBadT
				}
				if tx.same(tt) {
					return x, tt
				}
				return fmt.Sprintf("(%s %s)", tt.wrap(), x), tt
			}
		}
	}
	// len
	if id, ok := call.Fun.(*ast.Ident); ok && id.Name == "len" && len(call.Args) == 1 {
		x, tx := c.expr(env, call.Args[0], nil)
		switch tx.kind {
		case gfString:
			return fmt.Sprintf("(Z.of_nat (length %s))", x), gfIntT
		case gfArray:
			return strconv.Itoa(tx.n), gfIntT
		}
		c.fail("len of %s", tx.goName())
		return "0", gfBadT
	}
	// strings.HasPrefix / HasSuffix; error constructors (an error is observed only as nil / not nil)
	if sel, ok := call.Fun.(*ast.SelectorExpr); ok {
		if id, ok := sel.X.(*ast.Ident); ok {
			path := g.imports[id.Name]
			if path == "strings" && (sel.Sel.Name == "HasPrefix" || sel.Sel.Name == "HasSuffix") && len(call.Args) == 2 {
				a, ta := c.expr(env, call.Args[0], nil)
				b, tb := c.expr(env, call.Args[1], nil)
				if ta.kind != gfString || tb.kind != gfString {
					c.fail("strings.%s on values that are not strings", sel.Sel.Name)
					return "false", gfBadT
				}
				fn := "ghasprefix"
				if sel.Sel.Name == "HasSuffix" {
					fn = "ghassuffix"
				}
				return fmt.Sprintf("(%s %s %s)", fn, a, b), gfBoolT
			}
			if want != nil && want.kind == gfErr &&
				(path == gfModulePrefix+"qerrors" && sel.Sel.Name == "New" || path == "errors" && sel.Sel.Name == "New" || path == "fmt" && sel.Sel.Name == "Errorf") {
				return "false", gfErrT
			}
		}
	}
	// math/bits
	if sel, ok := call.Fun.(*ast.SelectorExpr); ok {
		if id, ok := sel.X.(*ast.Ident); ok && g.imports[id.Name] == "math/bits" {
			args := func(n int) []string {
				if len(call.Args) != n {
					c.fail("bits.%s: wrong number of arguments", sel.Sel.Name)
					return make([]string, n)
				}
				var out []string
				for _, a := range call.Args {
					x, tx := c.expr(env, a, gfU64T)
					x, tx = c.typed(x, tx, gfU64T)
					if !tx.same(gfU64T) {
						c.fail("bits.%s applied to %s", sel.Sel.Name, tx.goName())
					}
					out = append(out, x)
				}
				return out
			}
			switch sel.Sel.Name {
			case "Mul64":
				a := args(2)
				return fmt.Sprintf("(gmul64 %s %s)", a[0], a[1]), &gfType{kind: gfTuple, elems: []*gfType{gfU64T, gfU64T}}
			case "Len64":
				a := args(1)
				return fmt.Sprintf("(glen64 %s)", a[0]), gfIntT
			case "LeadingZeros64":
				a := args(1)
				return fmt.Sprintf("(64 - glen64 %s)", a[0]), gfIntT
			case "TrailingZeros64":
				a := args(1)
				return fmt.Sprintf("(gtz64 %s)", a[0]), gfIntT
			}
			c.fail("bits.%s not supported", sel.Sel.Name)
			return "0", gfBadT
		}
	}
	// translated functions and methods
	var callee *gfFunc
	var args []ast.Expr
	if key, ok := gfCalleeKey(g, call); ok {
		callee = gfGet(key)
		args = call.Args
		if callee == nil {
			c.fail("call of %s, which is not in the list of translated functions", key)
			return "0", gfBadT
		}
	} else if sel, ok := call.Fun.(*ast.SelectorExpr); ok {
		// method call on a local variable of a named type
		if id, ok := sel.X.(*ast.Ident); ok {
			if _, isVar := env.typ[id.Name]; isVar {
				for k, f := range gfFuncs {
					if strings.HasPrefix(k, g.dir+":") && strings.HasSuffix(k, "."+sel.Sel.Name) && f.fd != nil && f.fd.Recv != nil {
						callee = gfGet(k)
						args = append([]ast.Expr{sel.X}, call.Args...)
					}
				}
			}
		}
	}
	if callee == nil {
		c.fail("call not understood")
		return "0", gfBadT
	}
	if !callee.ok {
		c.fail("call of %s, which could not be translated", callee.spec.fn)
		return "0", gfBadT
	}
	if callee.recvOut != nil {
		c.fail("call of a method with a pointer receiver")
		return "0", gfBadT
	}
	var params []gfVar
	for _, p := range callee.params {
		if p.typ.kind != gfMsg {
			params = append(params, p)
		}
	}
	var goArgs []ast.Expr
	for i, a := range args {
		if i < len(callee.params) && callee.params[i].typ.kind == gfMsg {
			continue
		}
		goArgs = append(goArgs, a)
	}
	if len(args) != len(callee.params) || len(goArgs) != len(params) {
		c.fail("call of %s with %d arguments", callee.spec.fn, len(args))
		return "0", gfBadT
	}
	term := callee.name
	for i, a := range goArgs {
		x, tx := c.expr(env, a, params[i].typ)
		x, tx = c.typed(x, tx, params[i].typ)
		if !tx.same(params[i].typ) {
			c.fail("argument %d of %s has type %s, not %s", i, callee.spec.fn, tx.goName(), params[i].typ.goName())
		}
		term += " " + x
	}
	term = "(" + term + ")"
	if callee.partial {
		name := c.fresh()
		c.pending = append(c.pending, gfBinding{name, term})
		return name, callee.result
	}
	return term, callee.result
}

// ------------------------------------------------------------------ statements

type gfCont func(env *gfEnv) string

type gfLoopCtx struct {
	brk, cont gfCont
}

func (c *gfCtx) ret(term string) string {
	if c.partial {
		return "Some " + term
	}
	return term
}

// gfHasReturn: the node contains a return statement or a call of panic (at any depth).
func gfHasReturn(n ast.Node) bool {
	res := false
	ast.Inspect(n, func(x ast.Node) bool {
		switch t := x.(type) {
		case *ast.ReturnStmt:
			res = true
		case *ast.CallExpr:
			if id, ok := t.Fun.(*ast.Ident); ok && id.Name == "panic" {
				res = true
			}
		}
		return !res
	})
	return res
}

// gfEscapes: control can leave the node other than by falling off its end: a return or panic anywhere, or a
// break/continue that belongs to a loop outside the node.
func gfEscapes(n ast.Node) bool {
	if n == nil {
		return false
	}
	if gfHasReturn(n) {
		return true
	}
	res := false
	ast.Inspect(n, func(x ast.Node) bool {
		switch x.(type) {
		case *ast.ForStmt:
			return false // its breaks and continues are its own
		case *ast.BranchStmt:
			res = true
		}
		return !res
	})
	return res
}

// variables of env assigned somewhere in the statements (Coq names, flattened, in env order)
func (c *gfCtx) assigned(env *gfEnv, stmts []ast.Stmt) []gfVar {
	hit := map[string]bool{}
	mark := func(e ast.Expr) {
		switch t := e.(type) {
		case *ast.Ident:
			if vt, ok := env.typ[t.Name]; ok {
				for _, v := range gfFlat(t.Name, vt) {
					hit[v.name] = true
				}
			}
		case *ast.SelectorExpr:
			if id, ok := t.X.(*ast.Ident); ok {
				if _, ok := env.typ[id.Name]; ok {
					hit[gfCoqVar(id.Name)+"_"+t.Sel.Name] = true
				}
			}
		case *ast.IndexExpr:
			if id, ok := t.X.(*ast.Ident); ok {
				if _, ok := env.typ[id.Name]; ok {
					hit[gfCoqVar(id.Name)] = true
				}
			}
		}
	}
	for _, s := range stmts {
		ast.Inspect(s, func(x ast.Node) bool {
			switch t := x.(type) {
			case *ast.AssignStmt:
				if t.Tok != token.DEFINE {
					for _, l := range t.Lhs {
						mark(l)
					}
				}
			case *ast.IncDecStmt:
				mark(t.X)
			}
			return true
		})
	}
	var out []gfVar
	for _, n := range env.order {
		for _, v := range gfFlat(n, env.typ[n]) {
			if hit[v.name] {
				out = append(out, v)
			}
		}
	}
	return out
}

func gfTupleOf(vs []gfVar) (val, pat string) {
	if len(vs) == 1 {
		return vs[0].name, vs[0].name
	}
	var parts []string
	for _, v := range vs {
		parts = append(parts, v.name)
	}
	j := strings.Join(parts, ", ")
	return "(" + j + ")", "'(" + j + ")"
}

func (c *gfCtx) declareNew(env *gfEnv, name string, t *gfType) bool {
	if name == "_" {
		return true
	}
	if _, dup := env.typ[name]; dup {
		c.fail("variable %s declared twice (shadowing is not supported)", name)
		return false
	}
	if t.kind != gfInt && t.kind != gfBool && t.kind != gfStruct && t.kind != gfArray && t.kind != gfString {
		c.fail("variable %s of unsupported type", name)
		return false
	}
	env.declare(name, t)
	return true
}

// assign emits "let <lhs> := <value> in" for a Go assignment to lhs (identifier, field or array element).
func (c *gfCtx) assign(env *gfEnv, lhs ast.Expr, val string, tv *gfType) string {
	switch t := lhs.(type) {
	case *ast.Ident:
		if t.Name == "_" {
			return ""
		}
		vt, ok := env.typ[t.Name]
		if !ok {
			c.fail("assignment to unknown variable %s", t.Name)
			return ""
		}
		if !vt.same(tv) {
			c.fail("assignment of %s to %s %s", tv.goName(), vt.goName(), t.Name)
		}
		return fmt.Sprintf("let %s := %s in\n  ", gfPattern(t.Name, vt), val)
	case *ast.SelectorExpr:
		if id, ok := t.X.(*ast.Ident); ok {
			if vt, ok := env.typ[id.Name]; ok && vt.kind == gfStruct {
				for i, f := range vt.fnames {
					if f == t.Sel.Name {
						if !vt.elems[i].same(tv) {
							c.fail("assignment of %s to field %s", tv.goName(), f)
						}
						return fmt.Sprintf("let %s_%s := %s in\n  ", gfCoqVar(id.Name), f, val)
					}
				}
			}
		}
	}
	c.fail("assignment target not supported")
	return ""
}

func (c *gfCtx) lhsType(env *gfEnv, lhs ast.Expr) *gfType {
	switch t := lhs.(type) {
	case *ast.Ident:
		if vt, ok := env.typ[t.Name]; ok {
			return vt
		}
	case *ast.SelectorExpr:
		if id, ok := t.X.(*ast.Ident); ok {
			if vt, ok := env.typ[id.Name]; ok && vt.kind == gfStruct {
				for i, f := range vt.fnames {
					if f == t.Sel.Name {
						return vt.elems[i]
					}
				}
			}
		}
	case *ast.IndexExpr:
		if id, ok := t.X.(*ast.Ident); ok {
			if vt, ok := env.typ[id.Name]; ok && vt.kind == gfArray {
				return vt.elems[0]
			}
		}
	}
	return nil
}

var gfAssignOps = map[token.Token]token.Token{
	token.ADD_ASSIGN: token.ADD, token.SUB_ASSIGN: token.SUB, token.MUL_ASSIGN: token.MUL, token.QUO_ASSIGN: token.QUO,
	token.REM_ASSIGN: token.REM, token.AND_ASSIGN: token.AND, token.OR_ASSIGN: token.OR, token.XOR_ASSIGN: token.XOR,
	token.SHL_ASSIGN: token.SHL, token.SHR_ASSIGN: token.SHR, token.AND_NOT_ASSIGN: token.AND_NOT,
}

// store handles lhs = <Go expression rhs combined through op with lhs, or plain when op == ILLEGAL>
func (c *gfCtx) store(env *gfEnv, lhs ast.Expr, op token.Token, rhs ast.Expr, rest func() string) string {
	lt := c.lhsType(env, lhs)
	if lt == nil {
		c.fail("assignment target not supported")
		return "BAD"
	}
	var val string
	var tv *gfType
	if op == token.ILLEGAL {
		val, tv = c.expr(env, rhs, lt)
	} else {
		val, tv = c.binary(env, op, lhs, rhs, lt)
	}
	val, tv = c.typed(val, tv, lt)
	if ix, ok := lhs.(*ast.IndexExpr); ok {
		id := ix.X.(*ast.Ident)
		at := env.typ[id.Name]
		if !tv.same(at.elems[0]) {
			c.fail("assignment of %s to an element of %s", tv.goName(), id.Name)
		}
		i, ti := c.expr(env, ix.Index, gfIntT)
		i, _ = c.typed(i, ti, gfIntT)
		binds := c.take()
		if !c.partial {
			c.fail("internal: array store in a total function")
		}
		return c.wrapBinds(binds, fmt.Sprintf("gbind (gupd %d %s %s %s) (fun %s =>\n  %s)", at.n, gfCoqVar(id.Name), i, val, gfCoqVar(id.Name), rest()))
	}
	binds := c.take()
	return c.wrapBinds(binds, c.assign(env, lhs, val, tv)+rest())
}

func (c *gfCtx) block(env *gfEnv, stmts []ast.Stmt, lp *gfLoopCtx, k gfCont) string {
	if c.bad {
		return "BAD"
	}
	if len(stmts) == 0 {
		return k(env)
	}
	s := stmts[0]
	rest := func() string { return c.block(env, stmts[1:], lp, k) }
	switch t := s.(type) {
	case *ast.EmptyStmt:
		return rest()
	case *ast.BlockStmt:
		inner := env.clone()
		return c.block(inner, t.List, lp, func(*gfEnv) string { return rest() })
	case *ast.ReturnStmt:
		if c.inMerge > 0 {
			c.fail("internal: return inside a merged branch")
			return "BAD"
		}
		if c.f.recvOut != nil {
			if len(t.Results) != 0 {
				c.fail("return with a value in a method with a pointer receiver")
				return "BAD"
			}
			return c.ret(c.f.recvOut.name)
		}
		if c.f.result.kind == gfUnit {
			if len(t.Results) != 0 {
				c.fail("return with a value")
			}
			return c.ret("tt")
		}
		if len(t.Results) == 0 && len(c.f.resVars) > 0 {
			var parts []string
			for _, v := range c.f.resVars {
				parts = append(parts, gfValue(v.name, v.typ))
			}
			if len(parts) == 1 {
				return c.ret(parts[0])
			}
			return c.ret("(" + strings.Join(parts, ", ") + ")")
		}
		want := []*gfType{c.f.result}
		if c.f.result.kind == gfTuple {
			want = c.f.result.elems
		}
		if len(t.Results) != len(want) {
			c.fail("return with %d values", len(t.Results))
			return "BAD"
		}
		var parts []string
		for i, r := range t.Results {
			x, tx := c.expr(env, r, want[i])
			x, tx = c.typed(x, tx, want[i])
			if !tx.same(want[i]) {
				c.fail("return of %s, declared %s", tx.goName(), want[i].goName())
			}
			parts = append(parts, x)
		}
		binds := c.take()
		if len(parts) == 1 {
			return c.wrapBinds(binds, c.ret(parts[0]))
		}
		return c.wrapBinds(binds, c.ret("("+strings.Join(parts, ", ")+")"))
	case *ast.DeclStmt:
		gd, ok := t.Decl.(*ast.GenDecl)
		if !ok || gd.Tok != token.VAR {
			c.fail("declaration statement not supported")
			return "BAD"
		}
		out := ""
		var binds []gfBinding
		for _, sp := range gd.Specs {
			vs := sp.(*ast.ValueSpec)
			var dt *gfType
			if vs.Type != nil {
				dt = c.f.g.resolveType(vs.Type, 0)
				if dt == nil {
					c.fail("type of variable %s not supported", vs.Names[0].Name)
					return "BAD"
				}
			}
			if len(vs.Values) != 0 && len(vs.Values) != len(vs.Names) {
				c.fail("var declaration with a multi-value initialiser")
				return "BAD"
			}
			for i, id := range vs.Names {
				var x string
				var tx *gfType
				if len(vs.Values) == 0 {
					tx = dt
					switch dt.kind {
					case gfInt, gfBool, gfStruct:
						x = gfZero(dt)
					default:
						c.fail("zero value of %s not supported", dt.goName())
						return "BAD"
					}
				} else {
					x, tx = c.expr(env, vs.Values[i], dt)
					x, tx = c.typed(x, tx, dt)
					if dt != nil && !tx.same(dt) {
						c.fail("variable %s declared %s, initialised with %s", id.Name, dt.goName(), tx.goName())
					}
				}
				binds = append(binds, c.take()...)
				if !c.declareNew(env, id.Name, tx) {
					return "BAD"
				}
				if id.Name != "_" {
					out += fmt.Sprintf("let %s := %s in\n  ", gfPattern(id.Name, tx), x)
				}
			}
		}
		return c.wrapBinds(binds, out+rest())
	case *ast.IncDecStmt:
		op := token.ADD
		if t.Tok == token.DEC {
			op = token.SUB
		}
		one := &ast.BasicLit{Kind: token.INT, Value: "1"}
		return c.store(env, t.X, op, one, rest)
	case *ast.AssignStmt:
		if t.Tok == token.DEFINE {
			// a, b := f()   (multi-value call)
			if len(t.Rhs) == 1 && len(t.Lhs) > 1 {
				x, tx := c.expr(env, t.Rhs[0], nil)
				if tx.kind != gfTuple || len(tx.elems) != len(t.Lhs) {
					c.fail("multi-value definition not understood")
					return "BAD"
				}
				binds := c.take()
				var pat []string
				for i, l := range t.Lhs {
					id, ok := l.(*ast.Ident)
					if !ok {
						c.fail("definition target not supported")
						return "BAD"
					}
					if id.Name == "_" {
						pat = append(pat, "_")
						continue
					}
					if !c.declareNew(env, id.Name, tx.elems[i]) {
						return "BAD"
					}
					pat = append(pat, strings.TrimPrefix(gfPattern(id.Name, tx.elems[i]), "'"))
				}
				return c.wrapBinds(binds, fmt.Sprintf("let '(%s) := %s in\n  ", strings.Join(pat, ", "), x)+rest())
			}
			if len(t.Lhs) != len(t.Rhs) {
				c.fail("definition with %d targets and %d values", len(t.Lhs), len(t.Rhs))
				return "BAD"
			}
			// all right-hand sides are evaluated before any variable is bound
			var xs []string
			var ts []*gfType
			for _, r := range t.Rhs {
				x, tx := c.expr(env, r, nil)
				x, tx = c.typed(x, tx, nil)
				xs = append(xs, x)
				ts = append(ts, tx)
			}
			binds := c.take()
			var pats []string
			for i, l := range t.Lhs {
				id, ok := l.(*ast.Ident)
				if !ok {
					c.fail("definition target not supported")
					return "BAD"
				}
				if !c.declareNew(env, id.Name, ts[i]) {
					return "BAD"
				}
				if id.Name == "_" {
					pats = append(pats, "_")
				} else {
					pats = append(pats, gfPattern(id.Name, ts[i]))
				}
			}
			if len(xs) == 1 {
				return c.wrapBinds(binds, fmt.Sprintf("let %s := %s in\n  ", pats[0], xs[0])+rest())
			}
			for i := range pats {
				pats[i] = strings.TrimPrefix(pats[i], "'")
			}
			return c.wrapBinds(binds, fmt.Sprintf("let '(%s) := (%s) in\n  ", strings.Join(pats, ", "), strings.Join(xs, ", "))+rest())
		}
		if len(t.Lhs) != 1 || len(t.Rhs) != 1 {
			c.fail("parallel assignment not supported")
			return "BAD"
		}
		if t.Tok == token.ASSIGN {
			return c.store(env, t.Lhs[0], token.ILLEGAL, t.Rhs[0], rest)
		}
		op, ok := gfAssignOps[t.Tok]
		if !ok {
			c.fail("assignment operator %s not supported", t.Tok)
			return "BAD"
		}
		return c.store(env, t.Lhs[0], op, t.Rhs[0], rest)
	case *ast.ExprStmt:
		call, ok := t.X.(*ast.CallExpr)
		if !ok {
			c.fail("expression statement not supported")
			return "BAD"
		}
		if id, ok := call.Fun.(*ast.Ident); ok && id.Name == "panic" {
			if !c.partial {
				c.fail("internal: panic in a total function")
			}
			return "None"
		}
		_, tx := c.expr(env, call, nil)
		if tx.kind != gfUnit {
			c.fail("call statement of a function with a result")
			return "BAD"
		}
		binds := c.take()
		if len(binds) == 0 { // a total function without result has no effect
			return rest()
		}
		return c.wrapBinds(binds, rest())
	case *ast.IfStmt:
		if t.Init != nil {
			c.fail("if with an init statement not supported")
			return "BAD"
		}
		cond, tc := c.expr(env, t.Cond, gfBoolT)
		if tc.kind != gfBool {
			c.fail("condition is not boolean")
			return "BAD"
		}
		binds := c.take()
		var elseStmts []ast.Stmt
		switch e := t.Else.(type) {
		case nil:
		case *ast.BlockStmt:
			elseStmts = e.List
		case *ast.IfStmt:
			elseStmts = []ast.Stmt{e}
		default:
			c.fail("else branch not supported")
			return "BAD"
		}
		jump := gfEscapes(t.Body) || (t.Else != nil && gfEscapes(t.Else))
		part := gfNodePartial(c.f.g, t.Body) || (t.Else != nil && gfNodePartial(c.f.g, t.Else))
		if !jump {
			// no branch leaves the statement early: the branches compute the new values of the variables
			// they assign
			vars := c.assigned(env, append(append([]ast.Stmt{}, t.Body.List...), elseStmts...))
			if len(vars) == 0 && !part {
				return c.wrapBinds(binds, rest())
			}
			val, pat := "tt", "_"
			if len(vars) > 0 {
				val, pat = gfTupleOf(vars)
			}
			wasPartial := c.partial
			if part && !wasPartial {
				c.fail("internal: partial branch in a total function")
			}
			c.partial = part
			c.inMerge++
			end := func(*gfEnv) string { return c.ret(val) }
			a := c.block(env.clone(), t.Body.List, nil, end)
			b := c.block(env.clone(), elseStmts, nil, end)
			c.inMerge--
			c.partial = wasPartial
			if part {
				return c.wrapBinds(binds, fmt.Sprintf("gbind (if %s\n  then (%s)\n  else (%s)) (fun %s =>\n  %s)", cond, a, b, pat, rest()))
			}
			return c.wrapBinds(binds, fmt.Sprintf("let %s := (if %s then %s else %s) in\n  %s", pat, cond, a, b, rest()))
		}
		after := func(*gfEnv) string { return rest() }
		a := c.block(env.clone(), t.Body.List, lp, after)
		b := c.block(env.clone(), elseStmts, lp, after)
		return c.wrapBinds(binds, fmt.Sprintf("if %s\n  then (%s)\n  else (%s)", cond, a, b))
	case *ast.BranchStmt:
		if t.Label != nil || lp == nil {
			c.fail("%s not supported here", t.Tok)
			return "BAD"
		}
		switch t.Tok {
		case token.BREAK:
			return lp.brk(env)
		case token.CONTINUE:
			return lp.cont(env)
		}
		c.fail("%s not supported", t.Tok)
		return "BAD"
	case *ast.ForStmt:
		if gfHasReturn(t) {
			if c.inMerge > 0 {
				c.fail("loop with a return inside a branch that is merged")
				return "BAD"
			}
			return c.loop(env, t, rest)
		}
		return c.loopState(env, t, rest)
	}
	c.fail("statement %T not supported", s)
	return "BAD"
}

// loop: for init; cond; post { body } followed by rest becomes a call of a recursive function on fuel whose
// arguments are all variables in scope; leaving the loop continues with rest inside that function.
func (c *gfCtx) loop(env *gfEnv, t *ast.ForStmt, rest func() string) string {
	if c.f.spec.fuel == "" {
		c.fail("loop in a function without a fuel term in funcSpecs")
		return "BAD"
	}
	if !c.partial {
		c.fail("internal: loop in a total function")
		return "BAD"
	}
	lenv := env.clone()
	var initStmts []ast.Stmt
	if t.Init != nil {
		initStmts = []ast.Stmt{t.Init}
	}
	return c.block(lenv, initStmts, nil, func(*gfEnv) string {
		c.nloop++
		name := fmt.Sprintf("%s_loop%d", c.f.name, c.nloop)
		var params, args []string
		for _, n := range lenv.order {
			for _, v := range gfFlat(n, lenv.typ[n]) {
				if v.typ.kind == gfMsg {
					continue
				}
				params = append(params, fmt.Sprintf("(%s : %s)", v.name, v.typ.coq()))
				args = append(args, v.name)
			}
		}
		recur := func(*gfEnv) string {
			post := []ast.Stmt{}
			if t.Post != nil {
				post = append(post, t.Post)
			}
			return c.block(lenv.clone(), post, nil, func(*gfEnv) string {
				return fmt.Sprintf("%s fuel' %s", name, strings.Join(args, " "))
			})
		}
		after := func(*gfEnv) string { return rest() }
		body := c.block(lenv.clone(), t.Body.List, &gfLoopCtx{brk: after, cont: recur}, recur)
		if t.Cond != nil {
			cond, tc := c.expr(lenv, t.Cond, gfBoolT)
			if tc.kind != gfBool {
				c.fail("loop condition is not boolean")
			}
			binds := c.take()
			body = c.wrapBinds(binds, fmt.Sprintf("if %s\n  then (%s)\n  else (%s)", cond, body, after(lenv)))
		}
		c.aux = append(c.aux, fmt.Sprintf("Fixpoint %s (fuel : nat) %s {struct fuel} : option %s :=\n  match fuel with\n  | O => None\n  | S fuel' =>\n  %s\n  end.\n",
			name, strings.Join(params, " "), c.resultCoq(), body))
		return fmt.Sprintf("%s %s %s", name, c.f.spec.fuel, strings.Join(args, " "))
	})
}

// loopState: a loop without return becomes a recursive function on fuel from the variables the loop mentions to
// the new values of the outer variables it assigns (None = fuel exhausted or a panic inside).
func (c *gfCtx) loopState(env *gfEnv, t *ast.ForStmt, rest func() string) string {
	if c.f.spec.fuel == "" {
		c.fail("loop in a function without a fuel term in funcSpecs")
		return "BAD"
	}
	if !c.partial {
		c.fail("internal: loop in a total function")
		return "BAD"
	}
	lenv := env.clone()
	var initStmts []ast.Stmt
	if t.Init != nil {
		initStmts = []ast.Stmt{t.Init}
	}
	return c.block(lenv, initStmts, nil, func(*gfEnv) string {
		c.nloop++
		name := fmt.Sprintf("%s_loop%d", c.f.name, c.nloop)
		stmts := append([]ast.Stmt{}, t.Body.List...)
		if t.Post != nil {
			stmts = append(stmts, t.Post)
		}
		outVars := c.assigned(env, stmts)
		val, pat := "tt", "_"
		var outTypes []string
		if len(outVars) > 0 {
			val, pat = gfTupleOf(outVars)
			for _, v := range outVars {
				outTypes = append(outTypes, v.typ.coq())
			}
		} else {
			outTypes = []string{"unit"}
		}
		// the variables the loop mentions
		used := map[string]bool{}
		note := func(n ast.Node) {
			if n == nil {
				return
			}
			ast.Inspect(n, func(x ast.Node) bool {
				switch t := x.(type) {
				case *ast.Ident:
					used[t.Name] = true
				case *ast.SelectorExpr: // the field name is not a variable
					if id, ok := t.X.(*ast.Ident); ok {
						used[id.Name] = true
						return false
					}
				case *ast.KeyValueExpr: // neither is the key of a struct literal
					if _, ok := t.Key.(*ast.Ident); ok {
						ast.Inspect(t.Value, func(y ast.Node) bool {
							if id, ok := y.(*ast.Ident); ok {
								used[id.Name] = true
							}
							return true
						})
						return false
					}
				}
				return true
			})
		}
		if t.Cond != nil {
			note(t.Cond)
		}
		note(t.Body)
		if t.Post != nil {
			note(t.Post)
		}
		var params, args []string
		for _, n := range lenv.order {
			if !used[n] || lenv.typ[n].kind == gfMsg {
				continue
			}
			for _, v := range gfFlat(n, lenv.typ[n]) {
				params = append(params, fmt.Sprintf("(%s : %s)", v.name, v.typ.coq()))
				args = append(args, v.name)
			}
		}
		c.inMerge++
		exit := func(*gfEnv) string { return "Some " + val }
		recur := func(*gfEnv) string {
			post := []ast.Stmt{}
			if t.Post != nil {
				post = append(post, t.Post)
			}
			return c.block(lenv.clone(), post, nil, func(*gfEnv) string {
				return fmt.Sprintf("%s fuel' %s", name, strings.Join(args, " "))
			})
		}
		body := c.block(lenv.clone(), t.Body.List, &gfLoopCtx{brk: exit, cont: recur}, recur)
		if t.Cond != nil {
			cond, tc := c.expr(lenv, t.Cond, gfBoolT)
			if tc.kind != gfBool {
				c.fail("loop condition is not boolean")
			}
			binds := c.take()
			body = c.wrapBinds(binds, fmt.Sprintf("if %s\n  then (%s)\n  else (%s)", cond, body, exit(lenv)))
		}
		c.inMerge--
		c.aux = append(c.aux, fmt.Sprintf("Fixpoint %s (fuel : nat) %s {struct fuel} : option (%s) :=\n  match fuel with\n  | O => None\n  | S fuel' =>\n  %s\n  end.\n",
			name, strings.Join(params, " "), strings.Join(outTypes, " * "), body))
		return fmt.Sprintf("gbind (%s %s %s) (fun %s =>\n  %s)", name, c.f.spec.fuel, strings.Join(args, " "), pat, rest())
	})
}

func (c *gfCtx) resultCoq() string {
	r := c.f.result.coq()
	if c.f.recvOut != nil {
		r = c.f.recvOut.typ.coq()
	}
	if strings.Contains(r, " ") && !strings.HasPrefix(r, "(") {
		r = "(" + r + ")"
	}
	return r
}

// gfOnlyPanicArg: every use of the identifier in the body is as the argument of panic (and there is one).
func gfOnlyPanicArg(body ast.Node, name string) bool {
	uses, inPanic := 0, 0
	ast.Inspect(body, func(x ast.Node) bool {
		switch t := x.(type) {
		case *ast.Ident:
			if t.Name == name {
				uses++
			}
		case *ast.CallExpr:
			if id, ok := t.Fun.(*ast.Ident); ok && id.Name == "panic" && len(t.Args) == 1 {
				if a, ok := t.Args[0].(*ast.Ident); ok && a.Name == name {
					inPanic++
				}
			}
		}
		return true
	})
	return uses > 0 && uses == inPanic
}

// ------------------------------------------------------------------ one function

func gfGet(key string) *gfFunc {
	f, ok := gfFuncs[key]
	if !ok {
		return nil
	}
	if f.text == "" && !f.busy && f.fd != nil {
		gfTranslate(f)
		if !f.ok {
			gfOrder = append(gfOrder, f) // keeps its place for the fallback text
		}
	}
	return f
}

func gfSource(f *gfFunc) string {
	cp := *f.fd
	cp.Doc = nil
	var b bytes.Buffer
	if err := printer.Fprint(&b, f.g.p.fset, &cp); err != nil {
		return ""
	}
	s := b.String()
	s = strings.ReplaceAll(s, "(*", "( *")
	s = strings.ReplaceAll(s, "*)", "* )")
	if strings.Count(s, "\"")%2 == 1 {
		s = strings.ReplaceAll(s, "\"", "'")
	}
	for _, w := range []string{"Admitted", "admit", "Axiom", "Parameter", "Conjecture", "Variable", "Hypothesis", "Guard", "native"} {
		if strings.Contains(s, w) {
			return ""
		}
	}
	return s
}

func gfTranslate(f *gfFunc) {
	f.busy = true
	defer func() { f.busy = false }()
	c := &gfCtx{f: f}
	g := f.g
	fd := f.fd
	f.text = "(* not translated *)\n"
	if fd.Body == nil {
		c.fail("no body")
		return
	}
	if fd.Type.TypeParams != nil {
		c.fail("generic function")
		return
	}
	env := &gfEnv{typ: map[string]*gfType{}}
	addParam := func(name string, te ast.Expr, recv bool) bool {
		ptr := false
		if st, ok := te.(*ast.StarExpr); ok && recv {
			ptr = true
			te = st.X
		}
		pt := g.resolveType(te, 0)
		if pt == nil || pt.kind == gfErr {
			c.fail("parameter %s: type not supported", name)
			return false
		}
		if pt.kind == gfString && gfOnlyPanicArg(fd.Body, name) {
			pt = gfMsgT
		}
		if ptr && pt.kind != gfArray {
			c.fail("pointer receiver of a type that is not an array")
			return false
		}
		if name == "_" || name == "" {
			name = fmt.Sprintf("unused%d", len(f.params))
		}
		if _, dup := env.typ[name]; dup {
			c.fail("parameter %s twice", name)
			return false
		}
		env.declare(name, pt)
		f.params = append(f.params, gfVar{name, pt})
		if ptr {
			f.recvOut = &gfVar{gfCoqVar(name), pt}
		}
		return true
	}
	if fd.Recv != nil {
		if len(fd.Recv.List) != 1 || len(fd.Recv.List[0].Names) > 1 {
			c.fail("receiver not understood")
			return
		}
		rn := "recv"
		if len(fd.Recv.List[0].Names) == 1 {
			rn = fd.Recv.List[0].Names[0].Name
		}
		if !addParam(rn, fd.Recv.List[0].Type, true) {
			return
		}
	}
	for _, fl := range fd.Type.Params.List {
		if _, variadic := fl.Type.(*ast.Ellipsis); variadic {
			c.fail("variadic parameter")
			return
		}
		if len(fl.Names) == 0 {
			if !addParam("_", fl.Type, false) {
				return
			}
		}
		for _, n := range fl.Names {
			if !addParam(n.Name, fl.Type, false) {
				return
			}
		}
	}
	f.result = gfUnitT
	zeroInit := ""
	if fd.Type.Results != nil && len(fd.Type.Results.List) > 0 {
		var rts []*gfType
		for _, r := range fd.Type.Results.List {
			rt := g.resolveType(r.Type, 0)
			if rt == nil || rt.kind != gfInt && rt.kind != gfBool && rt.kind != gfStruct && rt.kind != gfErr {
				c.fail("result type not supported")
				return
			}
			if len(r.Names) == 0 {
				rts = append(rts, rt)
			}
			for _, n := range r.Names {
				rts = append(rts, rt)
				if _, dup := env.typ[n.Name]; dup || n.Name == "_" {
					c.fail("result name %s not supported", n.Name)
					return
				}
				env.declare(n.Name, rt)
				f.resVars = append(f.resVars, gfVar{n.Name, rt})
				zeroInit += fmt.Sprintf("let %s := %s in\n  ", gfPattern(n.Name, rt), gfZero(rt))
			}
		}
		if len(f.resVars) != 0 && len(f.resVars) != len(rts) {
			c.fail("mixed named and unnamed results")
			return
		}
		if len(rts) == 1 {
			f.result = rts[0]
		} else {
			f.result = &gfType{kind: gfTuple, elems: rts}
		}
		if f.recvOut != nil {
			// a method that only reads through its pointer receiver is treated like one with a value receiver
			for _, v := range c.assigned(env, fd.Body.List) {
				if v.name == f.recvOut.name {
					c.fail("method with a pointer receiver that is assigned to and a result")
					return
				}
			}
			f.recvOut = nil
		}
	}
	f.partial = gfNodePartial(g, fd.Body)
	c.partial = f.partial
	if c.bad {
		return
	}
	body := c.block(env, fd.Body.List, nil, func(*gfEnv) string {
		if f.recvOut != nil {
			return c.ret(f.recvOut.name)
		}
		if f.result.kind == gfUnit {
			return c.ret("tt")
		}
		c.fail("control reaches the end of a function with a result")
		return "BAD"
	})
	if c.bad {
		return
	}
	var b strings.Builder
	if src := gfSource(f); src != "" {
		fmt.Fprintf(&b, "(* %s\n%s *)\n", f.spec.pkg, src)
	}
	for _, a := range c.aux {
		b.WriteString(a)
	}
	var ps []string
	var destruct string
	for _, p := range f.params {
		if p.typ.kind == gfMsg {
			continue
		}
		ps = append(ps, fmt.Sprintf("(%s : %s)", gfCoqVar(p.name), p.typ.coq()))
		if p.typ.kind == gfStruct {
			destruct += fmt.Sprintf("let %s := %s in\n  ", gfPattern(p.name, p.typ), gfCoqVar(p.name))
		}
	}
	rt := c.resultCoq()
	if f.partial {
		rt = "option " + rt
	}
	sep := " "
	if len(ps) == 0 {
		sep = ""
	}
	fmt.Fprintf(&b, "Definition %s%s%s : %s :=\n  %s%s%s.\n", f.name, sep, strings.Join(ps, " "), rt, destruct, zeroInit, body)
	f.text = b.String()
	f.ok = true
	gfOrder = append(gfOrder, f)
}

// ------------------------------------------------------------------ the file

const gfPreamble = `(* GENERATED by tools/qf2coq (funcs.go) from the Go sources of tobgu/qframe — do not edit.
   One definition gf_<package>_<function> per translated Go function; the scheme is described at the top of
   tools/qf2coq/funcs.go.  Values of every integer type are Z inside the range of the type; the helpers below
   are the fixed vocabulary of the translation (the meaning given to Go's operators). *)
From Coq Require Import ZArith List Bool.
Import ListNotations.
Local Open Scope Z_scope.

(* wrap-around of the fixed-width types *)
Definition gu8 (x : Z) : Z := x mod 256.
Definition gu16 (x : Z) : Z := x mod 65536.
Definition gu32 (x : Z) : Z := x mod 4294967296.
Definition gu64 (x : Z) : Z := x mod 18446744073709551616.
Definition gs8 (x : Z) : Z := (x + 128) mod 256 - 128.
Definition gs16 (x : Z) : Z := (x + 32768) mod 65536 - 32768.
Definition gs32 (x : Z) : Z := (x + 2147483648) mod 4294967296 - 2147483648.
Definition gs64 (x : Z) : Z := (x + 9223372036854775808) mod 18446744073709551616 - 9223372036854775808.
(* x << c and x >> c with an unsigned count that is not a constant below the width *)
Definition gshl (w : Z -> Z) (bits x c : Z) : Z := if c <? bits then w (Z.shiftl x c) else 0.
Definition gshr (bits x c : Z) : Z := if c <? bits then Z.shiftr x c else if x <? 0 then -1 else 0.
(* functions that can panic return option; None = panic (or loop fuel exhausted) *)
Definition gbind {A B : Type} (x : option A) (f : A -> option B) : option B :=
  match x with Some a => f a | None => None end.
(* a[i] and a[i] = v on an array of n elements *)
Definition gidx {A : Type} (n : Z) (a : list A) (i : Z) : option A :=
  if (i <? 0) || (n <=? i) then None else nth_error a (Z.to_nat i).
Fixpoint gset (a : list Z) (i : nat) (v : Z) : list Z :=
  match a, i with
  | [], _ => []
  | _ :: r, O => v :: r
  | x :: r, S j => x :: gset r j v
  end.
Definition gupd (n : Z) (a : list Z) (i v : Z) : option (list Z) :=
  if (i <? 0) || (n <=? i) || (Z.of_nat (length a) <=? i) then None else Some (gset a (Z.to_nat i) v).
(* strings.HasPrefix / strings.HasSuffix on byte lists *)
Fixpoint ghasprefix (s p : list Z) : bool :=
  match p, s with
  | [], _ => true
  | x :: p', y :: s' => (x =? y) && ghasprefix s' p'
  | _ :: _, [] => false
  end.
Definition ghassuffix (s p : list Z) : bool := ghasprefix (rev s) (rev p).
(* math/bits *)
Definition gmul64 (a b : Z) : Z * Z := ((a * b) / 18446744073709551616, (a * b) mod 18446744073709551616).
Definition glen64 (x : Z) : Z := if x =? 0 then 0 else Z.log2 x + 1.
Fixpoint gtz_pos (p : positive) : Z := match p with xO q => 1 + gtz_pos q | _ => 0 end.
Definition gtz64 (x : Z) : Z := match x with Z0 => 64 | Zpos p => gtz_pos p | Zneg _ => 0 end.

`

// gfGoldenBlock returns the text between "(* BEGIN name *)" and "(* END name *)" of the golden copy.
func gfGoldenBlock(golden, name string) (string, bool) {
	b := "(* BEGIN " + name + " *)\n"
	e := "(* END " + name + " *)\n"
	i := strings.Index(golden, b)
	if i < 0 {
		return "", false
	}
	j := strings.Index(golden[i:], e)
	if j < 0 {
		return "", false
	}
	return golden[i+len(b) : i+j], true
}

func genFuncs() string {
	for _, sp := range funcSpecs {
		g := gfLoad(sp.pkg)
		name := "gf_" + gfPkgShort(sp.pkg) + "_" + strings.ReplaceAll(sp.fn, ".", "_")
		f := &gfFunc{spec: sp, g: g, name: name}
		if fd, ok := g.p.funcs[sp.fn]; ok {
			f.fd = fd
		}
		gfFuncs[sp.pkg+":"+sp.fn] = f
	}
	for _, sp := range funcSpecs {
		f := gfFuncs[sp.pkg+":"+sp.fn]
		if f.fd == nil {
			problem("function %s not found in %s", sp.fn, sp.pkg)
			gfOrder = append(gfOrder, f)
			continue
		}
		gfGet(sp.pkg + ":" + sp.fn)
	}
	// A function that could not be translated keeps the text of the last validated tree (golden copy), marked
	// FALLBACK, so that the rest of the development still builds; the problem is reported all the same.
	golden := ""
	if fl := flag.Lookup("golden"); fl != nil && fl.Value.String() != "" {
		if gb, err := os.ReadFile(filepath.Join(fl.Value.String(), "GenFuncs.v")); err == nil {
			golden = string(gb)
		}
	}
	var fb strings.Builder
	for _, f := range gfOrder {
		text := f.text
		if !f.ok {
			old, found := gfGoldenBlock(golden, f.name)
			if !found {
				continue
			}
			text = "(* FALLBACK " + f.name + ": not derivable from the current source; text of the last validated tree *)\n" + old
		}
		fmt.Fprintf(&fb, "(* BEGIN %s *)\n%s(* END %s *)\n\n", f.name, text, f.name)
	}
	funcsText := fb.String()
	// tables: the ones the translated functions use, plus golden ones that a fallback text mentions
	for rest := golden; ; {
		i := strings.Index(rest, "(* BEGIN gt_")
		if i < 0 {
			break
		}
		rest = rest[i+len("(* BEGIN "):]
		j := strings.Index(rest, " *)")
		if j < 0 {
			break
		}
		name := rest[:j]
		if _, have := gfTables[name]; !have && strings.Contains(funcsText, name) {
			if old, found := gfGoldenBlock(golden, name); found {
				gfTables[name] = "(* FALLBACK " + name + " *)\n" + old
				gfTableOrder = append(gfTableOrder, name)
			}
		}
	}
	var b strings.Builder
	b.WriteString(gfPreamble)
	sort.Strings(gfTableOrder)
	for _, n := range gfTableOrder {
		fmt.Fprintf(&b, "(* BEGIN %s *)\n%s(* END %s *)\n\n", n, gfTables[n], n)
	}
	b.WriteString(funcsText)
	return b.String()
}
