(* Proofs/NoPanicProofs.v — property C10 on the L0 model: the operations keep frames well formed and never
   reach the model's Panic value on well formed frames, whatever the (dynamic) arguments are.

   The model sends every Go index expression through [idx] (Panic outside the range), so these are theorems
   about index arithmetic.  There is ONE more source of Panic in the model that is not a Go panic: the
   harness records user functions, the ToUpper oracle and the like-matchers as FINITE TABLES, and a lookup
   that misses the table is Panic (the case did not record the call).  Those appear as the explicit,
   decidable premise "the tables answer on the cells of the frame" ([*_tables_ok] below); the junk values of
   the model's argument types that denote no Go value (a func() returning an enum, an enum constant) are
   excluded by the same premise.

   Every lemma about a monadic model function has the form  [post Q T r] :
     r = Ok a   ->  Q a          (unconditionally: well-formedness is preserved whenever there is a result)
     r = Fail   ->  False
     r = Panic  ->  ~ T          (a Panic can only come from a table miss). *)
From QF Require Import Base.Prelude Base.KernelSyntax Gen.GenConsts Gen.GenTables Gen.GenKernels.
From QF Require Import Model.Frame Model.Bits Model.Kernel Model.Filter Model.Ops Model.Eval.
From QF Require Import Proofs.FilterProofs Proofs.OpsProofs Proofs.StickyProofs Proofs.EvalProofs.
Local Open Scope nat_scope.

(* ------------------------------------------------------------------ the triple *)

Definition post {A} (Q : A -> Prop) (T : Prop) (r : outcome A) : Prop :=
  match r with Ok a => Q a | Fail => False | Panic => ~ T end.

(* the same, for the column level functions whose Fail is the error return *)
Definition postf {A} (Q : A -> Prop) (T : Prop) (r : outcome A) : Prop :=
  match r with Ok a => Q a | Fail => True | Panic => ~ T end.

Lemma post_bind {A B} (Q1 : A -> Prop) (Q2 : B -> Prop) (T : Prop) (a : outcome A) (k : A -> outcome B) :
  post Q1 T a -> (forall x, a = Ok x -> Q1 x -> post Q2 T (k x)) -> post Q2 T (obind a k).
Proof. destruct a as [x| |]; simpl; intros H1 H2; auto. Qed.

Lemma postf_bind {A B} (Q1 : A -> Prop) (Q2 : B -> Prop) (T : Prop) (a : outcome A) (k : A -> outcome B) :
  postf Q1 T a -> (forall x, a = Ok x -> Q1 x -> postf Q2 T (k x)) -> postf Q2 T (obind a k).
Proof. destruct a as [x| |]; simpl; intros H1 H2; auto. Qed.

Lemma post_weaken {A} (Q Q' : A -> Prop) (T T' : Prop) r :
  post Q T r -> (forall a, r = Ok a -> Q a -> Q' a) -> (T' -> T) -> post Q' T' r.
Proof. destruct r; simpl; intros H HQ HT; auto. Qed.

Lemma postf_weaken {A} (Q Q' : A -> Prop) (T T' : Prop) r :
  postf Q T r -> (forall a, r = Ok a -> Q a -> Q' a) -> (T' -> T) -> postf Q' T' r.
Proof. destruct r; simpl; intros H HQ HT; auto. Qed.

Lemma post_postf {A} (Q : A -> Prop) T r : post Q T r -> postf Q T r.
Proof. destruct r; simpl; auto. Qed.

Lemma post_ok {A} (Q : A -> Prop) T r a : post Q T r -> r = Ok a -> Q a.
Proof. intros H ->. exact H. Qed.
Lemma post_no_panic {A} (Q : A -> Prop) (T : Prop) r : post Q T r -> T -> r <> Panic.
Proof. intros H HT ->. exact (H HT). Qed.
Lemma post_total {A} (Q : A -> Prop) (T : Prop) r : post Q T r -> T -> exists a, r = Ok a /\ Q a.
Proof. destruct r as [a| |]; simpl; intros H HT; [exists a; auto|contradiction|contradiction]. Qed.

(* ------------------------------------------------------------------ well-formedness as propositions *)

Definition plen (cs : list (bytes * coldata)) : nat := match cs with [] => 0 | (_, c) :: _ => col_len c end.

Definition col_ok (n : nat) (c : coldata) : Prop := col_len c = n /\ col_wf c = true.
Definition wf_cols (n : nat) (cs : list (bytes * coldata)) : Prop := Forall (fun nc => col_ok n (snd nc)) cs.

Definition WF (f : frame) : Prop :=
  wf_cols (phys_len f) (cols f) /\ Forall (fun p => p < phys_len f) (ix f).

Lemma phys_len_plen f : phys_len f = plen (cols f).
Proof. reflexivity. Qed.

Lemma wf_frame_WF f : wf_frame f = true <-> WF f.
Proof.
  unfold wf_frame, WF, wf_cols, col_ok. rewrite andb_true_iff, !forallb_forall, !Forall_forall.
  split; intros [H1 H2]; split.
  - intros nc Hin. specialize (H1 nc Hin). apply andb_true_iff in H1 as [Ha Hb].
    apply Nat.eqb_eq in Ha. auto.
  - intros p Hin. specialize (H2 p Hin). apply Nat.ltb_lt in H2. exact H2.
  - intros nc Hin. destruct (H1 nc Hin) as [Ha Hb]. apply andb_true_iff. split; [apply Nat.eqb_eq; exact Ha|exact Hb].
  - intros p Hin. apply Nat.ltb_lt. auto.
Qed.

Lemma wf_cols_plen n cs : wf_cols n cs -> cs <> [] -> plen cs = n.
Proof. intros H Hne. destruct cs as [|[m c] cs]; [congruence|]. inversion H as [|? ? Hh _]; subst. destruct Hh as [Hc _]. exact Hc. Qed.

(* a frame with the same columns and a row index inside the old one is well formed *)
Lemma WF_sub f g : WF f -> cols g = cols f -> incl (ix g) (ix f) -> WF g.
Proof.
  intros [Hc Hi] Hcols Hincl. unfold WF. rewrite !phys_len_plen, Hcols, <- !phys_len_plen. split; [exact Hc|].
  rewrite Forall_forall in *. intros p Hp. apply Hi. apply Hincl. exact Hp.
Qed.

Lemma WF_with_err f : WF f -> WF (with_err f).
Proof. intro H. apply (WF_sub f); [exact H|reflexivity|apply incl_refl]. Qed.

Lemma lookup_col_In f name c : lookup_col f name = Some c -> In (name, c) (cols f).
Proof.
  unfold lookup_col. destruct (lookup f name) as [[q c0]|] eqn:E; [|discriminate].
  simpl. intro H; inversion H; subst. apply lookup_some_nth in E. eapply nth_error_In; exact E.
Qed.

Lemma WF_lookup f name c : WF f -> lookup_col f name = Some c -> col_ok (phys_len f) c.
Proof.
  intros [Hc _] H. apply lookup_col_In in H. unfold wf_cols in Hc. rewrite Forall_forall in Hc.
  exact (Hc _ H).
Qed.

Lemma lookup_cols_eq f g name : cols g = cols f -> lookup g name = lookup f name.
Proof. unfold lookup. intros ->. reflexivity. Qed.
Lemma lookup_col_cols_eq f g name : cols g = cols f -> lookup_col g name = lookup_col f name.
Proof. unfold lookup_col. intro H. rewrite (lookup_cols_eq f g name H). reflexivity. Qed.

(* ------------------------------------------------------------------ Slice, Select, Drop, setColumn, Copy *)

Lemma incl_firstn {A} n (l : list A) : incl (firstn n l) l.
Proof. revert l; induction n as [|n IH]; intros [|x l]; simpl; try apply incl_nil_l; try apply incl_refl.
  apply incl_cons; [left; reflexivity|]. apply incl_tl. apply IH. Qed.
Lemma incl_skipn {A} n (l : list A) : incl (skipn n l) l.
Proof. revert l; induction n as [|n IH]; intros [|x l]; simpl; try apply incl_refl. apply incl_tl. apply IH. Qed.

Lemma slice_WF f a b : WF f -> WF (slice f a b).
Proof.
  intro H. unfold slice.
  destruct (ferr f); [exact H|].
  destruct (a <? 0)%Z; [apply WF_with_err; exact H|].
  destruct (b <? a)%Z; [apply WF_with_err; exact H|].
  destruct (Z.of_nat (length (ix f)) <? b)%Z; [apply WF_with_err; exact H|].
  apply (WF_sub f); [exact H|reflexivity|]. simpl.
  eapply incl_tran; [apply incl_firstn|apply incl_skipn].
Qed.

Lemma select_cols_ok f n names :
  wf_cols n (cols f) ->
  wf_cols n (flat_map (fun m => match lookup_col f m with Some c => [(m, c)] | None => [] end) names).
Proof.
  intro Hc. unfold wf_cols in *. rewrite Forall_forall in *. intros [m c] Hin.
  apply in_flat_map in Hin as [m' [_ Hin]].
  destruct (lookup_col f m') as [c'|] eqn:E; [|destruct Hin].
  destruct Hin as [Heq|[]]. inversion Heq; subst. apply lookup_col_In in E. exact (Hc _ E).
Qed.

Lemma select_WF f names : WF f -> WF (select f names).
Proof.
  intro H. unfold select.
  destruct (ferr f); [exact H|].
  destruct (forallb (contains f) names) eqn:Hall; simpl negb; cbv iota; [|apply WF_with_err; exact H].
  destruct names as [|m names]; [split; constructor|].
  destruct H as [Hc Hi].
  pose proof (select_cols_ok f (phys_len f) (m :: names) Hc) as Hs.
  simpl in Hall. apply andb_true_iff in Hall as [Hm _].
  destruct (contains_lookup_col f m Hm) as [c Hl].
  unfold WF. cbn [cols ix]. rewrite phys_len_plen. cbn [cols].
  rewrite (wf_cols_plen _ _ Hs); [split; [exact Hs|exact Hi]|].
  cbn [flat_map]. rewrite Hl. discriminate.
Qed.

Lemma drop_WF f names : WF f -> WF (drop f names).
Proof.
  intro H. unfold drop. destruct (ferr f); [exact H|]. destruct names; [exact H|]. apply select_WF. exact H.
Qed.

(* what an operation that changes columns keeps: well-formedness, the row index, the physical length *)
Definition kept (f g : frame) : Prop := WF g /\ ix g = ix f /\ phys_len g = phys_len f.

Lemma kept_refl f : WF f -> kept f f.
Proof. intro H. repeat split; try apply H. Qed.
Lemma kept_err f : WF f -> kept f (with_err f).
Proof. intro H. split; [apply WF_with_err; exact H|split; reflexivity]. Qed.
Lemma kept_trans f g h : kept f g -> kept g h -> kept f h.
Proof. intros [_ [H2 H3]] [K1 [K2 K3]]. split; [exact K1|split; congruence]. Qed.

Lemma plen_set_nth cs pos name c : col_len c = plen cs -> plen (set_nth cs pos (name, c)) = plen cs.
Proof. intro H. destruct cs as [|[m c0] cs]; [reflexivity|]. destruct pos; simpl; [exact H|reflexivity]. Qed.

Lemma plen_app cs name c : col_len c = plen cs -> plen (cs ++ [(name, c)]) = plen cs.
Proof. intro H. destruct cs as [|[m c0] cs]; [exact H|reflexivity]. Qed.

Lemma set_column_kept f name c : WF f -> col_ok (phys_len f) c -> kept f (set_column f name c).
Proof.
  intros H Hc. unfold set_column.
  destruct (negb (check_name name)); [apply kept_err; exact H|].
  destruct H as [Hcs Hi]. destruct Hc as [Hl Hw].
  destruct (lookup f name) as [[pos c0]|].
  - assert (Hp : plen (set_nth (cols f) pos (name, c)) = phys_len f) by (apply plen_set_nth; exact Hl).
    unfold kept, WF. rewrite !phys_len_plen. cbn [cols ix]. rewrite Hp.
    repeat split; try assumption. apply set_nth_Forall; [exact Hcs|split; assumption].
  - assert (Hp : plen (cols f ++ [(name, c)]) = phys_len f) by (apply plen_app; exact Hl).
    unfold kept, WF. rewrite !phys_len_plen. cbn [cols ix]. rewrite Hp.
    repeat split; try assumption. apply Forall_app. split; [exact Hcs|]. constructor; [split; assumption|constructor].
Qed.

Lemma copy_kept f dst src : WF f -> kept f (copy f dst src).
Proof.
  intro H. unfold copy. destruct (ferr f); [apply kept_refl; exact H|].
  destruct (lookup_col f src) as [c|] eqn:E; [|apply kept_err; exact H].
  destruct (bytes_eqb dst src); [apply kept_refl; exact H|].
  apply set_column_kept; [exact H|]. eapply WF_lookup; eassumption.
Qed.

(* ------------------------------------------------------------------ pieces of Apply *)

Lemma omap_post {A B} (g : A -> outcome B) (Q : B -> Prop) (T : Prop) : forall l,
  (forall x, In x l -> post Q T (g x)) ->
  post (fun ys => length ys = length l /\ Forall Q ys) T (omap g l).
Proof.
  induction l as [|x l IH]; intro H; simpl; [split; [reflexivity|constructor]|].
  eapply post_bind; [apply H; left; reflexivity|]. intros y _ Hy.
  eapply post_bind; [apply IH; intros z Hz; apply H; right; exact Hz|]. intros ys _ [Hl Hys].
  simpl. split; [congruence|constructor; assumption].
Qed.

Lemma omap_out {A B} (g : A -> outcome B) (Q : B -> Prop) : forall l ys,
  omap g l = Ok ys -> (forall x y, In x l -> g x = Ok y -> Q y) -> Forall Q ys.
Proof.
  induction l as [|x l IH]; intros ys H HQ; simpl in H.
  - inversion H. constructor.
  - destruct (g x) as [y| |] eqn:E; simpl in H; try discriminate.
    destruct (omap g l) as [ys'| |] eqn:E2; simpl in H; try discriminate.
    inversion H; subst. constructor; [apply (HQ x); [left; reflexivity|exact E]|].
    apply IH; [reflexivity|]. intros z w Hz. apply HQ. right. exact Hz.
Qed.

Lemma idx_ok {A} (l : list A) p : p < length l -> exists x, idx l p = Ok x /\ In x l.
Proof.
  intro H. unfold idx. destruct (nth_error l p) as [x|] eqn:E.
  - exists x. split; [reflexivity|]. eapply nth_error_In; exact E.
  - apply nth_error_None in E. lia.
Qed.

Lemma enum_string_ok vs r : enum_rank_ok vs r = true -> exists s, enum_string vs r = Ok s.
Proof.
  unfold enum_rank_ok, enum_string. destruct (enum_is_null r); [eexists; reflexivity|]. simpl. intro H.
  destruct (idx_ok vs (N.to_nat r)) as [s [Hs _]]; [apply Nat.ltb_lt; exact H|]. rewrite Hs. eexists; reflexivity.
Qed.

Lemma cell_at_ok c p : col_wf c = true -> p < col_len c -> exists x, cell_at c p = Ok x.
Proof.
  intros Hw Hp. destruct c as [d|d|d|d|d vs st]; simpl in *;
    try (destruct (idx_ok d p Hp) as [x [Hx _]]; rewrite Hx; eexists; reflexivity).
  destruct (idx_ok d p Hp) as [r [Hr Hin]]. rewrite Hr. simpl.
  apply andb_true_iff in Hw as [Hr' _]. rewrite forallb_forall in Hr'.
  destruct (enum_string_ok vs r (Hr' r Hin)) as [s Hs]. rewrite Hs. eexists; reflexivity.
Qed.

Lemma scatter_len : forall index base vals arr, scatter base index vals = Ok arr -> length arr = length base.
Proof.
  induction index as [|p index IH]; intros base vals arr H; simpl in H; [inversion H; reflexivity|].
  destruct vals as [|v vals]; [discriminate|]. destruct (p <? length base); [|discriminate].
  rewrite (IH _ _ _ H). apply set_nth_length.
Qed.

Lemma scatter_post : forall index base vals,
  Forall (fun p => p < length base) index ->
  post (fun arr => length arr = length base) (length index <= length vals) (scatter base index vals).
Proof.
  induction index as [|p index IH]; intros base vals Hin; simpl; [reflexivity|].
  inversion Hin as [|? ? Hp Hrest]; subst.
  destruct vals as [|v vals]; [simpl; lia|].
  destruct (p <? length base) eqn:E; [|apply Nat.ltb_ge in E; lia].
  eapply post_weaken; [apply IH; rewrite set_nth_length; exact Hrest| |simpl; lia].
  intros arr _ Ha. rewrite Ha. apply set_nth_length.
Qed.

Lemma col_of_cells_out t cells r : col_of_cells t cells = Ok r -> col_len r = length cells /\ col_wf r = true.
Proof.
  destruct t; simpl; intro H; try discriminate;
    match type of H with (do d <- ?o; _) = _ => destruct o as [d| |] eqn:E; simpl in H; try discriminate end;
    inversion H; subst; simpl; (split; [|reflexivity]); eapply omap_length; exact E.
Qed.

Lemma omap_no_fail {A B} (g : A -> outcome B) : (forall x, g x <> Fail) -> forall l, omap g l <> Fail.
Proof.
  intros Hg. induction l as [|x l IH]; simpl; [discriminate|].
  destruct (g x) as [y| |] eqn:E; simpl; [|exfalso; exact (Hg x E)|discriminate].
  destruct (omap g l); simpl; try discriminate. exact IH.
Qed.

Lemma col_of_cells_no_fail t cells : col_of_cells t cells <> Fail.
Proof.
  destruct t; simpl; try discriminate;
    match goal with |- (do d <- omap ?g ?l; _) <> _ =>
      pose proof (omap_no_fail g (fun c => ltac:(destruct c; discriminate)) l) as H;
      destruct (omap g l); simpl; try discriminate; intros _; apply H; reflexivity end.
Qed.

Lemma col_of_cells_post t cells :
  post (fun r => col_len r = length cells /\ col_wf r = true)
       (t <> TEnum /\ Forall (fun y => cell_type_ok t y = true) cells) (col_of_cells t cells).
Proof.
  destruct (col_of_cells t cells) as [r| |] eqn:E; simpl.
  - apply col_of_cells_out in E. exact E.
  - exact (col_of_cells_no_fail t cells E).
  - intros [Ht Hall]. destruct (col_of_cells_spec t cells Ht Hall) as [r [Hr _]]. congruence.
Qed.

Lemma forallb_Forall {A} (p : A -> bool) l : forallb p l = true -> Forall (fun x => p x = true) l.
Proof. intro H. rewrite forallb_forall in H. apply Forall_forall. exact H. Qed.

Lemma ctype_eqb_eq a b : ctype_eqb a b = true <-> a = b.
Proof. destruct a, b; simpl; split; intro H; congruence. Qed.

(* the common tail of apply0 (stream), Apply1 and Apply2: scatter the results over a prepared array, build the column *)
Lemma scatter_base_post t base index vals (T : Prop) :
  Forall (fun p => p < length base) index ->
  (T -> t <> TEnum /\ length index <= length vals /\ Forall (fun y => cell_type_ok t y = true) vals
        /\ Forall (fun y => cell_type_ok t y = true) base) ->
  post (col_ok (length base)) T (do cells <- scatter base index vals; col_of_cells t cells).
Proof.
  intros Hin HT.
  eapply post_bind.
  - eapply post_weaken; [apply scatter_post; exact Hin|intros a _ Ha; exact Ha|].
    intro H. apply HT in H. tauto.
  - intros arr Harr Hlen.
    eapply post_weaken; [apply col_of_cells_post| |].
    + intros r _ [Hl Hw]. split; congruence.
    + intro H. destruct (HT H) as [Ht [_ [Hv Hb]]]. split; [exact Ht|].
      eapply scatter_Forall; [| |exact Harr]; assumption.
Qed.

Lemma scatter_col_post t n index vals (T : Prop) :
  Forall (fun p => p < n) index ->
  (T -> t <> TEnum /\ length index <= length vals /\ Forall (fun y => cell_type_ok t y = true) vals) ->
  post (col_ok n) T (do cells <- scatter (repeat (zero_cell t) n) index vals; col_of_cells t cells).
Proof.
  intros Hin HT.
  pose proof (scatter_base_post t (repeat (zero_cell t) n) index vals T) as H. rewrite repeat_length in H.
  apply H; [exact Hin|]. intro HT'. destruct (HT HT') as [Ht [Hl Hv]]. repeat split; try assumption.
  apply repeat_Forall. apply zero_cell_ok. exact Ht.
Qed.

(* ---- func(T) U tables *)

Definition f1_okb (tbl : list (cell * cell)) (tout : ctype) (c : coldata) (index : list nat) : bool :=
  forallb (fun p => match cell_at c p with
                    | Ok x => match tbl1 tbl x with Ok y => cell_type_ok tout y | _ => false end
                    | _ => true end) index.

Definition f2_okb (tbl : list (cell * cell * cell)) (t : ctype) (c c2 : coldata) (index : list nat) : bool :=
  forallb (fun p => match cell_at c p, cell_at c2 p with
                    | Ok x, Ok y => match tbl2 tbl x y with Ok z => cell_type_ok t z | _ => false end
                    | _, _ => true end) index.

(* the ToUpper oracle answers on the strings of the rows / on the enum's values *)
Definition isSome {A} (o : option A) : bool := match o with Some _ => true | None => false end.
Definition upper_s_okb (ut : upper_table) (d : list (option bytes)) (index : list nat) : bool :=
  forallb (fun p => match nth_error d p with Some (Some b) => isSome (assocb b ut) | _ => true end) index.
Definition upper_e_okb (ut : upper_table) (values : list bytes) : bool :=
  forallb (fun v => isSome (assocb v ut)) values.

Definition fn1_tables_okb (ut : upper_table) (c : coldata) (fn : afn) (index : list nat) : bool :=
  match fn with
  | F1 tin tout tbl => negb (ctype_eqb (col_ftype c) tin && negb (ctype_eqb tout TEnum)) || f1_okb tbl tout c index
  | FBuiltin name =>
      if bytes_eqb name name_ToUpper then
        match c with SCol d => upper_s_okb ut d index | ECol _ vs _ => upper_e_okb ut vs | _ => true end
      else true
  | _ => true
  end.

Definition fn2_tables_okb (c c2 : coldata) (fn : afn) (index : list nat) : bool :=
  match fn with
  | F2 t tbl => negb (ctype_eqb (col_type c) (col_type c2) && ctype_eqb (col_ftype c) t) || f2_okb tbl t c c2 index
  | _ => true
  end.

(* the results of a recorded function over the rows of the index *)
Lemma vals_post (g : nat -> outcome cell) (okp : nat -> bool) (t : ctype) (index : list nat) :
  (forall p, In p index -> g p <> Fail) ->
  (forall p, In p index -> g p = Panic -> okp p = false) ->
  (forall p y, In p index -> g p = Ok y -> okp p = true -> cell_type_ok t y = true) ->
  post (fun vals => length vals = length index /\
                    (forallb okp index = true -> Forall (fun y => cell_type_ok t y = true) vals))
       (forallb okp index = true) (omap g index).
Proof.
  intros Hnf Hp Hty.
  assert (H : post (fun _ => True) (forallb okp index = true) (omap g index)).
  { eapply post_weaken; [apply (omap_post _ (fun _ => True) (forallb okp index = true))|auto|auto].
    intros p Hin. destruct (g p) as [y| |] eqn:E; cbn [post]; auto.
    - exact (Hnf p Hin E).
    - intro HT. rewrite forallb_forall in HT. specialize (HT p Hin). rewrite (Hp p Hin E) in HT. discriminate. }
  destruct (omap g index) as [vals| |] eqn:E; cbn [post] in *; try exact H.
  split; [eapply omap_length; exact E|]. intro HT. rewrite forallb_forall in HT.
  eapply omap_out; [exact E|]. intros p y Hin Hy. apply (Hty p y Hin Hy). apply HT. exact Hin.
Qed.

Lemma tbl1_no_fail tbl x : tbl1 tbl x <> Fail.
Proof. unfold tbl1. destruct (find _ tbl); discriminate. Qed.
Lemma tbl2_no_fail tbl x y : tbl2 tbl x y <> Fail.
Proof. unfold tbl2. destruct (find _ tbl); discriminate. Qed.

Lemma f1_vals_post tbl tout c index n :
  col_ok n c -> Forall (fun p => p < n) index ->
  post (fun vals => length vals = length index /\
                    (f1_okb tbl tout c index = true -> Forall (fun y => cell_type_ok tout y = true) vals))
       (f1_okb tbl tout c index = true)
       (omap (fun p => do x <- cell_at c p; tbl1 tbl x) index).
Proof.
  intros [Hl Hw] Hin. rewrite Forall_forall in Hin. unfold f1_okb. apply vals_post.
  - intros p Hp. destruct (cell_at_ok c p Hw) as [x Hx]; [rewrite Hl; auto|]. rewrite Hx. cbn [obind]. apply tbl1_no_fail.
  - intros p Hp. destruct (cell_at_ok c p Hw) as [x Hx]; [rewrite Hl; auto|]. rewrite Hx. cbn [obind]. intros ->. reflexivity.
  - intros p y Hp. destruct (cell_at_ok c p Hw) as [x Hx]; [rewrite Hl; auto|]. rewrite Hx. cbn [obind]. intros ->. auto.
Qed.

Lemma f2_vals_post tbl t c c2 index n :
  col_ok n c -> col_ok n c2 -> Forall (fun p => p < n) index ->
  post (fun vals => length vals = length index /\
                    (f2_okb tbl t c c2 index = true -> Forall (fun y => cell_type_ok t y = true) vals))
       (f2_okb tbl t c c2 index = true)
       (omap (fun p => do x <- cell_at c p; do y <- cell_at c2 p; tbl2 tbl x y) index).
Proof.
  intros [Hl Hw] [Hl2 Hw2] Hin. rewrite Forall_forall in Hin. unfold f2_okb. apply vals_post.
  - intros p Hp. destruct (cell_at_ok c p Hw) as [x Hx]; [rewrite Hl; auto|].
    destruct (cell_at_ok c2 p Hw2) as [y Hy]; [rewrite Hl2; auto|]. rewrite Hx, Hy. cbn [obind]. apply tbl2_no_fail.
  - intros p Hp. destruct (cell_at_ok c p Hw) as [x Hx]; [rewrite Hl; auto|].
    destruct (cell_at_ok c2 p Hw2) as [y Hy]; [rewrite Hl2; auto|]. rewrite Hx, Hy. cbn [obind]. intros ->. reflexivity.
  - intros p z Hp. destruct (cell_at_ok c p Hw) as [x Hx]; [rewrite Hl; auto|].
    destruct (cell_at_ok c2 p Hw2) as [y Hy]; [rewrite Hl2; auto|]. rewrite Hx, Hy. cbn [obind]. intros ->. auto.
Qed.

(* ---- ToUpper on a string column *)

Lemma s_to_upper_post ut d index n :
  col_ok n (SCol d) -> Forall (fun p => p < n) index ->
  post (col_ok n) (upper_s_okb ut d index = true) (s_to_upper ut d index).
Proof.
  intros [Hl Hw] Hin. simpl in Hl. unfold s_to_upper. destruct d as [|s0 d']; [split; [exact Hl|reflexivity]|].
  set (d := s0 :: d') in *.
  eapply post_bind.
  - unfold upper_s_okb. apply (vals_post _ _ TString).
    + intros p Hp. unfold idx. destruct (nth_error d p) as [[b|]|]; cbn; try discriminate.
      unfold upper_of. destruct (assocb b ut); cbn; discriminate.
    + intros p Hp. unfold idx. destruct (nth_error d p) as [[b|]|] eqn:E; cbn; try discriminate.
      * unfold upper_of. destruct (assocb b ut); cbn; [discriminate|reflexivity].
      * apply nth_error_None in E. rewrite Forall_forall in Hin. specialize (Hin p Hp). lia.
    + intros p y Hp. unfold idx. destruct (nth_error d p) as [[b|]|]; cbn; try discriminate.
      * unfold upper_of. destruct (assocb b ut); cbn; try discriminate. intro H; inversion H; reflexivity.
      * intro H; inversion H; reflexivity.
  - intros vals _ [Hlen Hty].
    pose proof (scatter_base_post TString (map (fun _ => CStr (Some [])) d) index vals (upper_s_okb ut d index = true)) as H.
    rewrite map_length, Hl in H. apply H; [exact Hin|].
    intro HT. repeat split; [discriminate|lia|exact (Hty HT)|].
    clear. induction d; simpl; constructor; auto.
Qed.

(* ---- ToUpper on an enum column *)

Definition up_step : list bytes * list N * bool -> bytes -> list bytes * list N * bool :=
  fun '(nv, o2n, mg) u =>
    match find_value nv u 0 with
    | Some r => (nv, o2n ++ [r], true)
    | None => (nv ++ [u], o2n ++ [N.of_nat (length nv)], mg)
    end.

Lemma find_value_lt : forall vs s i r, find_value vs s i = Some r -> N.to_nat i <= N.to_nat r < N.to_nat i + length vs.
Proof.
  induction vs as [|v vs IH]; intros s i r H; simpl in H; [discriminate|].
  destruct (bytes_eqb v s).
  - inversion H; subst. simpl. lia.
  - apply IH in H. simpl. lia.
Qed.

Lemma up_fold : forall ups nv o2n mg nv' o2n' mg',
  fold_left up_step ups (nv, o2n, mg) = (nv', o2n', mg') ->
  Forall (fun r => N.to_nat r < length nv) o2n -> length nv <= length o2n -> (mg = false -> length nv = length o2n) ->
  Forall (fun r => N.to_nat r < length nv') o2n' /\ length o2n' = length o2n + length ups
  /\ length nv' <= length o2n' /\ (mg' = false -> length nv' = length o2n').
Proof.
  induction ups as [|u ups IH]; intros nv o2n mg nv' o2n' mg' H Hall Hle Hmg.
  - simpl in H. inversion H; subst. repeat split; auto.
  - simpl in H. destruct (find_value nv u 0) as [r|] eqn:E.
    + apply IH in H.
      * rewrite app_length in H. cbn [length] in *. destruct H as [H1 [H2 [H3 H4]]]. repeat split; auto. clear - H2. lia.
      * apply Forall_app. split; [exact Hall|]. constructor; [|constructor]. apply find_value_lt in E. simpl in E. lia.
      * rewrite app_length. simpl. lia.
      * discriminate.
    + apply IH in H.
      * rewrite !app_length in H. cbn [length] in *. destruct H as [H1 [H2 [H3 H4]]]. repeat split; auto. clear - H2. lia.
      * apply Forall_app. split.
        -- eapply Forall_impl; [|exact Hall]. intros a Ha. cbv beta in Ha. rewrite app_length. simpl. lia.
        -- constructor; [|constructor]. rewrite app_length. simpl. lia.
      * rewrite !app_length. simpl. lia.
      * intro Hm. rewrite !app_length. simpl. rewrite (Hmg Hm). reflexivity.
Qed.

Lemma upper_of_post ut values :
  post (fun ups => length ups = length values) (upper_e_okb ut values = true) (omap (upper_of ut) values).
Proof.
  eapply post_weaken; [apply (omap_post _ (fun _ => True) (upper_e_okb ut values = true))| |auto].
  - intros v Hv. unfold upper_of. destruct (assocb v ut) eqn:E; cbn; auto.
    intro HT. unfold upper_e_okb in HT. rewrite forallb_forall in HT. specialize (HT v Hv). rewrite E in HT. discriminate.
  - intros a _ [H _]. exact H.
Qed.

Lemma e_to_upper_post ut d values st n :
  col_ok n (ECol d values st) ->
  post (col_ok n) (upper_e_okb ut values = true) (e_to_upper ut d values).
Proof.
  intros [Hl Hw]. cbn [col_len col_wf] in Hl, Hw. apply andb_true_iff in Hw as [Hr Hcard].
  unfold e_to_upper.
  eapply post_bind; [apply upper_of_post|]. intros ups _ Hups. cbv beta in Hups.
  change (fold_left _ ups ([], [], false)) with (fold_left up_step ups ([], [], false)).
  destruct (fold_left up_step ups ([], [], false)) as [[nv o2n] mg] eqn:E.
  apply up_fold in E; [|constructor|simpl; lia|reflexivity]. destruct E as [E1 [E2 [E3 E4]]]. simpl in E2.
  rewrite forallb_forall in Hr.
  assert (Hcard' : (length nv <=? N.to_nat c_maxCardinality) = true).
  { apply Nat.leb_le. apply Nat.leb_le in Hcard. lia. }
  destruct mg.
  - eapply post_bind.
    + apply (omap_post _ (fun r => enum_rank_ok nv r = true)).
      intros r Hin. specialize (Hr r Hin). unfold enum_rank_ok in *. destruct (enum_is_null r) eqn:En; cbn [post].
      * rewrite En. reflexivity.
      * simpl in Hr. apply Nat.ltb_lt in Hr.
        destruct (idx_ok o2n (N.to_nat r)) as [x [Hx Hxin]]; [lia|]. rewrite Hx. cbn [post].
        rewrite Forall_forall in E1. specialize (E1 x Hxin). apply orb_true_iff. right. apply Nat.ltb_lt. exact E1.
    + intros nd _ [Hnl Hnd]. cbn [post]. split; [simpl; lia|]. simpl. apply andb_true_iff. split; [|exact Hcard'].
      apply forallb_forall. rewrite Forall_forall in Hnd. exact Hnd.
  - cbn [post]. split; [exact Hl|]. simpl. apply andb_true_iff. split; [|exact Hcard'].
    apply forallb_forall. intros r Hin. specialize (Hr r Hin). unfold enum_rank_ok in *.
    rewrite (E4 eq_refl), E2, Hups. exact Hr.
Qed.

(* ---- Column.Apply1 / Apply2 *)

Lemma assocb_key_only {A} (k : bytes) (t : list (bytes * A)) name v :
  forallb (fun kv => bytes_eqb (fst kv) k) t = true -> assocb name t = Some v -> bytes_eqb name k = true.
Proof.
  induction t as [|[n0 v0] t IH]; simpl; intros H Ha; [discriminate|].
  apply andb_true_iff in H as [H1 H2].
  destruct (bytes_eqb n0 name) eqn:E; [|exact (IH H2 Ha)].
  apply bytes_eqb_spec in E; subst. exact H1.
Qed.

(* generated obligation: the only built in Apply function of string and enum columns is ToUpper *)
Lemma apply_tables_only_toupper :
  forallb (fun kv => bytes_eqb (fst kv) name_ToUpper) t_s_apply = true
  /\ forallb (fun kv => bytes_eqb (fst kv) name_ToUpper) t_e_apply = true.
Proof. split; vm_compute; reflexivity. Qed.

Lemma col_ftype_not_enum c : col_ftype c <> TEnum.
Proof. destruct c; discriminate. Qed.

Lemma col_apply1_post ut c fn index n :
  col_ok n c -> Forall (fun p => p < n) index ->
  postf (col_ok n) (fn1_tables_okb ut c fn index = true) (col_apply1 ut c fn index).
Proof.
  intros Hc Hin. unfold col_apply1, fn1_tables_okb.
  destruct fn as [t vals|k|m|tin tout tbl|t tbl|name|]; try exact I.
  - destruct (ctype_eqb (col_ftype c) tin && negb (ctype_eqb tout TEnum)) eqn:Econd; [|exact I].
    cbn [negb orb]. apply post_postf.
    apply andb_true_iff in Econd as [_ Hte].
    eapply post_bind; [apply (f1_vals_post tbl tout c index n Hc Hin)|].
    intros vals _ [Hlen Hty]. destruct Hc as [Hl Hw]. rewrite Hl.
    apply scatter_col_post; [exact Hin|]. intro HT. repeat split; [|lia|exact (Hty HT)].
    intros ->. discriminate.
  - destruct c as [d|d|d|d|d vs st]; try exact I.
    + destruct (assocb name t_s_apply) as [v|] eqn:Ea; [|exact I].
      rewrite (assocb_key_only _ _ _ _ (proj1 apply_tables_only_toupper) Ea).
      apply post_postf. apply s_to_upper_post; assumption.
    + destruct (assocb name t_e_apply) as [v|] eqn:Ea; [|exact I].
      rewrite (assocb_key_only _ _ _ _ (proj2 apply_tables_only_toupper) Ea).
      apply post_postf. eapply e_to_upper_post; eassumption.
Qed.

Lemma col_apply2_post c c2 fn index n :
  col_ok n c -> col_ok n c2 -> Forall (fun p => p < n) index ->
  postf (col_ok n) (fn2_tables_okb c c2 fn index = true) (col_apply2 c c2 fn index).
Proof.
  intros Hc Hc2 Hin. unfold col_apply2, fn2_tables_okb.
  destruct (ctype_eqb (col_type c) (col_type c2)); [|exact I]. cbn [negb andb].
  destruct fn as [t vals|k|m|tin tout tbl|t tbl|name|]; try exact I.
  destruct (ctype_eqb (col_ftype c) t) eqn:Et; [|exact I]. cbn [negb orb].
  apply post_postf.
  eapply post_bind; [apply (f2_vals_post tbl t c c2 index n Hc Hc2 Hin)|].
  intros vals _ [Hlen Hty]. destruct Hc as [Hl Hw]. rewrite Hl.
  apply scatter_col_post; [exact Hin|]. intro HT. repeat split; [|lia|exact (Hty HT)].
  apply ctype_eqb_eq in Et. subst t. apply col_ftype_not_enum.
Qed.

(* ------------------------------------------------------------------ Apply *)

(* premise of one instruction on the frame it runs on: the recorded tables answer on the cells the
   instruction reads, the recorded stream is long enough, the results have the declared type, and the
   instruction is no junk value (func() enum, enum constant) *)
Definition instr_tables_okb (ut : upper_table) (f : frame) (i : instr) : bool :=
  if ferr f then true
  else if empty_name (isrc1 i) then
    match ifn i with
    | F0Stream t vals => negb (ctype_eqb t TEnum) && (length (ix f) <=? length vals) && forallb (cell_type_ok t) vals
    | F0Const (CEnum _) => false
    | _ => true
    end
  else if empty_name (isrc2 i) then
    match lookup_col f (isrc1 i) with
    | Some c => fn1_tables_okb ut c (ifn i) (ix f)
    | None => true
    end
  else
    match lookup_col f (isrc1 i), lookup_col f (isrc2 i) with
    | Some c1, Some c2 => fn2_tables_okb c1 c2 (ifn i) (ix f)
    | _, _ => true
    end.

Lemma const_col_ok c n : post (col_ok n) (match c with CEnum _ => False | _ => True end) (const_col c n).
Proof. destruct c; simpl; try (split; [apply repeat_length|reflexivity]). auto. Qed.

Lemma apply_instr_post ut f i :
  WF f -> post (kept f) (instr_tables_okb ut f i = true) (apply_instr ut f i).
Proof.
  intro H. unfold apply_instr, instr_tables_okb.
  destruct (empty_name (isrc1 i)); [|destruct (empty_name (isrc2 i))].
  - unfold apply0. destruct (ferr f); [apply kept_refl; exact H|].
    destruct (ifn i) as [t vals|k|m|tin tout tbl|t tbl|name|]; try (apply kept_err; exact H).
    + destruct (ctype_eqb t TEnum) eqn:Et; [cbn; discriminate|]. cbn [negb andb].
      replace (do cells <- scatter (repeat (zero_cell t) (phys_len f)) (ix f) vals;
               do c <- col_of_cells t cells; Ok (set_column f (idst i) c))
        with (do c <- (do cells <- scatter (repeat (zero_cell t) (phys_len f)) (ix f) vals; col_of_cells t cells);
              Ok (set_column f (idst i) c))
        by (destruct (scatter (repeat (zero_cell t) (phys_len f)) (ix f) vals); reflexivity).
      eapply post_bind.
      * apply scatter_col_post; [apply H|]. intro HT. apply andb_true_iff in HT as [HT1 HT2].
        apply Nat.leb_le in HT1. repeat split; [|exact HT1|apply forallb_Forall; exact HT2].
        intros ->. discriminate.
      * intros c _ Hc. cbn [post]. apply set_column_kept; assumption.
    + destruct (Nat.eqb (length (ix f)) (phys_len f)).
      * eapply post_bind.
        -- apply (post_weaken (col_ok (phys_len f)) (col_ok (phys_len f)) _ _ _ (const_col_ok k (phys_len f))); [intros a _ Ha; exact Ha|].
           destruct k; cbn; auto; intro HT; discriminate HT.
        -- intros c _ Hc. cbn [post]. apply set_column_kept; assumption.
      * destruct (const_type k) as [t|] eqn:Ek.
        -- replace (do cells <- scatter (repeat (zero_cell t) (phys_len f)) (ix f) (repeat k (length (ix f)));
                    do c <- col_of_cells t cells; Ok (set_column f (idst i) c))
             with (do c <- (do cells <- scatter (repeat (zero_cell t) (phys_len f)) (ix f) (repeat k (length (ix f)));
                            col_of_cells t cells);
                   Ok (set_column f (idst i) c))
             by (destruct (scatter (repeat (zero_cell t) (phys_len f)) (ix f) (repeat k (length (ix f)))); reflexivity).
           eapply post_bind.
           ++ apply scatter_col_post; [apply H|]. intros _.
              destruct k; inversion Ek; subst; (split; [discriminate|]); (split; [rewrite repeat_length; lia|]);
                apply repeat_Forall; reflexivity.
           ++ intros c _ Hc. cbn [post]. apply set_column_kept; assumption.
        -- destruct k; try discriminate Ek. cbn. intro HT; discriminate HT.
    + cbn [post]. apply copy_kept. exact H.
  - unfold apply1. destruct (ferr f); [apply kept_refl; exact H|].
    destruct (lookup_col f (isrc1 i)) as [c|] eqn:El; [|apply kept_err; exact H].
    pose proof (col_apply1_post ut c (ifn i) (ix f) (phys_len f) (WF_lookup f _ c H El) (proj2 H)) as Hp.
    destruct (col_apply1 ut c (ifn i) (ix f)) as [r| |]; cbn [post postf] in *.
    + apply set_column_kept; assumption.
    + apply kept_err; exact H.
    + exact Hp.
  - unfold apply2. destruct (ferr f); [apply kept_refl; exact H|].
    destruct (lookup_col f (isrc1 i)) as [c1|] eqn:El1; [|apply kept_err; exact H].
    destruct (lookup_col f (isrc2 i)) as [c2|] eqn:El2; [|apply kept_err; exact H].
    pose proof (col_apply2_post c1 c2 (ifn i) (ix f) (phys_len f) (WF_lookup f _ c1 H El1) (WF_lookup f _ c2 H El2) (proj2 H)) as Hp.
    destruct (col_apply2 c1 c2 (ifn i) (ix f)) as [r| |]; cbn [post postf] in *.
    + apply set_column_kept; assumption.
    + apply kept_err; exact H.
    + exact Hp.
Qed.

Lemma ofold_nil {A B} (g : B -> A -> outcome B) b : ofold g [] b = Ok b.
Proof. reflexivity. Qed.
Lemma ofold_cons {A B} (g : B -> A -> outcome B) l x b :
  ofold g (x :: l) b = do b' <- g b x; ofold g l b'.
Proof.
  unfold ofold. simpl.
  destruct (g b x) as [b'| |]; simpl; [reflexivity| |]; induction l as [|y l IH]; simpl; auto.
Qed.

(* the premise of a whole Apply: each instruction's tables answer on the frame that instruction runs on *)
Fixpoint apply_tables_okb (ut : upper_table) (f : frame) (is : list instr) : bool :=
  match is with
  | [] => true
  | i :: is' => instr_tables_okb ut f i
                && match apply_instr ut f i with Ok g => apply_tables_okb ut g is' | _ => true end
  end.

Lemma apply_post ut : forall is f,
  WF f -> post (kept f) (apply_tables_okb ut f is = true) (apply ut f is).
Proof.
  unfold apply. induction is as [|i is IH]; intros f H.
  - rewrite ofold_nil. cbn [post]. apply kept_refl. exact H.
  - rewrite ofold_cons. cbn [apply_tables_okb].
    eapply post_bind.
    + eapply post_weaken; [apply (apply_instr_post ut f i H)|intros a _ Ha; exact Ha|].
      intro HT. apply andb_true_iff in HT. tauto.
    + intros g Hg Hk. eapply post_weaken; [apply (IH g); apply Hk| |].
      * intros h _ Hh. eapply kept_trans; eassumption.
      * intro HT. apply andb_true_iff in HT as [_ HT]. rewrite Hg in HT. exact HT.
Qed.

Lemma with_row_nums_tables f name : apply_tables_okb [] f
   [mkInstr (F0Stream TInt (map (fun k => CInt (Z.of_nat k)) (seq 0 (length (ix f))))) name [] []] = true.
Proof.
  cbn [apply_tables_okb]. apply andb_true_iff. split.
  - unfold instr_tables_okb. destruct (ferr f); [reflexivity|]. cbn [isrc1 empty_name length Nat.eqb ifn ctype_eqb negb andb].
    apply andb_true_iff. split.
    + apply Nat.leb_le. rewrite map_length, seq_length. lia.
    + apply forallb_forall. intros x Hx. apply in_map_iff in Hx as [k [<- _]]. reflexivity.
  - destruct (apply_instr [] f _); reflexivity.
Qed.

Lemma with_row_nums_post f name : WF f -> post (kept f) True (with_row_nums f name).
Proof.
  intro H. unfold with_row_nums.
  eapply post_weaken; [apply apply_post; exact H|auto|]. intros _. apply with_row_nums_tables.
Qed.

(* ------------------------------------------------------------------ a type discipline for the generated kernels *)

Inductive kty := KTZ | KTF | KTB | KTS | KTE.
Definition kty_eqb (a b : kty) : bool :=
  match a, b with KTZ, KTZ | KTF, KTF | KTB, KTB | KTS, KTS | KTE, KTE => true | _, _ => false end.
Lemma kty_eqb_eq a b : kty_eqb a b = true -> a = b.
Proof. destruct a, b; simpl; congruence. Qed.

Definition kval_ty (v : kval) : option kty :=
  match v with VZ _ => Some KTZ | VF _ => Some KTF | VB _ => Some KTB | VS _ => Some KTS | VE _ => Some KTE | VBad => None end.

(* typing context: the type of the filtered column's cells, of the argument column's cells (if there is one),
   of the scalar comparatee (if there is one) *)
Record kctx := mkKctx { g_cell0 : kty; g_cell1 : option kty; g_const : option kty }.

Definition ordered (t : kty) : bool := match t with KTB => false | _ => true end.

(* Some t: the expression evaluates without Panic to a value of type t in every environment matching the
   context.  The user predicate call (KCallFn) is not typed here: the two custom kernels are treated directly. *)
Fixpoint ktype (G : kctx) (e : kexpr) : option kty :=
  let rel (needs_order : bool) a b :=
    match ktype G a, ktype G b with
    | Some ta, Some tb => if kty_eqb ta tb && (negb needs_order || ordered ta) then Some KTB else None
    | _, _ => None
    end in
  let un (t : kty -> option kty) a := match ktype G a with Some ta => t ta | None => None end in
  match e with
  | KCell O => Some (g_cell0 G)
  | KCell (S _) => g_cell1 G
  | KConst => g_const G
  | KLit _ => Some KTZ
  | KTrue | KFalse => Some KTB
  | KLt a b | KLe a b | KGt a b | KGe a b => rel true a b
  | KEq a b | KNe a b => rel false a b
  | KAnd a b | KOr a b =>
      match ktype G a, ktype G b with Some KTB, Some KTB => Some KTB | _, _ => None end
  | KNot a => un (fun t => match t with KTB => Some KTB | _ => None end) a
  | KBitAnd a b => match ktype G a, ktype G b with Some KTZ, Some KTZ => Some KTZ | _, _ => None end
  | KIsNaN a => un (fun t => match t with KTF => Some KTB | _ => None end) a
  | KIsNull a => un (fun t => match t with KTS | KTE => Some KTB | _ => None end) a
  | KCompVal a => un (fun t => match t with KTE => Some KTZ | _ => None end) a
  | KInSet a => un (fun _ => Some KTB) a
  | KMatches a => un (fun t => match t with KTS => Some KTB | _ => None end) a
  | KBitsetIsSet a => un (fun t => match t with KTE => Some KTB | _ => None end) a
  | KCallFn _ => None
  | KBad => None
  end.

Definition env_typed (G : kctx) (env : kenv) (p : nat) : Prop :=
  (exists v, k_cell env 0 p = Ok v /\ kval_ty v = Some (g_cell0 G))
  /\ (forall t n, g_cell1 G = Some t -> exists v, k_cell env (S n) p = Ok v /\ kval_ty v = Some t)
  /\ (forall t, g_const G = Some t -> kval_ty (k_const env) = Some t).

Definition evals_to (env : kenv) (p : nat) (e : kexpr) (t : kty) : Prop :=
  exists v, keval env p e = Ok v /\ kval_ty v = Some t.

Lemma kcompare_typed which x y t (needs_order : bool) :
  kval_ty x = Some t -> kval_ty y = Some t ->
  (which < 6)%N -> (needs_order = true -> (which < 4)%N /\ ordered t = true) ->
  (needs_order = false -> (4 <= which)%N) ->
  exists r, kcompare which x y = Ok r.
Proof.
  intros Hx Hy Hw Ho Hn.
  destruct x, y; simpl in Hx, Hy; try discriminate; try congruence; simpl;
    try (unfold cmp3; eexists; reflexivity).
  (* booleans *)
  destruct needs_order.
  - destruct (Ho eq_refl) as [_ Hord]. inversion Hx; subst. discriminate.
  - specialize (Hn eq_refl).
    assert (Hc : which = 4%N \/ which = 5%N) by lia. destruct Hc as [-> | ->]; eexists; reflexivity.
Qed.

Lemma ktype_sound G env p : env_typed G env p -> forall e t, ktype G e = Some t -> evals_to env p e t.
Proof.
  intros [H0 [H1 Hc]].
  assert (Hrel : forall which needs_order a b t,
            (forall t, ktype G a = Some t -> evals_to env p a t) ->
            (forall t, ktype G b = Some t -> evals_to env p b t) ->
            (which < 6)%N -> (needs_order = true -> (which < 4)%N) -> (needs_order = false -> (4 <= which)%N) ->
            match ktype G a, ktype G b with
            | Some ta, Some tb => if kty_eqb ta tb && (negb needs_order || ordered ta) then Some KTB else None
            | _, _ => None
            end = Some t ->
            exists v, (do x <- keval env p a; do y <- keval env p b; do r <- kcompare which x y; Ok (VB r)) = Ok v
                      /\ kval_ty v = Some t).
  { intros which no a b t IHa IHb Hw Ho Hn H.
    destruct (ktype G a) as [ta|]; [|discriminate]. destruct (ktype G b) as [tb|]; [|discriminate].
    destruct (kty_eqb ta tb && (negb no || ordered ta)) eqn:Ec; [|discriminate]. inversion H; subst t.
    apply andb_true_iff in Ec as [Eq Eo]. apply kty_eqb_eq in Eq. subst tb.
    destruct (IHa ta eq_refl) as [x [Hx Tx]]. destruct (IHb ta eq_refl) as [y [Hy Ty]].
    rewrite Hx, Hy. cbn [obind].
    destruct (kcompare_typed which x y ta no Tx Ty Hw) as [r Hr].
    - intro Hno. split; [apply Ho; exact Hno|]. subst no. simpl in Eo. exact Eo.
    - exact Hn.
    - rewrite Hr. cbn [obind]. eexists; split; reflexivity. }
  induction e as [n| |z| | |a IHa b IHb|a IHa b IHb|a IHa b IHb|a IHa b IHb|a IHa b IHb|a IHa b IHb
                 |a IHa b IHb|a IHa b IHb|a IHa|a IHa b IHb|a IHa|a IHa|a IHa|a IHa|a IHa|a IHa|args|];
    intros t Ht; cbn [ktype] in Ht; unfold evals_to; cbn [keval].
  - destruct n as [|n].
    + inversion Ht; subst. exact H0.
    + exact (H1 t n Ht).
  - eexists; split; [reflexivity|]. exact (Hc t Ht).
  - inversion Ht; subst. eexists; split; reflexivity.
  - inversion Ht; subst. eexists; split; reflexivity.
  - inversion Ht; subst. eexists; split; reflexivity.
  - apply (Hrel 0%N true a b t IHa IHb); first [exact Ht | lia | discriminate | (intros _; lia)].
  - apply (Hrel 1%N true a b t IHa IHb); first [exact Ht | lia | discriminate | (intros _; lia)].
  - apply (Hrel 2%N true a b t IHa IHb); first [exact Ht | lia | discriminate | (intros _; lia)].
  - apply (Hrel 3%N true a b t IHa IHb); first [exact Ht | lia | discriminate | (intros _; lia)].
  - apply (Hrel 4%N false a b t IHa IHb); first [exact Ht | lia | discriminate | (intros _; lia)].
  - apply (Hrel 5%N false a b t IHa IHb); first [exact Ht | lia | discriminate | (intros _; lia)].
  - destruct (ktype G a) as [[]|]; try discriminate. destruct (ktype G b) as [[]|]; try discriminate.
    inversion Ht; subst. destruct (IHa KTB eq_refl) as [x [Hx Tx]]. destruct (IHb KTB eq_refl) as [y [Hy Ty]].
    rewrite Hx. cbn [obind]. destruct x; try discriminate. cbn [as_bool obind].
    destruct b0; [rewrite Hy; eexists; split; [reflexivity|exact Ty]|eexists; split; reflexivity].
  - destruct (ktype G a) as [[]|]; try discriminate. destruct (ktype G b) as [[]|]; try discriminate.
    inversion Ht; subst. destruct (IHa KTB eq_refl) as [x [Hx Tx]]. destruct (IHb KTB eq_refl) as [y [Hy Ty]].
    rewrite Hx. cbn [obind]. destruct x; try discriminate. cbn [as_bool obind].
    destruct b0; [eexists; split; reflexivity|rewrite Hy; eexists; split; [reflexivity|exact Ty]].
  - destruct (ktype G a) as [[]|]; try discriminate. inversion Ht; subst.
    destruct (IHa KTB eq_refl) as [x [Hx Tx]]. rewrite Hx. cbn [obind]. destruct x; try discriminate.
    eexists; split; reflexivity.
  - destruct (ktype G a) as [[]|]; try discriminate. destruct (ktype G b) as [[]|]; try discriminate.
    inversion Ht; subst. destruct (IHa KTZ eq_refl) as [x [Hx Tx]]. destruct (IHb KTZ eq_refl) as [y [Hy Ty]].
    rewrite Hx, Hy. cbn [obind]. destruct x; try discriminate. destruct y; try discriminate. eexists; split; reflexivity.
  - destruct (ktype G a) as [[]|]; try discriminate. inversion Ht; subst.
    destruct (IHa KTF eq_refl) as [x [Hx Tx]]. rewrite Hx. cbn [obind]. destruct x; try discriminate.
    eexists; split; reflexivity.
  - destruct (ktype G a) as [ta|] eqn:Ea; [|discriminate].
    destruct (IHa ta eq_refl) as [x [Hx Tx]]. rewrite Hx. cbn [obind].
    destruct ta; try discriminate; inversion Ht; subst; destruct x; try discriminate; eexists; split; reflexivity.
  - destruct (ktype G a) as [[]|]; try discriminate. inversion Ht; subst.
    destruct (IHa KTE eq_refl) as [x [Hx Tx]]. rewrite Hx. cbn [obind]. destruct x; try discriminate.
    eexists; split; reflexivity.
  - destruct (ktype G a) as [ta|] eqn:Ea; [|discriminate]. inversion Ht; subst.
    destruct (IHa ta eq_refl) as [x [Hx Tx]]. rewrite Hx. cbn [obind]. eexists; split; reflexivity.
  - destruct (ktype G a) as [[]|]; try discriminate. inversion Ht; subst.
    destruct (IHa KTS eq_refl) as [x [Hx Tx]]. rewrite Hx. cbn [obind]. destruct x; try discriminate.
    eexists; split; reflexivity.
  - destruct (ktype G a) as [[]|]; try discriminate. inversion Ht; subst.
    destruct (IHa KTE eq_refl) as [x [Hx Tx]]. rewrite Hx. cbn [obind]. destruct x; try discriminate.
    eexists; split; reflexivity.
  - discriminate.
  - discriminate.
Qed.

(* ------------------------------------------------------------------ typed kernels run without Panic *)

Definition kernel_typed_direct (G : kctx) (k : kernel) : bool :=
  match k with
  | KNoOp | KFill _ => true
  | KGuarded _ e => match ktype G e with Some KTB => true | _ => false end
  | KGuardedIf _ c e => match ktype G c, ktype G e with Some KTB, Some KTB => true | _, _ => false end
  | KDelegate _ _ => false
  end.

Definition kernel_typed (G : kctx) (d : bytes -> option kernel) (k : kernel) : bool :=
  match k with
  | KDelegate fn _ => match d fn with Some k' => kernel_typed_direct G k' | None => false end
  | _ => kernel_typed_direct G k
  end.

Lemma Forall2_len {A B} (R : A -> B -> Prop) l l' : Forall2 R l l' -> length l = length l'.
Proof. induction 1; simpl; congruence. Qed.

Lemma guarded_len env c e : forall b index r,
  length index = length b -> guarded_loop env c e index b = Ok r -> length r = length b.
Proof.
  intros b index r Hlen H. pose proof (guarded_loop_local env c e b index r Hlen H) as HL.
  apply Forall2_len in HL. rewrite combine_length in HL. lia.
Qed.

Lemma guarded_typed G env c e index b :
  length index = length b -> (forall p, In p index -> env_typed G env p) ->
  ktype G e = Some KTB -> (match c with Some ce => ktype G ce = Some KTB | None => True end) ->
  exists r, guarded_loop env c e index b = Ok r /\ length r = length b.
Proof.
  intros Hlen Henv He Hc.
  destruct (guarded_loop_total env c e b index Hlen) as [r Hr].
  - intros p Hp. specialize (Henv p Hp). unfold body_point.
    destruct (ktype_sound G env p Henv e KTB He) as [v [Hv Tv]].
    destruct v; try discriminate.
    destruct c as [ce|].
    + destruct (ktype_sound G env p Henv ce KTB Hc) as [w [Hw Tw]]. destruct w; try discriminate.
      rewrite Hw. cbn [obind as_bool]. destruct b1; [rewrite Hv; eexists; reflexivity|eexists; reflexivity].
    + cbn [obind]. rewrite Hv. eexists; reflexivity.
  - exists r. split; [exact Hr|]. eapply guarded_len; eassumption.
Qed.

Lemma direct_typed G env k index b :
  kernel_typed_direct G k = true -> length index = length b -> (forall p, In p index -> env_typed G env p) ->
  exists r, match k with
            | KNoOp => Ok b
            | KFill v => Ok (map (fun _ => v) b)
            | KGuarded _ e => guarded_loop env None e index b
            | KGuardedIf _ c e => guarded_loop env (Some c) e index b
            | KDelegate _ _ => Panic
            end = Ok r /\ length r = length b.
Proof.
  intros Hk Hlen Henv. destruct k as [|v|pre e|pre c e|fn fl]; simpl in Hk; try discriminate.
  - exists b. auto.
  - eexists. split; [reflexivity|apply map_length].
  - destruct (ktype G e) as [[]|] eqn:E; try discriminate. eapply guarded_typed; eauto.
  - destruct (ktype G c) as [[]|] eqn:Ec; try discriminate. destruct (ktype G e) as [[]|] eqn:E; try discriminate.
    eapply guarded_typed; eauto.
Qed.

Lemma run_kernel_typed G d env k index b :
  kernel_typed G d k = true -> length index = length b -> (forall p, In p index -> env_typed G env p) ->
  exists r, run_kernel d env k index b = Ok r /\ length r = length b.
Proof.
  intros Hk Hlen Henv. unfold run_kernel.
  destruct k as [|v|pre e|pre c e|fn fl]; try (apply (direct_typed G env _ index b Hk Hlen Henv)).
  simpl in Hk. destruct (d fn) as [k'|]; [|discriminate]. apply (direct_typed G env k' index b Hk Hlen Henv).
Qed.

Definition fname_typed (letter : N) (G : kctx) (fname : bytes) : bool :=
  match kernel_named g_kernels (kname letter fname) with
  | Some k => kernel_typed G (delegates letter) k
  | None => false
  end.
Definition table_typed (letter : N) (G : kctx) (t : list (bytes * bytes)) : bool :=
  forallb (fun kv => fname_typed letter G (snd kv)) t.

Lemma run_typed letter G fname env index b :
  fname_typed letter G fname = true -> length index = length b -> (forall p, In p index -> env_typed G env p) ->
  exists r, run letter fname env index b = Ok r /\ length r = length b.
Proof.
  unfold fname_typed, run. intros Hk Hlen Henv.
  destruct (kernel_named g_kernels (kname letter fname)) as [k|]; [|discriminate].
  eapply run_kernel_typed; eassumption.
Qed.

Lemma assocb_In {A} (k : bytes) (t : list (bytes * A)) v : assocb k t = Some v -> exists k', In (k', v) t.
Proof.
  induction t as [|[n0 v0] t IH]; simpl; intro H; [discriminate|].
  destruct (bytes_eqb n0 k).
  - inversion H; subst. exists n0. left. reflexivity.
  - destruct (IH H) as [k' Hk']. exists k'. right. exact Hk'.
Qed.

Lemma assocb_In_key {A} (k : bytes) (t : list (bytes * A)) v : assocb k t = Some v -> In (k, v) t.
Proof.
  induction t as [|[n0 v0] t IH]; simpl; intro H; [discriminate|].
  destruct (bytes_eqb n0 k) eqn:E.
  - inversion H; subst. apply bytes_eqb_spec in E. subst. left. reflexivity.
  - right. exact (IH H).
Qed.

Lemma table_fname letter G t cmp fname :
  table_typed letter G t = true -> assocb cmp t = Some fname -> fname_typed letter G fname = true.
Proof.
  unfold table_typed. rewrite forallb_forall. intros H Ha. destruct (assocb_In _ _ _ Ha) as [k' Hk']. exact (H _ Hk').
Qed.

Lemma run_tbl_typed letter G t cmp env index b (T : Prop) :
  table_typed letter G t = true -> length index = length b -> (forall p, In p index -> env_typed G env p) ->
  postf (fun r => length r = length b) T (run_tbl t letter cmp env index b).
Proof.
  intros Ht Hlen Henv. unfold run_tbl. destruct (assocb cmp t) as [fname|] eqn:Ea; [|exact I].
  destruct (run_typed letter G fname env index b (table_fname _ _ _ _ _ Ht Ea) Hlen Henv) as [r [Hr Hl]].
  rewrite Hr. exact Hl.
Qed.

(* ---- the typing contexts of the call sites of Model/Filter.v and the generated obligation *)

Definition G0 (t : kty) := mkKctx t None None.
Definition G1 (t : kty) := mkKctx t None (Some t).
Definition G2 (t : kty) := mkKctx t (Some t) None.

Lemma generated_kernels_typed :
  table_typed L_i (G1 KTZ) t_i_filter1 && table_typed L_i (G0 KTZ) t_i_filterN
  && table_typed L_i (G2 KTZ) t_i_filter2 && table_typed L_i (G0 KTZ) t_i_filter0
  && table_typed L_f (G0 KTF) t_f_filter0 && table_typed L_f (G1 KTF) t_f_filter1 && table_typed L_f (G2 KTF) t_f_filter2
  && table_typed L_b (G1 KTB) t_b_filter1 && table_typed L_b (G2 KTB) t_b_filter2
  && table_typed L_s (G0 KTS) t_s_filter0 && table_typed L_s (G1 KTS) t_s_filter1
  && table_typed L_s (G0 KTS) t_s_filterN && table_typed L_s (G2 KTS) t_s_filter2
  && table_typed L_e (G0 KTE) t_e_filter0 && table_typed L_e (G1 KTE) t_e_filter1 && table_typed L_e (G2 KTE) t_e_filter2
  && fname_typed L_e (G0 KTE) fname_filterWithBitset
  && forallb (fun kv => isSome (is_like (snd kv))) t_e_filterLike = true.
Proof. vm_compute. reflexivity. Qed.

(* ---- environments *)

Definition raw_ty (c : coldata) : kty :=
  match c with ICol _ => KTZ | FCol _ => KTF | BCol _ => KTB | SCol _ => KTS | ECol _ _ _ => KTE end.

Lemma raw_kval_ok c p : p < col_len c -> exists v, raw_kval c p = Ok v /\ kval_ty v = Some (raw_ty c).
Proof.
  intro Hp. destruct c as [d|d|d|d|d vs st]; simpl in *;
    destruct (idx_ok d p Hp) as [x [Hx _]]; rewrite Hx; eexists; split; reflexivity.
Qed.

(* any environment with the cells and the constant of base_env *)
Lemma base_env_typed G env x y k p n :
  k_cell env = k_cell (base_env x y k) -> k_const env = k ->
  col_len x = n -> p < n ->
  g_cell0 G = raw_ty x ->
  (forall t, g_cell1 G = Some t -> exists c, y = Some c /\ raw_ty c = t /\ col_len c = n) ->
  (forall t, g_const G = Some t -> kval_ty k = Some t) ->
  env_typed G env p.
Proof.
  intros Hcell Hconst Hx Hp H0 H1 Hc. unfold env_typed. rewrite Hcell, Hconst. cbn [base_env k_cell].
  split; [|split].
  - rewrite H0. apply raw_kval_ok. lia.
  - intros t m Ht. destruct (H1 t Ht) as [c [-> [<- Hl]]]. apply raw_kval_ok. lia.
  - exact Hc.
Qed.

Ltac env_typed_tac n Hlen :=
  intros p Hp; eapply (base_env_typed _ _ _ _ _ p n); try reflexivity; try exact Hlen; try assumption;
  try (intros t Ht; discriminate Ht);
  try (intros t Ht; inversion Ht; subst; reflexivity).

(* ---- the table premise of one Column.Filter call *)

Definition fn1_found (tbl : list (cell * bool)) (v : kval) : bool :=
  isSome (find (fun e => kval_eqb (cell_kval (fst e)) v) tbl).
Definition fn2_found (tbl : list (cell * cell * bool)) (v w : kval) : bool :=
  isSome (find (fun e => kval_eqb (cell_kval (fst (fst e))) v && kval_eqb (cell_kval (snd (fst e))) w) tbl).

Definition cf_tables_okb (mt : matcher_table) (c : coldata) (index : list nat) (cmp : fcmp) (a : rarg) : bool :=
  match cmp with
  | CmpName cmpn =>
      match a with
      | RConst k => match norm_strs k, is_like cmpn with
                    | AStr s, Some flag => isSome (find_matcher mt s flag)     (* like / ilike: the matcher is recorded *)
                    | _, _ => true end
      | RCol _ => true
      end
  | CmpFn1 _ tbl =>
      forallb (fun p => match ptr_kval c p with Ok v => fn1_found tbl v | _ => true end) index
  | CmpFn2 _ tbl =>
      match a with
      | RCol c2 => forallb (fun p => match ptr_kval c p, ptr_kval c2 p with
                                     | Ok v, Ok w => fn2_found tbl v w | _, _ => true end) index
      | RConst _ => true
      end
  | CmpOther => true
  end.

(* generated obligation: the custom filter loops call the predicate on the cell(s) of the row *)
Lemma generated_custom_kernels c :
  kernel_named g_kernels (kname (letter_of c) fname_custom1) = Some (KGuarded PNone (KCallFn [KCell 0]))
  /\ kernel_named g_kernels (kname (letter_of c) fname_custom2) = Some (KGuarded PColumnArg (KCallFn [KCell 0; KCell 1])).
Proof. destruct c; split; vm_compute; reflexivity. Qed.

Lemma ptr_kval_ok c p : col_wf c = true -> p < col_len c -> exists v, ptr_kval c p = Ok v.
Proof. intros Hw Hp. unfold ptr_kval. destruct (cell_at_ok c p Hw Hp) as [x Hx]. rewrite Hx. eexists; reflexivity. Qed.

Lemma guarded_postf env e index b (T : Prop) :
  length index = length b ->
  (T -> forall p, In p index -> exists v, body_point env None e p = Ok v) ->
  postf (fun r => length r = length b) T (guarded_loop env None e index b).
Proof.
  intros Hlen Hpt. destruct (guarded_loop env None e index b) as [r| |] eqn:E; cbn [postf]; [|exact I|].
  - eapply guarded_len; eassumption.
  - intro HT. destruct (guarded_loop_total env None e b index Hlen (Hpt HT)) as [r Hr]. congruence.
Qed.

Lemma custom1_postf c tbl index b n (T : Prop) :
  col_ok n c -> Forall (fun p => p < n) index -> length index = length b ->
  (T -> forallb (fun p => match ptr_kval c p with Ok v => fn1_found tbl v | _ => true end) index = true) ->
  postf (fun r => length r = length b) T (run (letter_of c) fname_custom1 (fn1_env c tbl) index b).
Proof.
  intros [Hl Hw] Hin Hlen HT. unfold run. rewrite (proj1 (generated_custom_kernels c)). unfold run_kernel.
  apply guarded_postf; [exact Hlen|].
  intros Ht p Hp. specialize (HT Ht). rewrite forallb_forall in HT. specialize (HT p Hp).
  rewrite Forall_forall in Hin. destruct (ptr_kval_ok c p Hw) as [v Hv]; [rewrite Hl; auto|]. rewrite Hv in HT.
  unfold body_point. cbn [obind keval fn1_env k_cell k_fn]. rewrite Hv. cbn [obind].
  unfold fn1_found in HT. destruct (find _ tbl) as [e0|]; [|discriminate]. cbn [obind as_bool]. eexists; reflexivity.
Qed.

Lemma custom2_postf c c2 tbl index b n (T : Prop) :
  col_ok n c -> col_ok n c2 -> Forall (fun p => p < n) index -> length index = length b ->
  (T -> forallb (fun p => match ptr_kval c p, ptr_kval c2 p with
                          | Ok v, Ok w => fn2_found tbl v w | _, _ => true end) index = true) ->
  postf (fun r => length r = length b) T (run (letter_of c) fname_custom2 (fn2_env c c2 tbl) index b).
Proof.
  intros [Hl Hw] [Hl2 Hw2] Hin Hlen HT. unfold run. rewrite (proj2 (generated_custom_kernels c)). unfold run_kernel.
  apply guarded_postf; [exact Hlen|].
  intros Ht p Hp. specialize (HT Ht). rewrite forallb_forall in HT. specialize (HT p Hp).
  rewrite Forall_forall in Hin. destruct (ptr_kval_ok c p Hw) as [v Hv]; [rewrite Hl; auto|].
  destruct (ptr_kval_ok c2 p Hw2) as [w Hw']; [rewrite Hl2; auto|]. rewrite Hv, Hw' in HT.
  unfold body_point. cbn [obind keval fn2_env k_cell k_fn]. rewrite Hv, Hw'. cbn [obind].
  unfold fn2_found in HT. destruct (find _ tbl) as [e0|]; [|discriminate]. cbn [obind as_bool]. eexists; reflexivity.
Qed.

(* ---- Column.Filter *)

Definition arg_ok (n : nat) (a : rarg) : Prop := forall c2, a = RCol c2 -> col_ok n c2.

Lemma gen_typed : 
  (table_typed L_i (G1 KTZ) t_i_filter1 = true /\ table_typed L_i (G0 KTZ) t_i_filterN = true
  /\ table_typed L_i (G2 KTZ) t_i_filter2 = true /\ table_typed L_i (G0 KTZ) t_i_filter0 = true)
  /\ (table_typed L_f (G0 KTF) t_f_filter0 = true /\ table_typed L_f (G1 KTF) t_f_filter1 = true /\ table_typed L_f (G2 KTF) t_f_filter2 = true)
  /\ (table_typed L_b (G1 KTB) t_b_filter1 = true /\ table_typed L_b (G2 KTB) t_b_filter2 = true)
  /\ (table_typed L_s (G0 KTS) t_s_filter0 = true /\ table_typed L_s (G1 KTS) t_s_filter1 = true
      /\ table_typed L_s (G0 KTS) t_s_filterN = true /\ table_typed L_s (G2 KTS) t_s_filter2 = true)
  /\ (table_typed L_e (G0 KTE) t_e_filter0 = true /\ table_typed L_e (G1 KTE) t_e_filter1 = true /\ table_typed L_e (G2 KTE) t_e_filter2 = true
      /\ fname_typed L_e (G0 KTE) fname_filterWithBitset = true
      /\ forallb (fun kv => isSome (is_like (snd kv))) t_e_filterLike = true).
Proof.
  pose proof generated_kernels_typed as H.
  repeat (apply andb_true_iff in H; destruct H as [H ?]). tauto.
Qed.

(* generated obligations: which comparators reach a matcher *)
Lemma generated_like_entries :
  forallb (fun kv => match kernel_named g_kernels (kname L_s (snd kv)) with
                     | Some (KDelegate _ flag) => match is_like (fst kv) with Some fl => Bool.eqb fl flag | None => false end
                     | _ => true end) t_s_filter1 = true
  /\ forallb (fun kv => bytes_eqb (fst kv) (snd kv)) t_e_filterLike = true
  /\ forallb (fun kv => negb (isSome (is_like (snd kv)))) t_filter_inverse = true.
Proof. repeat split; vm_compute; reflexivity. Qed.

Section ColFilter.
  Variable mt : matcher_table.
  Variable index : list nat.
  Variable b : list bool.
  Variable n : nat.
  Hypothesis Hin : Forall (fun p => p < n) index.
  Hypothesis Hlen : length index = length b.
  Variable T : Prop.

  Let Hin' : forall p, In p index -> p < n.
  Proof. apply Forall_forall. exact Hin. Qed.

  Notation Q := (fun r : list bool => length r = length b).

  Lemma i_filter_post d cmp a : length d = n -> arg_ok n a -> postf Q T (i_filter_builtin d index cmp a b).
  Proof.
    intros Hd Ha. destruct gen_typed as [[Hi1 [HiN [Hi2 Hi0]]] _]. unfold i_filter_builtin.
    destruct a as [k|c2].
    - destruct (int_comp k) as [z|].
      + eapply run_tbl_typed; [exact Hi1|exact Hlen|]. env_typed_tac n Hd. auto.
      + destruct (int_set k) as [s|].
        * eapply run_tbl_typed; [exact HiN|exact Hlen|]. env_typed_tac n Hd. auto.
        * destruct k; try exact I. eapply run_tbl_typed; [exact Hi0|exact Hlen|]. env_typed_tac n Hd. auto.
    - destruct (Ha c2 eq_refl) as [Hl2 _]. destruct c2; try exact I.
      eapply run_tbl_typed; [exact Hi2|exact Hlen|]. env_typed_tac n Hd. auto.
      intros t Ht. inversion Ht; subst. eexists; split; [reflexivity|split; [reflexivity|exact Hl2]].
  Qed.

  Lemma f_filter_post d cmp a : length d = n -> arg_ok n a -> postf Q T (f_filter_builtin d index cmp a b).
  Proof.
    intros Hd Ha. destruct gen_typed as [_ [[Hf0 [Hf1 Hf2]] _]]. unfold f_filter_builtin.
    destruct a as [k|c2].
    - destruct k; try exact I.
      + destruct (f_isnan b0); [exact I|].
        eapply run_tbl_typed; [exact Hf1|exact Hlen|]. env_typed_tac n Hd. auto.
      + eapply run_tbl_typed; [exact Hf0|exact Hlen|]. env_typed_tac n Hd. auto.
    - destruct (Ha c2 eq_refl) as [Hl2 _]. destruct c2; try exact I.
      eapply run_tbl_typed; [exact Hf2|exact Hlen|]. env_typed_tac n Hd. auto.
      intros t Ht. inversion Ht; subst. eexists; split; [reflexivity|split; [reflexivity|exact Hl2]].
  Qed.

  Lemma b_filter_post d cmp a : length d = n -> arg_ok n a -> postf Q T (b_filter_builtin d index cmp a b).
  Proof.
    intros Hd Ha. destruct gen_typed as [_ [_ [[Hb1 Hb2] _]]]. unfold b_filter_builtin.
    destruct a as [k|c2].
    - destruct k; try exact I.
      eapply run_tbl_typed; [exact Hb1|exact Hlen|]. env_typed_tac n Hd. auto.
    - destruct (Ha c2 eq_refl) as [Hl2 _]. destruct c2; try exact I.
      eapply run_tbl_typed; [exact Hb2|exact Hlen|]. env_typed_tac n Hd. auto.
      intros t Ht. inversion Ht; subst. eexists; split; [reflexivity|split; [reflexivity|exact Hl2]].
  Qed.

  Definition matcher_prem (cmpn : bytes) (a : rarg) : Prop :=
    match a with
    | RConst k => match norm_strs k with
                  | AStr s => forall flag, is_like cmpn = Some flag -> find_matcher mt s flag <> None
                  | _ => True end
    | RCol _ => True
    end.

  Lemma s_filter_post d cmp a :
    length d = n -> arg_ok n a -> (T -> matcher_prem cmp a) -> postf Q T (s_filter_builtin mt d index cmp a b).
  Proof.
    intros Hd Ha HT. destruct gen_typed as [_ [_ [_ [[Hs0 [Hs1 [HsN Hs2]]] _]]]]. unfold s_filter_builtin.
    destruct a as [k|c2].
    - unfold matcher_prem in HT. destruct (norm_strs k) as [| | |s|l|l|l|l|m| |]; try exact I.
      + destruct (assocb cmp t_s_filter1) as [fname|] eqn:Ea; [|exact I].
        pose proof (table_fname _ _ _ _ _ Hs1 Ea) as Hfn.
        assert (Hrun : forall env, k_cell env = k_cell (base_env (SCol d) None (VS (Some s))) ->
                                   k_const env = VS (Some s) ->
                                   postf Q T (run L_s fname env index b)).
        { intros env Hc Hk. destruct (run_typed L_s (G1 KTS) fname env index b Hfn Hlen) as [r [Hr Hl]].
          - intros p Hp. eapply (base_env_typed _ _ _ _ _ p n); [exact Hc|exact Hk|exact Hd|auto|reflexivity| |].
            + intros t Ht; discriminate Ht.
            + intros t Ht; inversion Ht; subst; reflexivity.
          - rewrite Hr. exact Hl. }
        assert (Hk : forall dfn flag, kernel_named g_kernels (kname L_s fname) = Some (KDelegate dfn flag) ->
                                      is_like cmp = Some flag).
        { intros dfn flag Ek. pose proof (proj1 generated_like_entries) as Hg. rewrite forallb_forall in Hg.
          specialize (Hg _ (assocb_In_key _ _ _ Ea)). cbn [fst snd] in Hg. rewrite Ek in Hg.
          destruct (is_like cmp) as [fl|]; [|discriminate]. apply eqb_prop in Hg. subst. reflexivity. }
        clear Hfn. revert Hk. generalize (kernel_named g_kernels (kname L_s fname)). intros kn Hk.
        destruct kn as [[| | | |dfn flag]|];
          [apply Hrun; reflexivity|apply Hrun; reflexivity|apply Hrun; reflexivity|apply Hrun; reflexivity| |apply Hrun; reflexivity].
        destruct (find_matcher mt s flag) as [[m|]|] eqn:Em; [apply Hrun; reflexivity|exact I|].
        cbn [postf]. intro Ht. exact (HT Ht flag (Hk dfn flag eq_refl) Em).
      + eapply run_tbl_typed; [exact HsN|exact Hlen|]. env_typed_tac n Hd. auto.
      + eapply run_tbl_typed; [exact Hs0|exact Hlen|]. env_typed_tac n Hd. auto.
    - destruct (Ha c2 eq_refl) as [Hl2 _]. destruct c2; try exact I.
      eapply run_tbl_typed; [exact Hs2|exact Hlen|]. env_typed_tac n Hd. auto.
      intros t Ht. inversion Ht; subst. eexists; split; [reflexivity|split; [reflexivity|exact Hl2]].
  Qed.

  Lemma e_filter_post d values st cmp a :
    length d = n -> arg_ok n a -> (T -> matcher_prem cmp a) -> postf Q T (e_filter_builtin mt d values st index cmp a b).
  Proof.
    intros Hd Ha HT. destruct gen_typed as [_ [_ [_ [_ [He0 [He1 [He2 [Hbs Hlike]]]]]]]]. unfold e_filter_builtin.
    assert (Hbitset : forall env, k_cell env = k_cell (base_env (ECol d values st) None VBad) ->
                                  postf Q T (run L_e fname_filterWithBitset env index b)).
    { intros env Hc. destruct (run_typed L_e (G0 KTE) fname_filterWithBitset env index b Hbs Hlen) as [r [Hr Hl]].
      - intros p Hp. eapply (base_env_typed _ _ (ECol d values st) None (k_const env) p n); [exact Hc|reflexivity|exact Hd|auto|reflexivity| |].
        + intros t Ht; discriminate Ht.
        + intros t Ht; discriminate Ht.
      - rewrite Hr. exact Hl. }
    destruct a as [k|c2].
    - unfold matcher_prem in HT. destruct (norm_strs k) as [| | |s|l|l|l|l|m| |]; try exact I.
      + destruct (assocb cmp t_e_filter1) as [fname|] eqn:Ea.
        * destruct (find_value values s 0) as [r|].
          -- destruct (run_typed L_e (G1 KTE) fname (base_env (ECol d values st) None (VE r)) index b
                        (table_fname _ _ _ _ _ He1 Ea) Hlen) as [r' [Hr Hl]].
             ++ env_typed_tac n Hd. auto.
             ++ rewrite Hr. exact Hl.
          -- destruct st; [exact I|]. destruct (bytes_eqb cmp neq_name); cbn [postf]; [apply map_length|reflexivity].
        * destruct (assocb cmp t_e_filterLike) as [fname|] eqn:El; [|exact I].
          destruct (assocb_In _ _ _ El) as [k' Hk']. rewrite forallb_forall in Hlike. specialize (Hlike _ Hk').
          cbn [snd] in Hlike. destruct (is_like fname) as [flag|] eqn:Elk; [|discriminate].
          assert (Hcf : fname = cmp).
          { pose proof (proj1 (proj2 generated_like_entries)) as Hg. rewrite forallb_forall in Hg.
            specialize (Hg _ (assocb_In_key _ _ _ El)). cbn [fst snd] in Hg. apply bytes_eqb_spec in Hg. congruence. }
          subst fname.
          destruct (find_matcher mt s flag) as [[m|]|] eqn:Em; [apply Hbitset; reflexivity|exact I|].
          cbn [postf]. intro Ht. exact (HT Ht flag Elk Em).
      + destruct (assocb cmp t_e_filterN); [|exact I]. apply Hbitset. reflexivity.
      + eapply run_tbl_typed; [exact He0|exact Hlen|]. env_typed_tac n Hd. auto.
    - destruct (Ha c2 eq_refl) as [Hl2 _]. destruct c2 as [| | | |d2 v2 st2]; try exact I.
      destruct (equal_types values (length d) v2 (length d2)); [|exact I].
      eapply run_tbl_typed; [exact He2|exact Hlen|]. env_typed_tac n Hd. auto.
      intros t Ht. inversion Ht; subst. eexists; split; [reflexivity|split; [reflexivity|exact Hl2]].
  Qed.

  Lemma cf_matcher c cmpn a : cf_tables_okb mt c index (CmpName cmpn) a = true -> matcher_prem cmpn a.
  Proof.
    unfold cf_tables_okb, matcher_prem. destruct a as [k|c2]; [|auto]. destruct (norm_strs k); auto.
    intros H flag Hf. rewrite Hf in H. destruct (find_matcher mt s flag); [discriminate|discriminate H].
  Qed.

  Lemma col_filter_post c cmp a :
    col_ok n c -> arg_ok n a ->
    (T -> cf_tables_okb mt c index cmp a = true) ->
    postf Q T (col_filter mt c index cmp a b).
  Proof.
    intros Hc Ha HT. unfold col_filter. destruct cmp as [s|t tbl|t tbl|].
    - destruct Hc as [Hl Hw].
      destruct c as [d|d|d|d|d vs st]; cbn [col_len] in Hl.
      + apply i_filter_post; assumption.
      + apply f_filter_post; assumption.
      + apply b_filter_post; assumption.
      + apply s_filter_post; try assumption. intro Ht. eapply cf_matcher. exact (HT Ht).
      + apply e_filter_post; try assumption. intro Ht. eapply cf_matcher. exact (HT Ht).
    - destruct (fn_type_ok c t); [|exact I]. eapply custom1_postf; try eassumption.
    - destruct (fn_type_ok c t); [|exact I]. destruct a as [k|c2]; [exact I|].
      destruct (ctype_eqb (col_type c) (col_type c2)); [|exact I].
      eapply custom2_postf; try eassumption. exact (Ha c2 eq_refl).
    - exact I.
  Qed.
End ColFilter.

(* ------------------------------------------------------------------ QFrame.filter: one leaf, a batch of leaves *)

Definition leaf_operands (f : frame) (l : leaf) (s : coldata) : outcome (coldata * rarg) :=
  match larg l with
  | AColName n =>
      match lookup_col f n with
      | None => Fail
      | Some argc =>
          match s, argc with
          | ICol d, FCol _ => Ok (FCol (float_slice d), RCol argc)
          | FCol _, ICol d2 => Ok (s, RCol (FCol (float_slice d2)))
          | _, _ => Ok (s, RCol argc)
          end
      end
  | a => Ok (s, RConst a)
  end.

(* the premise of a leaf on a frame: the like-matcher of its string argument is recorded and a custom
   predicate's table answers on the cells of the frame's rows (after the int/float conversion of the operands) *)
Definition leaf_okb (mt : matcher_table) (f : frame) (l : leaf) : bool :=
  match lookup_col f (lcol l) with
  | None => true
  | Some s => match leaf_operands f l s with
              | Ok (s', a) => cf_tables_okb mt s' (ix f) (lcmp l) a
              | _ => true
              end
  end.

Definition leaf_body (mt : matcher_table) (f : frame) (l : leaf) (b : list bool) (s' : coldata) (a : rarg) : outcome (list bool) :=
  if linv l then
    let shortcut :=
      match lcmp l with
      | CmpName sc =>
          if is_order_comparator sc then None
          else match assocb sc t_filter_inverse with
               | Some inv =>
                   match col_filter mt s' (ix f) (CmpName inv) a b with
                   | Ok r => Some (Ok r)
                   | Panic => Some Panic
                   | Fail => None
                   end
               | None => None
               end
      | _ => None
      end in
    match shortcut with
    | Some r => r
    | None =>
        do inv <- col_filter mt s' (ix f) (lcmp l) a (map (fun _ => false) b);
        Ok (map (fun xy : bool * bool => if fst xy then true else negb (snd xy)) (combine b inv))
    end
  else col_filter mt s' (ix f) (lcmp l) a b.

Lemma filter_leaf_unfold mt f l b :
  filter_leaf mt f l b =
  match lookup_col f (lcol l) with
  | None => Fail
  | Some s => do sa <- leaf_operands f l s; let '(s', a) := sa in leaf_body mt f l b s' a
  end.
Proof. reflexivity. Qed.

Lemma float_slice_ok d n : length d = n -> col_ok n (FCol (float_slice d)).
Proof. intro H. split; [simpl; unfold float_slice; rewrite map_length; exact H|reflexivity]. Qed.

Lemma leaf_operands_ok f l s s' a :
  WF f -> lookup_col f (lcol l) = Some s -> leaf_operands f l s = Ok (s', a) ->
  col_ok (phys_len f) s' /\ arg_ok (phys_len f) a.
Proof.
  intros H Hs Ho. pose proof (WF_lookup f _ s H Hs) as Hcs. unfold leaf_operands in Ho.
  assert (Hconst : forall k, arg_ok (phys_len f) (RConst k)) by (intros k c2 Hc2; discriminate).
  destruct (larg l) as [| | | | | | | |m| |]; try (inversion Ho; subst; split; [exact Hcs|apply Hconst]).
  destruct (lookup_col f m) as [argc|] eqn:Em; [|discriminate].
  pose proof (WF_lookup f _ argc H Em) as Hca.
  destruct s as [d|d|d|d|d vs st]; destruct argc as [d2|d2|d2|d2|d2 vs2 st2]; inversion Ho; subst;
    (split; [|intros c2 Hc2; inversion Hc2; subst]); try assumption;
    try (apply float_slice_ok; destruct Hcs as [Hx _]; exact Hx);
    try (apply float_slice_ok; destruct Hca as [Hx _]; exact Hx).
Qed.

Lemma leaf_body_post mt f l b s' a (T : Prop) :
  col_ok (phys_len f) s' -> arg_ok (phys_len f) a ->
  Forall (fun p => p < phys_len f) (ix f) -> length (ix f) = length b ->
  (T -> cf_tables_okb mt s' (ix f) (lcmp l) a = true) ->
  postf (fun r => length r = length b) T (leaf_body mt f l b s' a).
Proof.
  intros Hs Ha Hin Hlen HT. unfold leaf_body.
  assert (Hplain : forall b', length (ix f) = length b' ->
            postf (fun r => length r = length b') T (col_filter mt s' (ix f) (lcmp l) a b')).
  { intros b' Hl'. apply (col_filter_post mt (ix f) b' (phys_len f) Hin Hl' T s' (lcmp l) a Hs Ha HT). }
  assert (Hslow : postf (fun r => length r = length b) T
            (do inv <- col_filter mt s' (ix f) (lcmp l) a (map (fun _ => false) b);
             Ok (map (fun xy : bool * bool => if fst xy then true else negb (snd xy)) (combine b inv)))).
  { eapply postf_bind; [apply Hplain; rewrite map_length; exact Hlen|].
    intros inv _ Hinv. cbn [postf]. rewrite map_length in *. rewrite combine_length. lia. }
  destruct (linv l); [|apply Hplain; exact Hlen].
  destruct (lcmp l) as [sc|t tbl|t tbl|] eqn:Ecmp; try exact Hslow.
  destruct (is_order_comparator sc); [exact Hslow|].
  destruct (assocb sc t_filter_inverse) as [inv|] eqn:Einv; [|exact Hslow].
  assert (HT' : T -> cf_tables_okb mt s' (ix f) (CmpName inv) a = true).
  { intros _. pose proof (proj2 (proj2 generated_like_entries)) as Hg. rewrite forallb_forall in Hg.
    specialize (Hg _ (assocb_In_key _ _ _ Einv)). cbn [snd] in Hg.
    unfold cf_tables_okb. destruct a as [k|c2]; [|reflexivity]. destruct (norm_strs k); try reflexivity.
    destruct (is_like inv); [discriminate Hg|reflexivity]. }
  pose proof (col_filter_post mt (ix f) b (phys_len f) Hin Hlen T s' (CmpName inv) a Hs Ha HT') as Hp.
  destruct (col_filter mt s' (ix f) (CmpName inv) a b) as [r| |]; [exact Hp|exact Hslow|exact Hp].
Qed.

Lemma filter_leaf_post mt f l b :
  WF f -> length (ix f) = length b ->
  postf (fun r => length r = length b) (leaf_okb mt f l = true) (filter_leaf mt f l b).
Proof.
  intros H Hlen. rewrite filter_leaf_unfold. unfold leaf_okb.
  destruct (lookup_col f (lcol l)) as [s|] eqn:Es; [|exact I].
  destruct (leaf_operands f l s) as [[s' a]| |] eqn:Eo; cbn [obind]; try exact I;
    [|exfalso; revert Eo; unfold leaf_operands; destruct (larg l); try discriminate;
      destruct (lookup_col f n); try discriminate; destruct s, c; discriminate].
  destruct (leaf_operands_ok f l s s' a H Es Eo) as [Hs Ha].
  apply leaf_body_post; try assumption; [apply H|auto].
Qed.

Lemma index_filter_incl index b : length index = length b ->
  exists i, index_filter index b = Ok i /\ incl i index.
Proof.
  intro H. rewrite (index_filter_spec b index H). eexists. split; [reflexivity|].
  intros p Hp. apply in_map_iff in Hp as [[x q] [Hq Hf]]. simpl in Hq. subst q.
  apply filter_In in Hf as [Hc _]. apply in_combine_r in Hc. exact Hc.
Qed.

(* the frames met inside a clause tree: the columns of the frame being filtered and a row index inside its index *)
Definition subframe (f0 g : frame) : Prop := cols g = cols f0 /\ incl (ix g) (ix f0).

Lemma subframe_refl f : subframe f f.
Proof. split; [reflexivity|apply incl_refl]. Qed.
Lemma subframe_WF f0 g : WF f0 -> subframe f0 g -> WF g.
Proof. intros H [H1 H2]. exact (WF_sub f0 g H H1 H2). Qed.
Lemma subframe_err f0 g : subframe f0 g -> subframe f0 (with_err g).
Proof. intros [H1 H2]. split; assumption. Qed.
Lemma subframe_ix f0 g i : subframe f0 g -> incl i (ix g) -> subframe f0 (with_ix g i).
Proof. intros [H1 H2] Hi. split; [exact H1|]. simpl. eapply incl_tran; eassumption. Qed.

Lemma forallb_incl {A} (p : A -> bool) l l' : incl l l' -> forallb p l' = true -> forallb p l = true.
Proof. intros Hi H. rewrite forallb_forall in *. intros x Hx. apply H. apply Hi. exact Hx. Qed.

Lemma cf_tables_incl mt c i i' cmp a : incl i i' -> cf_tables_okb mt c i' cmp a = true -> cf_tables_okb mt c i cmp a = true.
Proof.
  intros Hi. unfold cf_tables_okb. destruct cmp as [s|t tbl|t tbl|]; auto.
  - apply forallb_incl. exact Hi.
  - destruct a; auto. apply forallb_incl. exact Hi.
Qed.

Lemma leaf_okb_sub mt f0 g l : subframe f0 g -> leaf_okb mt f0 l = true -> leaf_okb mt g l = true.
Proof.
  intros [Hc Hi]. unfold leaf_okb. rewrite (lookup_col_cols_eq f0 g _ Hc).
  destruct (lookup_col f0 (lcol l)) as [s|]; [|auto].
  assert (Ho : leaf_operands g l s = leaf_operands f0 l s).
  { unfold leaf_operands. destruct (larg l); try reflexivity. rewrite (lookup_col_cols_eq f0 g _ Hc). reflexivity. }
  rewrite Ho. destruct (leaf_operands f0 l s) as [[s' a]| |]; auto. apply cf_tables_incl. exact Hi.
Qed.

Section FilterTree.
  Variable mt : matcher_table.
  Variable f0 : frame.
  Hypothesis f0_wf : WF f0.

  Definition leaves_ok (ls : list leaf) : Prop := forallb (leaf_okb mt f0) ls = true.

  Lemma batch_post g : subframe f0 g -> forall ls b,
    length (ix g) = length b ->
    postf (fun r => length r = length b) (leaves_ok ls) (ofold (fun b l => filter_leaf mt g l b) ls b).
  Proof.
    intros Hg. induction ls as [|l ls IH]; intros b Hlen.
    - rewrite ofold_nil. reflexivity.
    - rewrite ofold_cons. unfold leaves_ok. cbn [forallb].
      eapply postf_bind.
      + eapply postf_weaken; [apply (filter_leaf_post mt g l b (subframe_WF f0 g f0_wf Hg) Hlen)|intros a _ Ha; exact Ha|].
        intro HT. apply andb_true_iff in HT as [HT _]. apply (leaf_okb_sub mt f0 g l Hg HT).
      + intros b' _ Hb'. eapply postf_weaken; [apply IH; congruence|intros a _ Ha; cbv beta in *; congruence|].
        intro HT. apply andb_true_iff in HT as [_ HT]. exact HT.
  Qed.

  Lemma filter_leaves_post g ls : subframe f0 g -> post (subframe f0) (leaves_ok ls) (filter_leaves mt g ls).
  Proof.
    intro Hg. unfold filter_leaves. destruct (ferr g); [exact Hg|].
    pose proof (batch_post g Hg ls (map (fun _ => false) (ix g)) ltac:(rewrite map_length; reflexivity)) as Hp.
    destruct (ofold _ ls _) as [b| |]; cbn [post postf] in *.
    - rewrite map_length in Hp. destruct (index_filter_incl (ix g) b (eq_sym Hp)) as [i [Hi Hincl]].
      rewrite Hi. cbn [obind post]. apply subframe_ix; assumption.
    - apply subframe_err. exact Hg.
    - exact Hp.
  Qed.

  Lemma or_merge_incl : forall orig l r, incl (or_merge orig l r) orig.
  Proof.
    induction orig as [|p orig IH]; intros l r; simpl; [apply incl_refl|].
    destruct (match l with x :: l' => if Nat.eqb x p then (true, l') else (false, l) | [] => (false, l) end) as [fl l'].
    destruct (match r with x :: r' => if Nat.eqb x p then (true, r') else (false, r) | [] => (false, r) end) as [fr r'].
    destruct (fl || fr).
    - apply incl_cons; [left; reflexivity|apply incl_tl; apply IH].
    - apply incl_tl. apply IH.
  Qed.

  Lemma not_merge_incl : forall orig sub, incl (not_merge orig sub) orig.
  Proof.
    induction orig as [|p orig IH]; intros sub; simpl; [apply incl_refl|].
    destruct sub as [|x sub'].
    - apply incl_cons; [left; reflexivity|apply incl_tl; apply IH].
    - destruct (Nat.eqb x p).
      + apply incl_tl. apply IH.
      + apply incl_cons; [left; reflexivity|apply incl_tl; apply IH].
  Qed.

  Lemma or_frames_sub g acc nf :
    subframe f0 g -> (forall a, acc = Some a -> subframe f0 a) -> subframe f0 nf -> subframe f0 (or_frames g acc nf).
  Proof.
    intros Hg Hacc Hnf. unfold or_frames. destruct acc as [a|]; [|exact Hnf].
    destruct (ferr a); [apply Hacc; reflexivity|]. destruct (ferr nf); [exact Hnf|].
    apply subframe_ix; [exact Hg|apply or_merge_incl].
  Qed.

  Fixpoint clause_leaves (c : clause) : list leaf :=
    match c with
    | CLeaf l => [l]
    | CAnd cs => flat_map clause_leaves cs
    | COr cs => flat_map clause_leaves cs
    | CNot c' => clause_leaves c'
    | CNull => []
    end.

  Definition clause_tables_ok (c : clause) : Prop := leaves_ok (clause_leaves c).

  Definition clause_good (c : clause) : Prop :=
    forall g, subframe f0 g -> post (subframe f0) (clause_tables_ok c) (clause_filter mt c g).

  Lemma leaves_ok_app l1 l2 : leaves_ok (l1 ++ l2) <-> leaves_ok l1 /\ leaves_ok l2.
  Proof. unfold leaves_ok. rewrite forallb_app, andb_true_iff. tauto. Qed.

  Lemma and_loop_good cs : Forall clause_good cs -> forall g, subframe f0 g ->
    post (subframe f0) (leaves_ok (flat_map clause_leaves cs)) (and_loop (fun c' g => clause_filter mt c' g) cs g).
  Proof.
    induction 1 as [|c cs Hc Hcs IH]; intros g Hg; cbn [and_loop flat_map]; [exact Hg|].
    eapply post_bind.
    - eapply post_weaken; [apply (Hc g Hg)|intros a _ Ha; exact Ha|]. intro HT. apply leaves_ok_app in HT. tauto.
    - intros g' _ Hg'. eapply post_weaken; [apply (IH g' Hg')|intros a _ Ha; exact Ha|].
      intro HT. apply leaves_ok_app in HT. tauto.
  Qed.

  Lemma leaves_ok_rev ls : leaves_ok ls -> leaves_ok (rev ls).
  Proof. unfold leaves_ok. apply forallb_incl. intros x Hx. apply in_rev. exact Hx. Qed.

  Lemma flush_post g pending acc :
    subframe f0 g -> (forall a, acc = Some a -> subframe f0 a) ->
    post (fun acc' => (forall a, acc' = Some a -> subframe f0 a) /\ (pending <> [] \/ acc <> None -> acc' <> None))
         (leaves_ok pending)
         (match pending with
          | [] => Ok acc
          | _ => do nf <- filter_leaves mt g (rev pending); Ok (Some (or_frames g acc nf))
          end).
  Proof.
    intros Hg Hacc. destruct pending as [|l0 pending'].
    - cbn [post]. split; [exact Hacc|]. intros [H|H]; [congruence|exact H].
    - eapply post_bind.
      + eapply post_weaken; [apply (filter_leaves_post g (rev (l0 :: pending')) Hg)|intros a _ Ha; exact Ha|apply leaves_ok_rev].
      + intros nf _ Hnf. cbn [post]. split; [|intros _; discriminate].
        intros a Ha. inversion Ha; subst. apply or_frames_sub; assumption.
  Qed.

  Lemma or_loop_good : forall cs, Forall clause_good cs -> forall g pending acc,
    subframe f0 g -> (forall a, acc = Some a -> subframe f0 a) ->
    (cs <> [] \/ pending <> [] \/ acc <> None) ->
    post (subframe f0) (leaves_ok pending /\ leaves_ok (flat_map clause_leaves cs))
         (or_loop mt (fun c' g => clause_filter mt c' g) g cs pending acc).
  Proof.
    induction 1 as [|c cs Hc Hcs IH]; intros g pending acc Hg Hacc Hne.
    - cbn [or_loop].
      eapply post_bind.
      + eapply post_weaken; [apply (flush_post g pending acc Hg Hacc)|intros a _ Ha; exact Ha|tauto].
      + intros acc' _ [Ha' Hnn]. destruct acc' as [r|]; cbn [post]; [apply Ha'; reflexivity|].
        exfalso. apply Hnn; [|reflexivity]. destruct Hne as [H|H]; [congruence|exact H].
    - assert (Hnonleaf :
        post (subframe f0) (leaves_ok pending /\ leaves_ok (flat_map clause_leaves (c :: cs)))
          (do acc' <- (match pending with
                       | [] => Ok acc
                       | _ => do nf <- filter_leaves mt g (rev pending); Ok (Some (or_frames g acc nf))
                       end);
           do nf <- clause_filter mt c g;
           or_loop mt (fun c' g => clause_filter mt c' g) g cs [] (Some (or_frames g acc' nf)))).
      { eapply post_bind.
        - eapply post_weaken; [apply (flush_post g pending acc Hg Hacc)|intros a _ Ha; exact Ha|tauto].
        - intros acc' _ [Ha' _].
          eapply post_bind.
          + eapply post_weaken; [apply (Hc g Hg)|intros a _ Ha; exact Ha|].
            intros [_ HT]. cbn [flat_map] in HT. apply leaves_ok_app in HT. tauto.
          + intros nf _ Hnf.
            eapply post_weaken; [apply (IH g [] (Some (or_frames g acc' nf)) Hg)|intros a _ Ha; exact Ha|].
            * intros a Ha. inversion Ha; subst. apply or_frames_sub; assumption.
            * right; right; discriminate.
            * intros [_ HT]. cbn [flat_map] in HT. apply leaves_ok_app in HT. split; [reflexivity|tauto]. }
      destruct c as [l|cs'|cs'|c'|]; try exact Hnonleaf.
      cbn [or_loop].
      eapply post_weaken; [apply (IH g (l :: pending) acc Hg Hacc)|intros a _ Ha; exact Ha|].
      + right; left; discriminate.
      + intros [HT1 HT2]. cbn [flat_map clause_leaves] in HT2. apply leaves_ok_app in HT2.
        split; [|tauto]. unfold leaves_ok in *. cbn [forallb]. apply andb_true_iff. split; [|exact HT1].
        destruct HT2 as [HT2 _]. cbn [forallb] in HT2. apply andb_true_iff in HT2. tauto.
  Qed.

  Fixpoint clause_all_good (c : clause) : clause_good c.
  Proof.
    assert (Hlist : forall cs, Forall clause_good cs).
    { induction cs as [|c1 cs IH]; constructor; [apply clause_all_good|exact IH]. }
    destruct c as [l|cs|cs|c'|]; intros g Hg.
    - cbn [clause_filter]. apply filter_leaves_post. exact Hg.
    - cbn [clause_filter]. destruct (ferr g); [exact Hg|].
      destruct (clause_err (CAnd cs)); [apply subframe_err; exact Hg|].
      apply (and_loop_good cs (Hlist cs) g Hg).
    - cbn [clause_filter]. destruct (ferr g); [exact Hg|].
      destruct (clause_err (COr cs)) eqn:Ece; [apply subframe_err; exact Hg|].
      eapply post_weaken; [apply (or_loop_good cs (Hlist cs) g [] None Hg)|intros a _ Ha; exact Ha|].
      + intros a Ha; discriminate.
      + left. intros ->. discriminate.
      + intro HT. split; [reflexivity|exact HT].
    - cbn [clause_filter]. destruct (ferr g); [exact Hg|].
      destruct (clause_err (CNot c')); [apply subframe_err; exact Hg|].
      assert (Hgen : post (subframe f0) (clause_tables_ok (CNot c'))
                (do nf <- clause_filter mt c' g;
                 if ferr nf then Ok nf else Ok (with_ix g (not_merge (ix g) (ix nf))))).
      { eapply post_bind; [apply (clause_all_good c' g Hg)|].
        intros nf _ Hnf. destruct (ferr nf); cbn [post]; [exact Hnf|].
        apply subframe_ix; [exact Hg|apply not_merge_incl]. }
      destruct c' as [l|cs'|cs'|c''|]; try exact Hgen.
      apply (filter_leaves_post g [invert_leaf l] Hg).
    - exact Hg.
  Qed.
End FilterTree.

Theorem frame_filter_post mt f c :
  WF f -> post (fun g => subframe f g /\ WF g) (clause_tables_ok mt f c) (frame_filter mt f c).
Proof.
  intro H. unfold frame_filter. destruct (ferr f); [split; [apply subframe_refl|exact H]|].
  eapply post_weaken; [apply (clause_all_good mt f H c f (subframe_refl f))| |auto].
  intros g _ Hg. split; [exact Hg|eapply subframe_WF; eassumption].
Qed.

(* ------------------------------------------------------------------ FilteredApply *)

Definition filtered_apply_tables_ok (mt : matcher_table) (ut : upper_table) (f : frame) (c : clause) (is : list instr) : Prop :=
  clause_tables_ok mt f c
  /\ forall ff, frame_filter mt f c = Ok ff -> ferr ff = false -> apply_tables_okb ut (with_ix f (ix ff)) is = true.

Theorem filtered_apply_post mt ut f c is :
  WF f -> post WF (filtered_apply_tables_ok mt ut f c is) (filtered_apply mt ut f c is).
Proof.
  intro H. unfold filtered_apply, filtered_apply_tables_ok.
  eapply post_bind.
  - eapply post_weaken; [apply (frame_filter_post mt f c H)|intros a _ Ha; exact Ha|tauto].
  - intros ff Hff [Hsub Hwf]. destruct (ferr ff) eqn:Ee; [exact Hwf|].
    assert (Hw : WF (with_ix f (ix ff))).
    { apply (WF_sub f); [exact H|reflexivity|]. destruct Hsub as [_ Hi]. exact Hi. }
    eapply post_bind.
    + eapply post_weaken; [apply (apply_post ut is _ Hw)|intros a _ Ha; exact Ha|].
      intros [_ HT]. apply HT; [exact Hff|exact Ee].
    + intros r _ [[Hrc Hri] [Hix Hpl]]. cbn [post]. unfold WF. rewrite phys_len_plen in *. cbn [cols with_ix ix] in *.
      split; [exact Hrc|]. rewrite Hpl. apply H.
Qed.

(* ------------------------------------------------------------------ invalid arguments give Err *)

Lemma filter_leaf_fail_err mt f l :
  ferr f = false -> filter_leaf mt f l (map (fun _ => false) (ix f)) = Fail ->
  frame_filter mt f (CLeaf l) = Ok (with_err f).
Proof.
  intros Hf H. unfold frame_filter. rewrite Hf. cbn [clause_filter]. unfold filter_leaves. rewrite Hf.
  rewrite ofold_cons, H. reflexivity.
Qed.

Lemma filter_leaf_const mt f l b s :
  lookup_col f (lcol l) = Some s -> linv l = false -> (forall n, larg l <> AColName n) ->
  filter_leaf mt f l b = col_filter mt s (ix f) (lcmp l) (RConst (larg l)) b.
Proof.
  intros Hs Hi Ha. rewrite filter_leaf_unfold, Hs. unfold leaf_operands, leaf_body. rewrite Hi.
  destruct (larg l); try reflexivity. exfalso. eapply Ha. reflexivity.
Qed.

(* unknown argument column *)
Lemma filter_unknown_arg_column mt f l n s :
  ferr f = false -> lookup_col f (lcol l) = Some s -> larg l = AColName n -> lookup_col f n = None ->
  frame_filter mt f (CLeaf l) = Ok (with_err f).
Proof.
  intros Hf Hs Ha Hn. apply filter_leaf_fail_err; [exact Hf|].
  rewrite filter_leaf_unfold, Hs. unfold leaf_operands. rewrite Ha, Hn. reflexivity.
Qed.

(* a comparator that is neither a string nor a function of a supported type *)
Lemma filter_unsupported_comparator mt f l s :
  ferr f = false -> lookup_col f (lcol l) = Some s -> lcmp l = CmpOther -> (forall n, larg l <> AColName n) -> linv l = false ->
  frame_filter mt f (CLeaf l) = Ok (with_err f).
Proof.
  intros Hf Hs Hc Ha Hi. apply filter_leaf_fail_err; [exact Hf|].
  rewrite (filter_leaf_const mt f l _ s Hs Hi Ha), Hc. reflexivity.
Qed.

(* a predicate function whose argument type is not the column's element type *)
Lemma filter_function_type_mismatch mt f l s t tbl :
  ferr f = false -> lookup_col f (lcol l) = Some s -> lcmp l = CmpFn1 t tbl -> fn_type_ok s t = false ->
  (forall n, larg l <> AColName n) -> linv l = false ->
  frame_filter mt f (CLeaf l) = Ok (with_err f).
Proof.
  intros Hf Hs Hc Ht Ha Hi. apply filter_leaf_fail_err; [exact Hf|].
  rewrite (filter_leaf_const mt f l _ s Hs Hi Ha), Hc. unfold col_filter. rewrite Ht. reflexivity.
Qed.

(* a built in comparator name that the int column does not know *)
Lemma filter_unknown_comparator_int mt f l d name z :
  ferr f = false -> lookup_col f (lcol l) = Some (ICol d) -> lcmp l = CmpName name -> larg l = AInt z -> linv l = false ->
  assocb name t_i_filter1 = None ->
  frame_filter mt f (CLeaf l) = Ok (with_err f).
Proof.
  intros Hf Hs Hc Ha Hi Hn. apply filter_leaf_fail_err; [exact Hf|].
  rewrite (filter_leaf_const mt f l _ _ Hs Hi) by (intros n E; congruence).
  rewrite Hc, Ha. unfold col_filter, i_filter_builtin. cbn [int_comp]. unfold run_tbl. rewrite Hn. reflexivity.
Qed.

(* an argument of a type the column cannot be compared with: a string for an int column, a bool for a float column,
   an int for a bool column, an int for a string column *)
Lemma filter_argument_type mt f l name :
  ferr f = false -> lcmp l = CmpName name -> linv l = false ->
  (exists d s, lookup_col f (lcol l) = Some (ICol d) /\ larg l = AStr s)
  \/ (exists d v, lookup_col f (lcol l) = Some (FCol d) /\ larg l = ABool v)
  \/ (exists d z, lookup_col f (lcol l) = Some (BCol d) /\ larg l = AInt z)
  \/ (exists d z, lookup_col f (lcol l) = Some (SCol d) /\ larg l = AInt z)
  \/ (exists d vs st z, lookup_col f (lcol l) = Some (ECol d vs st) /\ larg l = AInt z) ->
  frame_filter mt f (CLeaf l) = Ok (with_err f).
Proof.
  intros Hf Hc Hi H. apply filter_leaf_fail_err; [exact Hf|].
  destruct H as [[d [s [Hs Ha]]]|[[d [v [Hs Ha]]]|[[d [z [Hs Ha]]]|[[d [z [Hs Ha]]]|[d [vs [st [z [Hs Ha]]]]]]]]];
    rewrite (filter_leaf_const mt f l _ _ Hs Hi) by (intros n E; congruence); rewrite Hc, Ha; reflexivity.
Qed.

(* the argument column has another type than the filtered column (int/float pairs are converted, everything else fails) *)
Lemma filter_mismatched_column_types mt f l name n d d2 :
  ferr f = false -> lcmp l = CmpName name -> linv l = false ->
  lookup_col f (lcol l) = Some (ICol d) -> larg l = AColName n -> lookup_col f n = Some (SCol d2) ->
  frame_filter mt f (CLeaf l) = Ok (with_err f).
Proof.
  intros Hf Hc Hi Hs Ha Hn. apply filter_leaf_fail_err; [exact Hf|].
  rewrite filter_leaf_unfold, Hs. unfold leaf_operands. rewrite Ha, Hn. cbn [obind]. unfold leaf_body. rewrite Hi, Hc. reflexivity.
Qed.

(* Apply: a function value of an unsupported type, whatever the source columns are *)
Lemma apply_unsupported_function ut f dst s1 s2 :
  ferr f = false -> apply_instr ut f (mkInstr FOther dst s1 s2) = Ok (with_err f).
Proof.
  intro Hf. unfold apply_instr. cbn [isrc1 isrc2 ifn idst].
  destruct (empty_name s1); [unfold apply0; rewrite Hf; reflexivity|].
  destruct (empty_name s2).
  - unfold apply1. rewrite Hf. destruct (lookup_col f s1); reflexivity.
  - unfold apply2. rewrite Hf. destruct (lookup_col f s1) as [c1|]; [|reflexivity].
    destruct (lookup_col f s2) as [c2|]; [|reflexivity]. unfold col_apply2.
    destruct (negb (ctype_eqb (col_type c1) (col_type c2))); reflexivity.
Qed.

Lemma apply_unknown_source ut f fn dst s1 :
  ferr f = false -> empty_name s1 = false -> lookup_col f s1 = None ->
  apply_instr ut f (mkInstr fn dst s1 []) = Ok (with_err f).
Proof.
  intros Hf He Hl. unfold apply_instr. cbn [isrc1 isrc2 ifn idst]. rewrite He. cbn [empty_name length Nat.eqb].
  unfold apply1. rewrite Hf, Hl. reflexivity.
Qed.

(* a function whose argument type is not the column's type *)
Lemma apply_function_type_mismatch ut f tin tout tbl dst s1 c :
  ferr f = false -> empty_name s1 = false -> lookup_col f s1 = Some c -> ctype_eqb (col_ftype c) tin = false ->
  apply_instr ut f (mkInstr (F1 tin tout tbl) dst s1 []) = Ok (with_err f).
Proof.
  intros Hf He Hl Ht. unfold apply_instr. cbn [isrc1 isrc2 ifn idst]. rewrite He. cbn [empty_name length Nat.eqb].
  unfold apply1. rewrite Hf, Hl. unfold col_apply1. rewrite Ht. reflexivity.
Qed.

Lemma apply2_mismatched_column_types ut f fn dst s1 s2 c1 c2 :
  ferr f = false -> empty_name s1 = false -> empty_name s2 = false ->
  lookup_col f s1 = Some c1 -> lookup_col f s2 = Some c2 -> ctype_eqb (col_type c1) (col_type c2) = false ->
  apply_instr ut f (mkInstr fn dst s1 s2) = Ok (with_err f).
Proof.
  intros Hf He1 He2 Hl1 Hl2 Ht. unfold apply_instr. cbn [isrc1 isrc2 ifn idst]. rewrite He1, He2.
  unfold apply2. rewrite Hf, Hl1, Hl2. unfold col_apply2. rewrite Ht. reflexivity.
Qed.

(* the array of a constant over an index within the columns, and its column, exist *)
Lemma const_scatter_total t n index k :
  t <> TEnum -> cell_type_ok t k = true -> Forall (fun p => p < n) index ->
  exists cells c, scatter (repeat (zero_cell t) n) index (repeat k (length index)) = Ok cells /\ col_of_cells t cells = Ok c.
Proof.
  intros Ht Hk Hin.
  assert (Hbase : Forall (fun p => p < length (repeat (zero_cell t) n)) index) by (rewrite repeat_length; exact Hin).
  destruct (scatter_ok index (repeat (zero_cell t) n) (repeat k (length index)) (repeat_length _ _) Hbase) as [arr [Harr _]].
  assert (Hok : Forall (fun y => cell_type_ok t y = true) arr).
  { eapply scatter_Forall; [| |exact Harr]; apply repeat_Forall; [apply zero_cell_ok; exact Ht|exact Hk]. }
  destruct (col_of_cells_spec t arr Ht Hok) as [r [Hr _]]. exists arr, r. split; assumption.
Qed.

(* an illegal destination name (the index covers the columns, or at least stays within them: otherwise writing the
   constant through the index is an index-out-of-range fault before the name is looked at) *)
Lemma apply_illegal_name ut f k dst :
  ferr f = false -> check_name dst = false -> (forall s, k <> CEnum s) ->
  (length (ix f) = phys_len f \/ Forall (fun p => p < phys_len f) (ix f)) ->
  exists g, apply_instr ut f (mkInstr (F0Const k) dst [] []) = Ok g /\ ferr g = true.
Proof.
  intros Hf Hn Hk Hix. unfold apply_instr. cbn [isrc1 isrc2 ifn idst empty_name length Nat.eqb]. unfold apply0. rewrite Hf.
  destruct (Nat.eqb (length (ix f)) (phys_len f)) eqn:El.
  - destruct k; cbn [const_col obind]; try (eexists; split; [reflexivity|apply set_column_bad_name; exact Hn]).
    exfalso. eapply Hk. reflexivity.
  - assert (Hin : Forall (fun p => p < phys_len f) (ix f)).
    { destruct Hix as [E|Hin]; [apply Nat.eqb_neq in El; contradiction|exact Hin]. }
    assert (G : forall t, t <> TEnum -> cell_type_ok t k = true ->
              exists g, (do cells <- scatter (repeat (zero_cell t) (phys_len f)) (ix f) (repeat k (length (ix f)));
                         do col <- col_of_cells t cells; Ok (set_column f dst col)) = Ok g /\ ferr g = true).
    { intros t Ht Hc. destruct (const_scatter_total t (phys_len f) (ix f) k Ht Hc Hin) as [cells [c [H1 H2]]].
      rewrite H1. cbn [obind]. rewrite H2. cbn [obind]. eexists. split; [reflexivity|apply set_column_bad_name; exact Hn]. }
    destruct k; cbn [const_type]; try (apply G; [discriminate|reflexivity]).
    exfalso. eapply Hk. reflexivity.
Qed.

Lemma new_frame_illegal_name data order enums :
  forallb (fun kv => check_name (fst kv)) data = false -> new_frame data order enums = Ok (mkFrame [] [] true).
Proof. intro H. unfold new_frame. rewrite H. reflexivity. Qed.

(* Eval: a malformed expression, an unknown column, an unknown function *)
Lemma eval_malformed ut cx f dst : ferr f = false -> eval ut cx f dst XError = Ok (with_err f).
Proof.
  intro Hf. unfold eval. rewrite Hf. cbn [execute]. rewrite Hf. cbn [obind].
  rewrite (copy_sticky (with_err f) dst [] eq_refl).
  destruct (negb (bytes_eqb [] dst) && negb (contains f [])); [apply f_equal; apply drop_sticky|]; reflexivity.
Qed.

Lemma eval_unknown_column ut cx f dst op col :
  ferr f = false -> lookup_col f col = None -> eval ut cx f dst (XUnary op col) = Ok (with_err f).
Proof.
  intros Hf Hl. unfold eval. rewrite Hf. cbn [execute]. unfold exec_unary, get_fn. rewrite Hf, Hl. cbn [ferr with_err obind].
  rewrite (copy_sticky (with_err f) dst [] eq_refl).
  destruct (negb (bytes_eqb [] dst) && negb (contains f [])); [apply f_equal; apply drop_sticky|]; reflexivity.
Qed.

Lemma eval_unknown_function ut cx f dst op col c :
  ferr f = false -> lookup_col f col = Some c -> get_func cx (col_ftype c) false op = None ->
  eval ut cx f dst (XUnary op col) = Ok (with_err f).
Proof.
  intros Hf Hl Hg. unfold eval. rewrite Hf. cbn [execute]. unfold exec_unary, get_fn. rewrite Hf, Hl, Hg. cbn [ferr with_err obind].
  rewrite (copy_sticky (with_err f) dst [] eq_refl).
  destruct (negb (bytes_eqb [] dst) && negb (contains f [])); [apply f_equal; apply drop_sticky|]; reflexivity.
Qed.

(* ------------------------------------------------------------------ a failed frame: no table is consulted *)

Lemma failed_filter_tables mt1 mt2 f c : ferr f = true -> frame_filter mt1 f c = frame_filter mt2 f c.
Proof. intro H. rewrite !filter_sticky by exact H. reflexivity. Qed.
Lemma failed_apply_tables ut1 ut2 f is1 is2 : ferr f = true -> apply ut1 f is1 = apply ut2 f is2.
Proof. intro H. rewrite !apply_sticky by exact H. reflexivity. Qed.
Lemma failed_filtered_apply_tables mt1 mt2 ut1 ut2 f c1 c2 is1 is2 :
  ferr f = true -> filtered_apply mt1 ut1 f c1 is1 = filtered_apply mt2 ut2 f c2 is2.
Proof. intro H. rewrite !filtered_apply_sticky by exact H. reflexivity. Qed.
Lemma failed_eval_tables ut1 ut2 cx1 cx2 f dst e1 e2 : ferr f = true -> eval ut1 cx1 f dst e1 = eval ut2 cx2 f dst e2.
Proof. intro H. rewrite !eval_sticky by exact H. reflexivity. Qed.

(* ------------------------------------------------------------------ the statements of Properties/C10.v *)

Theorem wf_slice f a b : wf_frame f = true -> wf_frame (slice f a b) = true.
Proof. rewrite !wf_frame_WF. apply slice_WF. Qed.
Theorem wf_select f ns : wf_frame f = true -> wf_frame (select f ns) = true.
Proof. rewrite !wf_frame_WF. apply select_WF. Qed.
Theorem wf_drop f ns : wf_frame f = true -> wf_frame (drop f ns) = true.
Proof. rewrite !wf_frame_WF. apply drop_WF. Qed.
Theorem wf_copy f d s : wf_frame f = true -> wf_frame (copy f d s) = true.
Proof. rewrite !wf_frame_WF. intro H. apply (copy_kept f d s H). Qed.

Theorem wf_filter mt f c g : wf_frame f = true -> frame_filter mt f c = Ok g -> wf_frame g = true.
Proof. rewrite !wf_frame_WF. intros H E. exact (proj2 (post_ok _ _ _ _ (frame_filter_post mt f c H) E)). Qed.
Theorem wf_apply ut f is g : wf_frame f = true -> apply ut f is = Ok g -> wf_frame g = true.
Proof. rewrite !wf_frame_WF. intros H E. exact (proj1 (post_ok _ _ _ _ (apply_post ut is f H) E)). Qed.
Theorem wf_filtered_apply mt ut f c is g : wf_frame f = true -> filtered_apply mt ut f c is = Ok g -> wf_frame g = true.
Proof. rewrite !wf_frame_WF. intros H E. exact (post_ok _ _ _ _ (filtered_apply_post mt ut f c is H) E). Qed.
Theorem wf_with_row_nums f name g : wf_frame f = true -> with_row_nums f name = Ok g -> wf_frame g = true.
Proof. rewrite !wf_frame_WF. intros H E. exact (proj1 (post_ok _ _ _ _ (with_row_nums_post f name H) E)). Qed.

(* no Panic, and more: there is a result frame (an invalid argument ends in a frame with Err set, see the
   [*_invalid]/[filter_*]/[apply_*] lemmas) *)
Theorem total_filter mt f c :
  wf_frame f = true -> clause_tables_ok mt f c -> exists g, frame_filter mt f c = Ok g /\ wf_frame g = true.
Proof.
  intros H HT. apply wf_frame_WF in H. destruct (post_total _ _ _ (frame_filter_post mt f c H) HT) as [g [E [_ Hg]]].
  exists g. split; [exact E|apply wf_frame_WF; exact Hg].
Qed.
Theorem total_apply ut f is :
  wf_frame f = true -> apply_tables_okb ut f is = true ->
  exists g, apply ut f is = Ok g /\ wf_frame g = true /\ ix g = ix f.
Proof.
  intros H HT. apply wf_frame_WF in H. destruct (post_total _ _ _ (apply_post ut is f H) HT) as [g [E [Hg [Hi _]]]].
  exists g. split; [exact E|]. split; [apply wf_frame_WF; exact Hg|exact Hi].
Qed.
Theorem total_filtered_apply mt ut f c is :
  wf_frame f = true -> filtered_apply_tables_ok mt ut f c is ->
  exists g, filtered_apply mt ut f c is = Ok g /\ wf_frame g = true.
Proof.
  intros H HT. apply wf_frame_WF in H. destruct (post_total _ _ _ (filtered_apply_post mt ut f c is H) HT) as [g [E Hg]].
  exists g. split; [exact E|apply wf_frame_WF; exact Hg].
Qed.
Theorem total_with_row_nums f name :
  wf_frame f = true -> exists g, with_row_nums f name = Ok g /\ wf_frame g = true /\ ix g = ix f.
Proof.
  intros H. apply wf_frame_WF in H. destruct (post_total _ _ _ (with_row_nums_post f name H) I) as [g [E [Hg [Hi _]]]].
  exists g. split; [exact E|]. split; [apply wf_frame_WF; exact Hg|exact Hi].
Qed.

(* ------------------------------------------------------------------ New *)

Lemma find_value_last_lt values s r : find_value_last values s = Some r -> N.to_nat r < length values.
Proof.
  unfold find_value_last.
  assert (G : forall (l : list (N * bytes)) acc r,
            fold_left (fun acc iv => if bytes_eqb (snd iv) s then Some (fst iv) else acc) l acc = Some r ->
            acc = Some r \/ In r (map fst l)).
  { induction l as [|iv l IH]; intros acc r0 H; simpl in H; [left; exact H|].
    apply IH in H. destruct H as [H|H]; [|right; right; exact H].
    destruct (bytes_eqb (snd iv) s); [inversion H; subst; right; left; reflexivity|left; exact H]. }
  intro H. apply G in H. destruct H as [H|H]; [discriminate|].
  assert (Hin : In r (map N.of_nat (seq 0 (length values)))).
  { revert H. generalize (map N.of_nat (seq 0 (length values))). intros l. revert values.
    induction l as [|x l IH]; intros [|v values] H; simpl in H; try contradiction.
    destruct H as [H|H]; [left; exact H|right; eapply IH; exact H]. }
  apply in_map_iff in Hin as [k [Hk Hs]]. apply in_seq in Hs. subst r. rewrite Nat2N.id. lia.
Qed.

Definition enum_state_ok (st : list bytes * list N) : Prop :=
  Forall (fun r => enum_rank_ok (fst st) r = true) (snd st) /\ length (fst st) <= N.to_nat c_maxCardinality.

Lemma rank_ok_app vals b r : enum_rank_ok vals r = true -> enum_rank_ok (vals ++ [b]) r = true.
Proof.
  unfold enum_rank_ok. intro H. apply orb_true_iff in H as [H|H]; apply orb_true_iff; [left; exact H|right].
  apply Nat.ltb_lt in H. apply Nat.ltb_lt. rewrite app_length. cbn [length]. lia.
Qed.

Lemma rank_ok_lt vals r : N.to_nat r < length vals -> enum_rank_ok vals r = true.
Proof. intro H. unfold enum_rank_ok. apply orb_true_iff. right. apply Nat.ltb_lt. exact H. Qed.

Lemma enum_step_post strict st s : enum_state_ok st -> postf enum_state_ok True (enum_step strict st s).
Proof.
  destruct st as [vals acc]. intros [Hr Hc]. cbn [fst snd] in *. unfold enum_step.
  destruct s as [b|].
  - destruct (find_value_last vals b) as [rk|] eqn:E.
    + cbn [postf]. split; cbn [fst snd]; [|exact Hc]. apply Forall_app. split; [exact Hr|].
      constructor; [|constructor]. apply rank_ok_lt. apply find_value_last_lt in E. exact E.
    + destruct strict; [exact I|].
      destruct (N.to_nat c_maxCardinality <=? length vals) eqn:El; [exact I|]. apply Nat.leb_gt in El.
      cbn [postf]. split; cbn [fst snd].
      * apply Forall_app. split.
        -- eapply Forall_impl; [|exact Hr]. intros r Hr0. apply rank_ok_app. exact Hr0.
        -- constructor; [|constructor]. apply rank_ok_lt. rewrite Nat2N.id, app_length. cbn [length]. lia.
      * rewrite app_length. cbn [length]. lia.
  - cbn [postf]. split; cbn [fst snd]; [|exact Hc]. apply Forall_app. split; [exact Hr|].
    constructor; [|constructor]. unfold enum_rank_ok, enum_is_null. rewrite N.eqb_refl. reflexivity.
Qed.

Lemma ofold_postf {A B} (g : B -> A -> outcome B) (Inv : B -> Prop) (T : Prop) (P : A -> Prop) :
  (forall b x, P x -> Inv b -> postf Inv T (g b x)) ->
  forall l b, Forall P l -> Inv b -> postf Inv T (ofold g l b).
Proof.
  intros Hg. induction l as [|x l IH]; intros b Hl Hb; [exact Hb|].
  rewrite ofold_cons. inversion Hl; subst. eapply postf_bind; [apply Hg; assumption|].
  intros b' _ Hb'. apply IH; assumption.
Qed.

Lemma Forall_True {A} (l : list A) : Forall (fun _ => True) l.
Proof. induction l; constructor; auto. Qed.

Lemma enum_new_post data values : postf (fun c => col_wf c = true) True (enum_new data values).
Proof.
  unfold enum_new. destruct (N.to_nat c_maxCardinality <? length values) eqn:E; [exact I|]. apply Nat.ltb_ge in E.
  destruct (negb (nodup_bytes values)); [exact I|].
  eapply postf_bind.
  - apply (ofold_postf _ enum_state_ok True (fun _ => True)); [intros b x _ Hb; apply enum_step_post; exact Hb|apply Forall_True|].
    split; [constructor|exact E].
  - intros [vals acc] _ [Hr Hc]. cbn [fst snd postf col_wf] in *. apply andb_true_iff. split.
    + apply forallb_forall. rewrite Forall_forall in Hr. exact Hr.
    + apply Nat.leb_le. exact Hc.
Qed.

Lemma repeat_rank_ok vals r n : enum_rank_ok vals r = true -> forallb (enum_rank_ok vals) (repeat r n) = true.
Proof. intro H. induction n; simpl; [reflexivity|]. rewrite H, IHn. reflexivity. Qed.

Lemma enum_new_const_post v n values : postf (fun c => col_wf c = true) True (enum_new_const v n values).
Proof.
  unfold enum_new_const. destruct (N.to_nat c_maxCardinality <? length values) eqn:E; [exact I|]. apply Nat.ltb_ge in E.
  destruct (negb (nodup_bytes values)); [exact I|].
  destruct v as [b|].
  - destruct (find_value_last values b) as [r|] eqn:Ef.
    + cbn [postf col_wf]. apply andb_true_iff. split; [|apply Nat.leb_le; exact E].
      apply repeat_rank_ok. apply rank_ok_lt. apply find_value_last_lt in Ef. exact Ef.
    + destruct (negb (length values =? 0)); [exact I|].
      destruct (N.to_nat c_maxCardinality <=? length values) eqn:El; [exact I|]. apply Nat.leb_gt in El.
      cbn [postf col_wf]. apply andb_true_iff. split.
      * apply repeat_rank_ok. apply rank_ok_lt. rewrite Nat2N.id, app_length. cbn [length]. lia.
      * apply Nat.leb_le. rewrite app_length. cbn [length]. lia.
  - cbn [postf col_wf]. apply andb_true_iff. split; [|apply Nat.leb_le; exact E].
    apply repeat_rank_ok. unfold enum_rank_ok, enum_is_null. rewrite N.eqb_refl. reflexivity.
Qed.

Lemma create_column_post d en : postf (fun c => col_wf c = true) True (create_column d en).
Proof.
  unfold create_column.
  destruct d as [x|x|x|x|x|v c|v c|v c|v c|]; try reflexivity; try exact I;
    try (destruct en; [apply enum_new_post|reflexivity]);
    try (destruct (c <? 0)%Z; [exact I|reflexivity]).
  destruct (c <? 0)%Z; [exact I|]. destruct en; [apply enum_new_const_post|reflexivity].
Qed.

Theorem new_frame_post data order enums : post WF True (new_frame data order enums).
Proof.
  assert (Herr : WF (mkFrame [] [] true)) by (split; constructor).
  unfold new_frame.
  destruct (negb (forallb (fun kv => check_name (fst kv)) data)); [exact Herr|].
  set (order' := match order with [] => sort_names (map fst data) | _ => order end).
  destruct (negb (length order' =? length data)); [exact Herr|].
  destruct (forallb (fun n => match assocb n data with Some _ => true | None => false end) order') eqn:Eall;
    [|exact Herr]. cbn [negb].
  destruct (negb (nodup_bytes order')); [exact Herr|].
  match goal with |- post _ _ (match ofold ?st order' ?init with _ => _ end) => set (step := st) end.
  pose (Inv := fun st : list (bytes * coldata) * nat * list bytes =>
                 wf_cols (snd (fst st)) (fst (fst st)) /\ (fst (fst st) = [] -> snd (fst st) = 0)).
  assert (Hstep : forall st n, (match assocb n data with Some _ => true | None => false end) = true ->
                               Inv st -> postf Inv True (step st n)).
  { intros [[acc first] used] n Hn [Hw H0]. cbn [fst snd] in *. unfold step.
    destruct (assocb n data) as [d|]; [|discriminate].
    eapply postf_bind; [apply create_column_post|]. intros c _ Hc.
    destruct (Nat.eqb (match acc with [] => col_len c | _ => first end) (col_len c)) eqn:Eq; [|exact I].
    apply Nat.eqb_eq in Eq. cbn [postf]. split; cbn [fst snd].
    - apply Forall_app. split.
      + destruct acc; [constructor|exact Hw].
      + constructor; [|constructor]. split; [cbn [snd]; symmetry; exact Eq|exact Hc].
    - intro Hnil. destruct acc; discriminate. }
  pose proof (ofold_postf step Inv True _ Hstep order' ([], 0, []) (forallb_Forall _ _ Eall)) as Hp.
  destruct (ofold step order' ([], 0, [])) as [[[cs len] used]| |]; cbn [postf post] in *.
  - destruct (negb (forallb (fun kv => existsb (bytes_eqb (fst kv)) used) enums)); [exact Herr|].
    destruct Hp as [Hw H0]; [split; [constructor|reflexivity]|]. cbn [fst snd] in *.
    assert (Hgoal : wf_cols (plen cs) cs /\ Forall (fun p => p < plen cs) (seq 0 len)); [|exact Hgoal].
    destruct cs as [|x cs].
    + rewrite (H0 eq_refl). split; constructor.
    + rewrite (wf_cols_plen _ _ Hw) by discriminate. split; [exact Hw|].
      apply Forall_forall. intros p Hp. apply in_seq in Hp. lia.
  - exact Herr.
  - apply Hp. split; [constructor|reflexivity].
Qed.

Theorem wf_new_frame data order enums g : new_frame data order enums = Ok g -> wf_frame g = true.
Proof. intro E. apply wf_frame_WF. exact (post_ok _ _ _ _ (new_frame_post data order enums) E). Qed.
Theorem total_new_frame data order enums : exists g, new_frame data order enums = Ok g /\ wf_frame g = true.
Proof.
  destruct (post_total _ _ _ (new_frame_post data order enums) I) as [g [E Hg]].
  exists g. split; [exact E|apply wf_frame_WF; exact Hg].
Qed.
