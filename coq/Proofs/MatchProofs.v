(* Proofs/MatchProofs.v — ToUpper equals "decode, map unicode.ToUpper, encode" for every buffer;
   NewMatcher/Matches follow the documented like/ilike rule; nulls never match; string and enum
   columns agree. *)
From QF Require Import Base.Prelude Model.Utf8 Model.Bits Model.Match Proofs.Utf8Proofs Proofs.BitsProofs.
Local Open Scope N_scope.

(* ------------------------------------------------------------------ buffers *)
Lemma firstn_set_nth {A} (b : list A) n x : (n < length b)%nat ->
  firstn (S n) (set_nth b n x) = firstn n b ++ [x].
Proof.
  revert n; induction b as [|y b IH]; intros [|n] H; cbn [length] in H; try lia; cbn.
  - reflexivity.
  - f_equal. apply IH. lia.
Qed.

Lemma store_ok b n x : (n < length b)%nat ->
  exists b', store b n x = Ok b' /\ length b' = length b /\ firstn (S n) b' = firstn n b ++ [x].
Proof.
  intro H. unfold store. destruct (Nat.ltb_spec n (length b)); [|lia].
  eexists; split; [reflexivity|]. split; [apply set_nth_length|apply firstn_set_nth; exact H].
Qed.

Lemma write_at_ok b off d : (off + length d <= length b)%nat ->
  exists b', write_at b off d = Ok b' /\ length b' = length b /\
             firstn (off + length d) b' = firstn off b ++ d.
Proof.
  intro H. unfold write_at. destruct (Nat.leb_spec (off + length d) (length b)); [|lia].
  eexists; split; [reflexivity|]. split.
  - rewrite !app_length, firstn_length, skipn_length. lia.
  - rewrite app_assoc. rewrite firstn_app.
    rewrite app_length, firstn_length.
    replace (off + length d - (Nat.min off (length b) + length d))%nat with 0%nat by lia.
    cbn [firstn]. rewrite app_nil_r. apply firstn_all2. rewrite app_length, firstn_length. lia.
Qed.

Lemma copy_into_ok dst src : (length src <= length dst)%nat ->
  length (copy_into dst src) = length dst /\ firstn (length src) (copy_into dst src) = src.
Proof.
  intro H. unfold copy_into. rewrite Nat.min_r by lia. rewrite firstn_all. split.
  - rewrite app_length, skipn_length. lia.
  - rewrite firstn_app, Nat.sub_diag, firstn_all. cbn [firstn]. apply app_nil_r.
Qed.

Lemma make_bytes_length n : length (make_bytes n) = n.
Proof. apply repeat_length. Qed.

Lemma slice_to_ok s n : (n <= length s)%nat -> slice_to s (Z.of_nat n) = Ok (firstn n s).
Proof.
  intro H. unfold slice_to.
  assert ((0 <=? Z.of_nat n)%Z && (Z.of_nat n <=? Z.of_nat (length s))%Z = true) as -> by lia.
  rewrite Nat2Z.id. reflexivity.
Qed.

Lemma slice_from_ok s n : (n <= length s)%nat -> slice_from s (Z.of_nat n) = Ok (skipn n s).
Proof.
  intro H. unfold slice_from.
  assert ((0 <=? Z.of_nat n)%Z && (Z.of_nat n <=? Z.of_nat (length s))%Z = true) as -> by lia.
  rewrite Nat2Z.id. reflexivity.
Qed.

(* ------------------------------------------------------------------ EncodeRune writes 1..4 bytes *)
Lemma encode_rune_length r : (1 <= length (encode_rune r) <= 4)%nat.
Proof.
  unfold encode_rune. cbv zeta.
  repeat match goal with |- context [if ?c then _ else _] => destruct c end; cbn [length]; lia.
Qed.

(* r < utf8.RuneSelf is exactly the condition under which one byte is the encoding *)
Lemma encode_ascii r : (0 <= r)%Z -> (r < 0x80)%Z -> encode_rune r = [to_byte (Z.to_N r)].
Proof.
  intros H0 H1. rewrite <- (Z2N.id r H0) at 1. rewrite enc1 by lia.
  unfold to_byte. rewrite land_FF. f_equal. symmetry. apply N.mod_small. lia.
Qed.

Example fast_path_bound_is_sharp : encode_rune 0x80 <> [to_byte (Z.to_N 0x80)].
Proof. vm_compute. discriminate. Qed.

(* ------------------------------------------------------------------ the second loop *)
Definition enc' (r : Z) : bytes := if (0 <=? r)%Z then encode_rune r else [].

Lemma flat_map_filter_enc (l : list Z) :
  flat_map encode_rune (filter (fun r => (0 <=? r)%Z) l) = flat_map enc' l.
Proof.
  induction l as [|r l IH]; [reflexivity|]. cbn [filter flat_map]. unfold enc' at 1.
  destruct (0 <=? r)%Z; cbn [flat_map app]; rewrite IH; reflexivity.
Qed.

Section ToUpperProofs.
  Variable up : N -> Z.

  Lemma tu_step_ok (b : bytes) nb c : (nb <= length b)%nat -> (4 <= length b)%nat ->
    exists b' nb', tu_step up b nb c = Ok (b', nb') /\ (nb' <= length b')%nat /\
                   (length b <= length b')%nat /\
                   firstn nb' b' = firstn nb b ++ enc' (up c).
  Proof.
    intros Hnb H4. unfold tu_step. cbv zeta. set (r := up c).
    destruct ((0 <=? r)%Z && (r <? Z.of_N rune_self)%Z && (nb <? length b)%nat) eqn:Fast.
    - (* common case: one byte *)
      unfold rune_self in Fast.
      assert ((0 <= r)%Z /\ (r < 0x80)%Z /\ (nb < length b)%nat) as (R0 & R1 & R2) by lia.
      destruct (store_ok b nb (to_byte (Z.to_N r)) R2) as (b' & E & Hl & Hf).
      exists b', (S nb). rewrite E. cbn [obind]. split; [reflexivity|]. split; [lia|]. split; [lia|].
      rewrite Hf. unfold enc'. destruct (Z.leb_spec 0 r); [|lia]. rewrite encode_ascii by lia. reflexivity.
    - destruct (Z.leb_spec 0 r) as [R0|R0].
      + (* general case, growing the buffer when fewer than UTFMax+1 bytes are left *)
        pose proof (encode_rune_length r) as Hd.
        assert (exists b1, (if (length b <=? nb + utf_max)%nat
                            then do pre <- slice_to b (Z.of_nat nb);
                                 Ok (copy_into (make_bytes (2 * length b)) pre)
                            else Ok b) = Ok b1 /\
                           (length b <= length b1)%nat /\ (nb + 4 <= length b1)%nat /\
                           firstn nb b1 = firstn nb b) as (b1 & E1 & Hl1 & Hs1 & Hf1).
        { unfold utf_max. destruct (Nat.leb_spec (length b) (nb + 4)).
          - rewrite slice_to_ok by lia. cbn [obind]. eexists. split; [reflexivity|].
            assert (length (firstn nb b) = nb) as Hfl by (rewrite firstn_length; lia).
            destruct (copy_into_ok (make_bytes (2 * length b)) (firstn nb b)) as [C1 C2].
            { rewrite make_bytes_length. lia. }
            rewrite C1, make_bytes_length. rewrite Hfl in C2. rewrite C2.
            repeat split; lia.
          - exists b. repeat split; try lia. }
        destruct (write_at_ok b1 nb (encode_rune r) ltac:(lia)) as (b2 & E2 & Hl2 & Hf2).
        exists b2, (nb + length (encode_rune r))%nat. rewrite E1. cbn [obind]. rewrite E2. cbn [obind].
        split; [reflexivity|]. split; [lia|]. split; [lia|].
        rewrite Hf2, Hf1. unfold enc'. destruct (Z.leb_spec 0 r); [reflexivity|lia].
      + exists b, nb. split; [reflexivity|]. split; [lia|]. split; [lia|].
        unfold enc'. destruct (Z.leb_spec 0 r); [lia|]. rewrite app_nil_r. reflexivity.
  Qed.

  Lemma tu_loop_ok cs : forall (b : bytes) nb, (nb <= length b)%nat -> (4 <= length b)%nat ->
    exists b' nb', tu_loop up cs b nb = Ok (b', nb') /\ (nb' <= length b')%nat /\
                   (length b <= length b')%nat /\
                   firstn nb' b' = firstn nb b ++ flat_map (fun c => enc' (up c)) cs.
  Proof.
    induction cs as [|c cs IH]; intros b nb Hnb H4.
    - exists b, nb. cbn [tu_loop flat_map]. rewrite app_nil_r. repeat split; lia.
    - destruct (tu_step_ok b nb c Hnb H4) as (b1 & nb1 & E1 & L1 & G1 & F1).
      destruct (IH b1 nb1 L1 ltac:(lia)) as (b2 & nb2 & E2 & L2 & G2 & F2).
      exists b2, nb2. cbn [tu_loop]. rewrite E1. cbn [obind fst snd]. rewrite E2.
      split; [reflexivity|]. split; [lia|]. split; [lia|].
      rewrite F2, F1. cbn [flat_map]. rewrite <- app_assoc. reflexivity.
  Qed.
End ToUpperProofs.

(* ------------------------------------------------------------------ the first loop *)
Lemma map_shift_shift a b l : map (shift a) (map (shift b) l) = map (shift (b + a)) l.
Proof.
  rewrite map_map. apply map_ext. intros [j c]. unfold shift. cbn [fst snd]. f_equal. lia.
Qed.

Lemma map_shift_0 l : map (shift 0) l = l.
Proof.
  rewrite <- (map_id l) at 2. apply map_ext. intros [j c]. unfold shift. cbn [fst snd]. f_equal. lia.
Qed.

Section FirstLoop.
  Variable up : N -> Z.
  Definition unchanged (c : N) : Prop := up c = Z.of_N c.

  Lemma first_changed_wf s cs : wf_utf8 s cs -> forall off,
    match first_changed up (map (shift off) (range_string s)) with
    | None => Forall unchanged cs
    | Some (i, c, r) =>
        exists p q pre post w,
          s = p ++ q /\ p = utf8_encode (map Z.of_N pre) /\ Forall unchanged pre /\
          i = (off + length p)%nat /\ seq_shape q c w /\ decode_rune q = (c, w) /\
          wf_utf8 (skipn w q) post /\ cs = pre ++ c :: post /\ r = up c /\ r <> Z.of_N c
    end.
  Proof.
    induction 1 as [|s c w cs Sh D W IH]; intro off.
    - cbn. constructor.
    - assert (Hne : s <> []) by (destruct Sh; subst; congruence).
      rewrite (range_string_step s Hne), D. cbn [fst snd map first_changed].
      unfold shift at 1. cbn [fst snd]. rewrite map_shift_shift.
      destruct (Z.eqb_spec (up c) (Z.of_N c)) as [E|E].
      + specialize (IH (w + off)%nat).
        destruct (first_changed up (map (shift (w + off)) (range_string (skipn w s))))
          as [[[i c'] r]|].
        * destruct IH as (p & q & pre & post & w' & E1 & E2 & E3 & E4 & E5 & E6 & E7 & E8 & E9 & E10).
          exists (encode_rune (Z.of_N c) ++ p), q, (c :: pre), post, w'.
          destruct (shape_encode _ _ _ Sh) as [Hen Hlen].
          repeat split; try assumption.
          -- rewrite <- app_assoc, <- E1. apply (wf_head _ _ _ Sh).
          -- unfold utf8_encode in *. cbn [map flat_map]. rewrite <- E2. reflexivity.
          -- constructor; assumption.
          -- rewrite app_length, Hlen. lia.
          -- rewrite E8. reflexivity.
        * constructor; assumption.
      + exists [], s, [], cs, w. repeat split; try assumption; try reflexivity.
        * constructor.
        * cbn [length]. lia.
  Qed.
End FirstLoop.

(* ------------------------------------------------------------------ ToUpper *)
Lemma unchanged_flat_map up pre : Forall (unchanged up) pre ->
  flat_map (fun c => enc' (up c)) pre = utf8_encode (map Z.of_N pre).
Proof.
  induction 1 as [|c pre Hc _ IH]; [reflexivity|].
  unfold utf8_encode in *. cbn [map flat_map]. rewrite IH. f_equal.
  unfold unchanged in Hc. rewrite Hc. unfold enc'. destruct (Z.leb_spec 0 (Z.of_N c)); [reflexivity|lia].
Qed.

Lemma upper_spec_decoded up s cs : utf8_decode s = cs ->
  upper_spec up s = flat_map (fun c => enc' (up c)) cs.
Proof.
  intros <-. unfold upper_spec, utf8_encode. rewrite flat_map_filter_enc.
  rewrite flat_map_concat_map, map_map, <- flat_map_concat_map. reflexivity.
Qed.

Theorem toupper_ok (up : N -> Z) (bp s : bytes) :
  utf8_valid s = true ->
  exists bp', to_upper up bp s = Ok (upper_spec up s, bp') /\
              (bp' = bp \/
               ((length s + 4 <= length bp')%nat /\
                firstn (length (upper_spec up s)) bp' = upper_spec up s)).
Proof.
  intro Hv. pose proof (valid_wf s Hv) as W. pose proof (wf_decode _ _ W) as Dcs.
  set (cs := utf8_decode s) in *.
  pose proof (first_changed_wf up s cs W 0%nat) as FC. rewrite map_shift_0 in FC.
  unfold to_upper. destruct (first_changed up (range_string s)) as [[[i c] r]|].
  - destruct FC as (p & q & pre & post & w & E1 & E2 & E3 & E4 & Sh & D & Wq & E8 & E9 & E10).
    cbn [Nat.add] in E4. subst i.
    pose proof (shape_width _ _ _ Sh) as [Hw1 Hw2].
    assert (Hls : length s = (length p + length q)%nat) by (rewrite E1; apply app_length).
    set (b0 := if (length s + utf_max <=? length bp)%nat then bp else make_bytes (length s + utf_max)).
    assert (Hb0 : (length s + 4 <= length b0)%nat).
    { subst b0. unfold utf_max. destruct (Nat.leb_spec (length s + 4) (length bp)); [lia|].
      rewrite make_bytes_length. lia. }
    rewrite slice_to_ok by lia. cbn [obind].
    assert (Hp : firstn (length p) s = p).
    { rewrite E1, firstn_app, Nat.sub_diag, firstn_all. cbn [firstn]. apply app_nil_r. }
    rewrite Hp.
    destruct (copy_into_ok b0 p ltac:(lia)) as [C1 C2].
    set (b1 := copy_into b0 p) in *.
    rewrite (Nat.min_r (length b0) (length p)) by lia.
    (* the first changed rune is written *)
    assert (exists b2 nb2,
               (if (0 <=? r)%Z
                then if (r <? Z.of_N rune_self)%Z
                     then do b2 <- store b1 (length p) (to_byte (Z.to_N r)); Ok (b2, S (length p))
                     else do b2 <- write_at b1 (length p) (encode_rune r);
                          Ok (b2, (length p + length (encode_rune r))%nat)
                else Ok (b1, length p)) = Ok (b2, nb2) /\
               length b2 = length b0 /\ (nb2 <= length b2)%nat /\
               firstn nb2 b2 = p ++ enc' r) as (b2 & nb2 & St & Hl2 & Hn2 & Hf2).
    { unfold enc'. destruct (Z.leb_spec 0 r) as [R0|R0].
      - pose proof (encode_rune_length r) as Hd. unfold rune_self.
        destruct (Z.ltb_spec r (Z.of_N 0x80)) as [R1|R1].
        + destruct (store_ok b1 (length p) (to_byte (Z.to_N r)) ltac:(lia)) as (b2 & E & Hl & Hf).
          exists b2, (S (length p)). rewrite E. cbn [obind]. split; [reflexivity|].
          split; [lia|]. split; [lia|]. rewrite Hf, C2. rewrite encode_ascii by lia. reflexivity.
        + destruct (write_at_ok b1 (length p) (encode_rune r) ltac:(lia)) as (b2 & E & Hl & Hf).
          exists b2, (length p + length (encode_rune r))%nat. rewrite E. cbn [obind].
          split; [reflexivity|]. split; [lia|]. split; [lia|]. rewrite Hf, C2. reflexivity.
      - exists b1, (length p). split; [reflexivity|]. split; [lia|]. split; [lia|].
        rewrite C2, app_nil_r. reflexivity. }
    rewrite St. cbn [obind fst snd].
    rewrite slice_from_ok by lia.
    assert (Hq : skipn (length p) s = q).
    { rewrite E1, skipn_app, Nat.sub_diag, skipn_all. reflexivity. }
    rewrite Hq. cbn [obind].
    (* the advance past the rune *)
    assert ((if c =? rune_error then Z.of_nat (snd (decode_rune q)) else rune_len (Z.of_N c))
            = Z.of_nat w) as ->.
    { destruct (c =? rune_error); [rewrite D; reflexivity|apply (shape_rune_len _ _ _ Sh)]. }
    rewrite <- Nat2Z.inj_add. rewrite slice_from_ok by lia. cbn [obind].
    assert (Hq2 : skipn (length p + w) s = skipn w q).
    { rewrite E1, skipn_app. rewrite skipn_all2 by lia. cbn [app]. f_equal. lia. }
    rewrite Hq2.
    pose proof (wf_decode _ _ Wq) as Dpost. unfold utf8_decode, utf8_sanitize in Dpost. rewrite Dpost.
    destruct (tu_loop_ok up post b2 nb2 Hn2 ltac:(lia)) as (b3 & nb3 & E3' & Hn3 & Hl3 & Hf3).
    rewrite E3'. cbn [obind fst snd]. rewrite slice_to_ok by lia. cbn [obind].
    assert (Hres : firstn nb3 b3 = upper_spec up s).
    { rewrite (upper_spec_decoded up s cs eq_refl), E8, flat_map_app. cbn [flat_map].
      rewrite (unchanged_flat_map up pre E3), <- E2, Hf3, Hf2, <- E9, <- app_assoc. reflexivity. }
    exists b3. rewrite Hres. split; [reflexivity|]. right. split; [lia|].
    rewrite <- Hres at 2. rewrite <- Hres. rewrite firstn_length, Nat.min_l by lia. reflexivity.
  - (* nothing changes: the string itself is returned and the buffer is not touched *)
    exists bp. split; [|left; reflexivity].
    rewrite (upper_spec_decoded up s cs eq_refl), (unchanged_flat_map up cs FC).
    rewrite (wf_encode _ _ W). reflexivity.
Qed.

Corollary toupper_buffer_independent (up : N -> Z) (bp1 bp2 s : bytes) :
  utf8_valid s = true ->
  exists b1 b2 res, to_upper up bp1 s = Ok (res, b1) /\ to_upper up bp2 s = Ok (res, b2).
Proof.
  intro Hv. destruct (toupper_ok up bp1 s Hv) as (b1 & E1 & _).
  destruct (toupper_ok up bp2 s Hv) as (b2 & E2 & _). eauto.
Qed.

(* successive calls, each seeing the buffer the previous one left behind *)
Fixpoint to_upper_seq (up : N -> Z) (bp : bytes) (ss : list bytes) : outcome (list bytes) :=
  match ss with
  | [] => Ok []
  | s :: ss' => do rb <- to_upper up bp s; do rs <- to_upper_seq up (snd rb) ss'; Ok (fst rb :: rs)
  end.

Corollary toupper_seq_ok (up : N -> Z) (ss : list bytes) : forall bp,
  Forall (fun s => utf8_valid s = true) ss ->
  to_upper_seq up bp ss = Ok (map (upper_spec up) ss).
Proof.
  induction ss as [|s ss IH]; intros bp H; [reflexivity|].
  inversion H as [|? ? Hs Hss]; subst. cbn [to_upper_seq map].
  destruct (toupper_ok up bp s Hs) as (bp' & E & _). rewrite E. cbn [obind fst snd].
  rewrite IH by assumption. reflexivity.
Qed.

(* ------------------------------------------------------------------ strings.HasPrefix & co., as propositions *)
Lemma has_prefix_spec s p : has_prefix s p = true <-> exists t, s = p ++ t.
Proof.
  revert s; induction p as [|x p IH]; intros s.
  - split; [intros _; exists s; reflexivity|intros _; destruct s; reflexivity].
  - destruct s as [|y s].
    + split; [discriminate|]. intros (t & E). discriminate.
    + cbn [has_prefix]. rewrite andb_true_iff, N.eqb_eq, IH. split.
      * intros (-> & t & ->). exists t. reflexivity.
      * intros (t & E). inversion E. subst. split; [reflexivity|]. exists t. reflexivity.
Qed.

Lemma has_suffix_spec s p : has_suffix s p = true <-> exists t, s = t ++ p.
Proof.
  unfold has_suffix. rewrite andb_true_iff, bytes_eqb_spec. split.
  - intros (H1 & H2). exists (firstn (length s - length p) s).
    rewrite <- (firstn_skipn (length s - length p) s) at 1. rewrite H2. reflexivity.
  - intros (t & ->). rewrite app_length. split; [lia|].
    replace (length t + length p - length p)%nat with (length t) by lia.
    rewrite skipn_app, Nat.sub_diag, skipn_all. reflexivity.
Qed.

Lemma contains_spec s p : contains s p = true <-> exists a b, s = a ++ p ++ b.
Proof.
  induction s as [|y s IH]; cbn [contains]; rewrite orb_true_iff, has_prefix_spec.
  - split.
    + intros [(t & E)|H]; [|discriminate]. exists [], t. exact E.
    + intros (a & b & E). left. destruct a; [exists b; exact E|discriminate].
  - rewrite IH. split.
    + intros [(t & E)|(a & b & E)]; [exists [], t; exact E|].
      exists (y :: a), b. rewrite E. reflexivity.
    + intros (a & b & E). destruct a as [|z a]; [left; exists b; exact E|].
      right. inversion E. exists a, b. reflexivity.
Qed.

(* ------------------------------------------------------------------ % flags, QuoteMeta, trimPercent *)
Lemma has_prefix_nil s : has_prefix s [] = true.
Proof. destruct s; reflexivity. Qed.

Lemma has_prefix_pct p : has_prefix p [c_percent] = starts_pct p.
Proof.
  unfold starts_pct, c_percent. destruct p as [|y p]; [reflexivity|]. cbn [has_prefix].
  rewrite has_prefix_nil, andb_true_r, N.eqb_sym. destruct (N.eqb_spec y 0x25) as [->|H]; [reflexivity|].
  destruct y as [|q]; [reflexivity|].
  repeat (destruct q as [q|q|]; try reflexivity). congruence.
Qed.

Lemma ends_pct_snoc p y : ends_pct (p ++ [y]) = (y =? 0x25).
Proof.
  unfold ends_pct. rewrite rev_app_distr. cbn [rev app].
  destruct (N.eqb_spec y 0x25) as [->|H]; [reflexivity|].
  destruct y as [|q]; [reflexivity|].
  repeat (destruct q as [q|q|]; try reflexivity). congruence.
Qed.

Lemma has_suffix_pct p : has_suffix p [c_percent] = ends_pct p.
Proof.
  destruct p as [|z p'] using rev_ind; [reflexivity|].
  rewrite ends_pct_snoc. unfold has_suffix, c_percent. rewrite app_length. cbn [length].
  replace (length p' + 1 - 1)%nat with (length p') by lia.
  rewrite skipn_app, Nat.sub_diag, skipn_all. cbn [skipn app bytes_eqb].
  rewrite andb_true_r. destruct (Nat.leb_spec 1 (length p' + 1)); [reflexivity|lia].
Qed.

Lemma special_is_meta b : special b = is_meta b.
Proof. reflexivity. Qed.

Lemma quote_meta_length p : (length p <= length (quote_meta p))%nat.
Proof.
  induction p as [|b p IH]; [cbn; lia|]. unfold quote_meta in *. cbn [flat_map].
  rewrite app_length. destruct (special b); cbn [length]; lia.
Qed.

Lemma is_regex_meta p : negb (bytes_eqb (quote_meta p) p) = existsb is_meta p.
Proof.
  induction p as [|b p IH]; [reflexivity|].
  cbn [existsb]. rewrite <- special_is_meta. unfold quote_meta in *. cbn [flat_map].
  destruct (special b) eqn:S; cbn [orb app].
  - apply negb_true_iff. apply not_true_is_false. intro E.
    apply bytes_eqb_spec in E. apply (f_equal (@length N)) in E. cbn [length] in E.
    pose proof (quote_meta_length p). unfold quote_meta in *. lia.
  - cbn [bytes_eqb]. rewrite N.eqb_refl. cbn [andb]. exact IH.
Qed.

Lemma trim_percent_core p : trim_percent p = pattern_core (starts_pct p) (ends_pct p) p.
Proof.
  unfold trim_percent, trim_prefix_pct, trim_suffix_pct, pattern_core.
  rewrite has_prefix_pct. destruct (starts_pct p) eqn:Fs.
  - rewrite has_suffix_pct.
    unfold starts_pct in Fs. destruct p as [|y t]; [discriminate|]. cbn [skipn].
    destruct t as [|z t' _] using rev_ind.
    + (* the pattern is the single character % *) destruct (ends_pct [y]); reflexivity.
    + rewrite app_comm_cons, !ends_pct_snoc. reflexivity.
  - rewrite has_suffix_pct. reflexivity.
Qed.

(* ------------------------------------------------------------------ NewMatcher / Matches *)
Definition with_buf (m : matcher) (b : bytes) : matcher := mkMatcher (m_kind m) (m_str m) b.

Lemma is_meta_pct : is_meta 0x25 = false.
Proof. reflexivity. Qed.

Section MatcherProofs.
  Variable up : N -> Z.
  Variable su : bytes -> bytes.
  Variable re : bytes -> bytes -> option bool.

  Lemma new_matcher_regex p cs : existsb is_meta p = true ->
    new_matcher su re p cs =
    match re (like_regex p cs) [] with
    | None => Fail
    | Some _ => Ok (mkMatcher KRegex (like_regex p cs) [])
    end.
  Proof.
    intro Hm. unfold new_matcher, like_regex. cbv zeta.
    rewrite is_regex_meta, Hm, has_prefix_pct, has_suffix_pct.
    destruct (starts_pct p) eqn:Fs; destruct (ends_pct p) eqn:Fe; cbn [negb].
    - unfold starts_pct in Fs. destruct p as [|y t]; [discriminate|].
      assert (y = 0x25) as -> by (destruct y as [|q]; [discriminate|];
                                  repeat (destruct q as [q|q|]; try discriminate); reflexivity).
      cbn [existsb] in Hm. rewrite is_meta_pct in Hm. cbn [orb] in Hm.
      assert (Ht : (1 <= length t)%nat) by (destruct t; [discriminate|cbn [length]; lia]).
      change 1%Z with (Z.of_nat 1). rewrite slice_from_ok by (cbn [length]; lia).
      cbn [skipn obind]. rewrite <- (Nat2Z.inj_sub _ 1) by lia. rewrite slice_to_ok by lia.
      cbn [obind pattern_core skipn]. rewrite app_nil_r. cbn [app].
      destruct cs; reflexivity.
    - unfold starts_pct in Fs. destruct p as [|y t]; [discriminate|].
      change 1%Z with (Z.of_nat 1). rewrite slice_from_ok by (cbn [length]; lia).
      cbn [skipn obind pattern_core app]. destruct cs; reflexivity.
    - assert (Hp : (1 <= length p)%nat) by (destruct p; [discriminate|cbn [length]; lia]).
      cbn [obind app length]. rewrite <- (Nat2Z.inj_sub _ 1) by lia. rewrite slice_to_ok by (cbn [length]; lia).
      cbn [obind pattern_core]. rewrite app_nil_r.
      replace (S (length p) - 1)%nat with (S (length p - 1)) by lia. cbn [firstn app].
      destruct cs; reflexivity.
    - cbn [obind pattern_core app]. destruct cs; reflexivity.
  Qed.

  Lemma new_matcher_literal p cs : existsb is_meta p = false ->
    new_matcher su re p cs =
    Ok (let q := if cs then p else su p in
        let buf := if cs then [] else make_bytes c_matcher_buf in
        match starts_pct p, ends_pct p with
        | true, true => mkMatcher (if cs then KContains else KCIContains) (trim_percent q) buf
        | true, false => mkMatcher (if cs then KSuffix else KCISuffix) (trim_percent q) buf
        | false, true => mkMatcher (if cs then KPrefix else KCIPrefix) (trim_percent q) buf
        | false, false => mkMatcher (if cs then KExact else KCIExact) q buf
        end).
  Proof.
    intro Hm. unfold new_matcher. cbv zeta.
    rewrite is_regex_meta, Hm, has_prefix_pct, has_suffix_pct.
    destruct cs, (starts_pct p), (ends_pct p); reflexivity.
  Qed.

  (* the error case, the choice of matcher and every answer follow the documented rule *)
  Theorem matcher_rule p cs :
    (forall pat s1 s2, re pat s1 = None -> re pat s2 = None) ->
    starts_pct (su p) = starts_pct p -> ends_pct (su p) = ends_pct p ->
    (new_matcher su re p cs = Fail /\ forall cell, like_spec up (su p) re p cs cell = None)
    \/
    (exists m, new_matcher su re p cs = Ok m /\
       forall buf cell, (cs = true \/ existsb is_meta p = true \/ utf8_valid cell = true) ->
         exists b buf', matches up re (with_buf m buf) cell = Ok (b, with_buf m buf') /\
                        like_spec up (su p) re p cs cell = Some b).
  Proof.
    intros Hre Hs He. destruct (existsb is_meta p) eqn:Hm.
    - (* regular expression *)
      rewrite (new_matcher_regex p cs Hm). unfold like_spec. rewrite Hm.
      destruct (re (like_regex p cs) []) as [b0|] eqn:C.
      + right. eexists. split; [reflexivity|]. intros buf cell _.
        destruct (re (like_regex p cs) cell) as [b|] eqn:M.
        * exists b, buf. unfold matches, with_buf. cbn [m_kind m_str m_buf]. rewrite M.
          split; reflexivity.
        * rewrite (Hre _ _ [] M) in C. discriminate.
      + left. split; [reflexivity|]. intros; reflexivity.
    - (* literal *)
      right. rewrite (new_matcher_literal p cs Hm). eexists. split; [reflexivity|].
      intros buf cell Hc. unfold like_spec. rewrite Hm.
      destruct cs.
      + (* like: plain comparisons *)
        rewrite (trim_percent_core p).
        destruct (starts_pct p), (ends_pct p); cbv zeta; unfold matches, with_buf;
          cbn [m_kind m_str m_buf]; eexists; exists buf; split; reflexivity.
      + (* ilike: the cell goes through ToUpper *)
        assert (Hv : utf8_valid cell = true) by (destruct Hc as [?|[?|?]]; [discriminate|discriminate|assumption]).
        destruct (toupper_ok up buf cell Hv) as (buf' & Eu & _).
        rewrite (trim_percent_core (su p)), Hs, He.
        destruct (starts_pct p), (ends_pct p); cbv zeta; unfold matches, with_buf;
          cbn [m_kind m_str m_buf]; rewrite Eu; cbn [obind fst snd];
          eexists; exists buf'; split; reflexivity.
  Qed.
End MatcherProofs.

(* ------------------------------------------------------------------ the enum bitset, any number of sets *)
Lemma pos_land_pow2 x k : (0 <? N.land x (2^k)) = N.testbit x k.
Proof.
  destruct (N.testbit x k) eqn:T.
  - assert (N.land x (2^k) = 2^k) as ->.
    { apply N.bits_inj. intro m. rewrite N.land_spec, N.pow2_bits_eqb.
      destruct (N.eqb_spec k m) as [<-|]; [rewrite T; reflexivity|apply andb_false_r]. }
    apply N.ltb_lt. apply N.neq_0_lt_0. apply N.pow_nonzero. discriminate.
  - assert (N.land x (2^k) = 0) as ->; [|reflexivity].
    apply N.bits_inj_0. intro m. rewrite N.land_spec, N.pow2_bits_eqb.
    destruct (N.eqb_spec k m) as [<-|]; [rewrite T; reflexivity|apply andb_false_r].
Qed.

Lemma u64_bit k : k < 64 -> u64 (N.shiftl 1 k) = 2^k.
Proof.
  intro H. unfold u64. rewrite N.shiftl_1_l. apply N.mod_small.
  apply N.pow_lt_mono_r; lia.
Qed.

Lemma land_63 v : N.land v 63 = v mod 64.
Proof. change 63 with (N.ones 6). apply N.land_ones. Qed.

Lemma isset_testbit s w :
  bitset_isset s w = N.testbit (nth (N.to_nat (w / 64)) s 0) (w mod 64).
Proof.
  unfold bitset_isset, Gen.GenConsts.c_bitset_isset_shift, Gen.GenConsts.c_bitset_isset_one,
    Gen.GenConsts.c_bitset_isset_mask, Gen.GenConsts.c_bitset_isset_cmp.
  rewrite N.shiftr_div_pow2, land_63. change (2^6) with 64.
  rewrite u64_bit by (apply N.mod_lt; discriminate). apply pos_land_pow2.
Qed.

Lemma nth_set_nth_eq {A} (l : list A) i v d : (i < length l)%nat -> nth i (set_nth l i v) d = v.
Proof.
  revert i; induction l as [|x l IH]; intros [|i] H; cbn [length] in H; try lia; cbn; auto.
  apply IH. lia.
Qed.

Lemma nth_set_nth_neq {A} (l : list A) i j v d : i <> j -> nth j (set_nth l i v) d = nth j l d.
Proof.
  revert i j; induction l as [|x l IH]; intros [|i] [|j] H; cbn; auto; try congruence.
Qed.

Lemma bitset_set_length s v : length (bitset_set s v) = length s.
Proof. unfold bitset_set. apply set_nth_length. Qed.

Lemma bitset_set_isset s v w : length s = 4%nat -> v < 256 -> w < 256 ->
  bitset_isset (bitset_set s v) w = (v =? w) || bitset_isset s w.
Proof.
  intros Hl Hv Hw. rewrite !isset_testbit.
  unfold bitset_set, Gen.GenConsts.c_bitset_set_shift, Gen.GenConsts.c_bitset_set_one,
    Gen.GenConsts.c_bitset_set_mask.
  rewrite N.shiftr_div_pow2, land_63. change (2^6) with 64.
  rewrite u64_bit by (apply N.mod_lt; discriminate).
  assert (v / 64 < 4) by (apply N.div_lt_upper_bound; lia).
  destruct (N.eq_dec (v / 64) (w / 64)) as [E|E].
  - rewrite <- E. rewrite nth_set_nth_eq by lia.
    rewrite N.lor_spec, N.pow2_bits_eqb, orb_comm. f_equal.
    pose proof (N.div_mod v 64 ltac:(discriminate)). pose proof (N.div_mod w 64 ltac:(discriminate)).
    destruct (N.eqb_spec (v mod 64) (w mod 64)); destruct (N.eqb_spec v w); try reflexivity; try lia.
  - rewrite nth_set_nth_neq by lia.
    destruct (N.eqb_spec v w) as [->|]; [congruence|reflexivity].
Qed.

Lemma isset_empty w : w < 256 -> bitset_isset bitset_empty w = false.
Proof.
  intro H. rewrite isset_testbit. unfold bitset_empty.
  assert (w / 64 < 4) by (apply N.div_lt_upper_bound; lia).
  destruct (N.to_nat (w / 64)) as [|[|[|[|n]]]] eqn:E; cbn [nth]; try apply N.bits_0. lia.
Qed.

(* ------------------------------------------------------------------ filter level *)
(* what a like/ilike filter must compute: entries already true stay true; otherwise the row's cell
   decides; [f] is the answer for a cell (a null cell included) *)
Inductive rows_ok (f : option bytes -> bool) (index : list nat) (col : list (option bytes)) :
  nat -> list bool -> list bool -> Prop :=
| ro_nil i : rows_ok f index col i [] []
| ro_cons i x bi res ix cell :
    nth_error index i = Some ix -> nth_error col ix = Some cell ->
    rows_ok f index col (S i) bi res ->
    rows_ok f index col i (x :: bi) ((x || f cell) :: res).

Lemma rows_ok_fun f index col i bi r1 r2 :
  rows_ok f index col i bi r1 -> rows_ok f index col i bi r2 -> r1 = r2.
Proof.
  intro H. revert r2. induction H as [|i x bi res ix cell H1 H2 H3 IH]; intros r2 H'.
  - inversion H'. reflexivity.
  - inversion H' as [|? ? ? res' ix' cell' H1' H2' H3']; subst.
    rewrite H1 in H1'. inversion H1'; subst. rewrite H2 in H2'. inversion H2'; subst.
    f_equal. apply IH. exact H3'.
Qed.

Definition cell_valid (c : option bytes) : Prop :=
  match c with Some s => utf8_valid s = true | None => True end.

(* the rows the filter looks at exist *)
Definition rows_in_range (index : list nat) {A} (col : list A) (i n : nat) : Prop :=
  forall k, (k < n)%nat -> exists ix cell, nth_error index (i + k) = Some ix /\ nth_error col ix = Some cell.

Section FilterProofs.
  Variable up : N -> Z.
  Variable re : bytes -> bytes -> option bool.
  Variable m0 : matcher.
  Variable spec : bytes -> bool.
  (* the matcher answers [spec] on valid UTF-8, whatever its buffer *)
  Hypothesis Hm : forall buf cell, utf8_valid cell = true ->
    exists buf', matches up re (with_buf m0 buf) cell = Ok (spec cell, with_buf m0 buf').

  Definition row_answer (c : option bytes) : bool :=
    match c with None => false | Some s => spec s end.

  Lemma rf_loop_ok index col : Forall cell_valid col ->
    forall bi i buf, rows_in_range index col i (length bi) ->
    exists res, rf_loop up re index col (with_buf m0 buf) i bi = Ok res /\
                rows_ok row_answer index col i bi res.
  Proof.
    intros Hcol. induction bi as [|x bi IH]; intros i buf Hr.
    - exists []. split; [reflexivity|constructor].
    - destruct (Hr 0%nat ltac:(cbn [length]; lia)) as (ix & cell & H1 & H2).
      rewrite Nat.add_0_r in H1.
      assert (Hr' : rows_in_range index col (S i) (length bi)).
      { intros k Hk. destruct (Hr (S k) ltac:(cbn [length]; lia)) as (ix' & c' & A & B).
        exists ix', c'. split; [|exact B]. rewrite <- A. f_equal. lia. }
      cbn [rf_loop]. destruct x.
      + destruct (IH (S i) buf Hr') as (res & E & R). rewrite E. cbn [obind].
        exists (true :: res). split; [reflexivity|].
        apply (ro_cons _ _ _ i true bi res ix cell H1 H2 R).
      + unfold idx. rewrite H1. cbn [of_option obind]. rewrite H2. cbn [of_option obind].
        destruct cell as [s|].
        * assert (Hv : utf8_valid s = true).
          { rewrite Forall_forall in Hcol. apply (Hcol (Some s)). eapply nth_error_In. exact H2. }
          destruct (Hm buf s Hv) as (buf' & Em). rewrite Em. cbn [obind fst snd].
          destruct (IH (S i) buf' Hr') as (res & E & R). rewrite E. cbn [obind].
          exists (spec s :: res). split; [reflexivity|].
          apply (ro_cons _ _ _ i false bi res ix (Some s) H1 H2 R).
        * destruct (IH (S i) buf Hr') as (res & E & R). rewrite E. cbn [obind].
          exists (false :: res). split; [reflexivity|].
          apply (ro_cons _ _ _ i false bi res ix None H1 H2 R).
  Qed.

  (* enum: the bitset holds exactly the ranks of the matching values *)
  Definition rank_answer (values : list bytes) (w : N) : bool :=
    match nth_error values (N.to_nat w) with Some v => spec v | None => false end.

  Lemma fl_loop_ok : forall values i buf bset,
    Forall (fun v => utf8_valid v = true) values ->
    (i + length values <= 256)%nat -> length bset = 4%nat ->
    exists bset', fl_loop up re (with_buf m0 buf) i values bset = Ok bset' /\ length bset' = 4%nat /\
      forall w, w < 256 ->
        bitset_isset bset' w =
        bitset_isset bset w ||
        ((N.of_nat i <=? w) && rank_answer values (w - N.of_nat i)).
  Proof.
    induction values as [|v vs IH]; intros i buf bset Hv Hi Hl.
    - exists bset. split; [reflexivity|]. split; [exact Hl|]. intros w Hw.
      unfold rank_answer. destruct (N.to_nat (w - N.of_nat i)); cbn [nth_error];
        rewrite andb_false_r, orb_false_r; reflexivity.
    - inversion Hv as [|? ? Hv1 Hv2]; subst. cbn [length] in Hi.
      destruct (Hm buf v Hv1) as (buf' & Em). cbn [fl_loop]. rewrite Em. cbn [obind fst snd].
      set (bset1 := if spec v then bitset_set bset (N.of_nat i mod 256) else bset).
      assert (Hl1 : length bset1 = 4%nat)
        by (subst bset1; destruct (spec v); [rewrite bitset_set_length|]; exact Hl).
      destruct (IH (S i) buf' bset1 Hv2 ltac:(lia) Hl1) as (bset' & E & Hl' & Hs).
      exists bset'. split; [exact E|]. split; [exact Hl'|]. intros w Hw. rewrite (Hs w Hw).
      assert (Hmod : N.of_nat i mod 256 = N.of_nat i) by (apply N.mod_small; lia).
      assert (H1 : bitset_isset bset1 w = bitset_isset bset w || ((N.of_nat i =? w) && spec v)).
      { subst bset1. destruct (spec v).
        - rewrite Hmod, bitset_set_isset by lia. rewrite andb_true_r, orb_comm. reflexivity.
        - rewrite andb_false_r, orb_false_r. reflexivity. }
      rewrite H1, <- orb_assoc. f_equal. unfold rank_answer.
      destruct (N.eqb_spec (N.of_nat i) w) as [<-|Hne].
      + rewrite N.sub_diag. cbn [N.to_nat nth_error].
        assert ((N.of_nat (S i) <=? N.of_nat i) = false) as -> by lia.
        assert ((N.of_nat i <=? N.of_nat i) = true) as -> by lia. cbn. rewrite orb_false_r. reflexivity.
      + cbn [andb orb]. destruct (N.leb_spec (N.of_nat (S i)) w) as [L|L].
        * assert ((N.of_nat i <=? w) = true) as -> by lia. cbn [andb].
          replace (N.to_nat (w - N.of_nat i)) with (S (N.to_nat (w - N.of_nat (S i)))) by lia.
          reflexivity.
        * assert ((N.of_nat i <=? w) = false) as -> by lia. reflexivity.
  Qed.

  Definition enum_cell (values : list bytes) (e : N) : option bytes :=
    if e =? 255 then None else nth_error values (N.to_nat e).

  Lemma fwb_loop_ok index values data bset :
    (length values <= 255)%nat ->
    Forall (fun e => e = 255 \/ (N.to_nat e < length values)%nat) data ->
    (forall w, w < 256 -> bitset_isset bset w = rank_answer values w) ->
    forall bi i, rows_in_range index data i (length bi) ->
    exists res, fwb_loop index data bset i bi = Ok res /\
                rows_ok row_answer index (map (enum_cell values) data) i bi res.
  Proof.
    intros Hlen Hdata Hb. induction bi as [|x bi IH]; intros i Hr.
    - exists []. split; [reflexivity|constructor].
    - destruct (Hr 0%nat ltac:(cbn [length]; lia)) as (ix & e & H1 & H2).
      rewrite Nat.add_0_r in H1.
      assert (Hr' : rows_in_range index data (S i) (length bi)).
      { intros k Hk. destruct (Hr (S k) ltac:(cbn [length]; lia)) as (ix' & c' & A & B).
        exists ix', c'. split; [|exact B]. rewrite <- A. f_equal. lia. }
      destruct (IH (S i) Hr') as (res & E & R).
      assert (H2' : nth_error (map (enum_cell values) data) ix = Some (enum_cell values e))
        by (rewrite nth_error_map, H2; reflexivity).
      cbn [fwb_loop]. destruct x.
      + rewrite E. cbn [obind]. exists (true :: res). split; [reflexivity|].
        apply (ro_cons _ _ _ i true bi res ix _ H1 H2' R).
      + unfold idx. rewrite H1. cbn [of_option obind]. rewrite H2. cbn [of_option obind].
        rewrite E. cbn [obind]. eexists. split; [reflexivity|].
        assert (He : bitset_isset bset e = row_answer (enum_cell values e)).
        { rewrite Forall_forall in Hdata. specialize (Hdata e (nth_error_In _ _ H2)).
          unfold enum_cell. destruct Hdata as [->|Hlt].
          - rewrite Hb by lia. unfold rank_answer. cbn [N.eqb Pos.eqb row_answer].
            destruct (nth_error values (N.to_nat 255)) eqn:En; [|reflexivity].
            assert (N.to_nat 255 < length values)%nat by (apply nth_error_Some; rewrite En; discriminate).
            lia.
          - rewrite Hb by lia. destruct (N.eqb_spec e 255); [lia|]. unfold rank_answer, row_answer.
            destruct (nth_error values (N.to_nat e)); reflexivity. }
        rewrite He. apply (ro_cons _ _ _ i false bi res ix _ H1 H2' R).
  Qed.
End FilterProofs.

(* ------------------------------------------------------------------ filters: theorems *)
Section FilterTheorems.
  Variable up : N -> Z.
  Variable su : bytes -> bytes.
  Variable re : bytes -> bytes -> option bool.
  Variable p : bytes.
  Variable cs : bool.
  Hypothesis Hre : forall pat s1 s2, re pat s1 = None -> re pat s2 = None.
  Hypothesis Hs : starts_pct (su p) = starts_pct p.
  Hypothesis He : ends_pct (su p) = ends_pct p.

  Let spec (s : bytes) : bool :=
    match like_spec up (su p) re p cs s with Some b => b | None => false end.

  Lemma with_buf_self (m : matcher) : with_buf m (m_buf m) = m.
  Proof. destruct m; reflexivity. Qed.

  Lemma matcher_answers m : new_matcher su re p cs = Ok m ->
    forall buf cell, utf8_valid cell = true ->
    exists buf', matches up re (with_buf m buf) cell = Ok (spec cell, with_buf m buf').
  Proof.
    intros Hn buf cell Hv.
    destruct (matcher_rule up su re p cs Hre Hs He) as [(F & _)|(m' & E & H)]; [congruence|].
    rewrite Hn in E. inversion E; subst m'.
    destruct (H buf cell (or_intror (or_intror Hv))) as (b & buf' & E1 & E2).
    exists buf'. unfold spec. rewrite E2. exact E1.
  Qed.

  Lemma string_like_m m index col bi : new_matcher su re p cs = Ok m ->
    Forall cell_valid col -> rows_in_range index col 0 (length bi) ->
    exists res, rf_loop up re index col m 0 bi = Ok res /\
                rows_ok (like_row_spec up (su p) re p cs) index col 0 bi res.
  Proof.
    intros E Hc Hr. rewrite <- (with_buf_self m).
    destruct (rf_loop_ok up re m spec (matcher_answers m E) index col Hc bi 0%nat (m_buf m) Hr)
      as (res & E1 & R).
    exists res. split; [exact E1|exact R].
  Qed.

  Lemma enum_like_m m index values data bi : new_matcher su re p cs = Ok m ->
    (length values <= 255)%nat ->
    Forall (fun v => utf8_valid v = true) values ->
    Forall (fun e => e = 255 \/ (N.to_nat e < length values)%nat) data ->
    rows_in_range index data 0 (length bi) ->
    exists res, (do bset <- fl_loop up re m 0 values bitset_empty; fwb_loop index data bset 0 bi) = Ok res /\
                rows_ok (like_row_spec up (su p) re p cs) index (map (enum_cell values) data) 0 bi res.
  Proof.
    intros E Hl Hv Hd Hr. rewrite <- (with_buf_self m).
    destruct (fl_loop_ok up re m spec (matcher_answers m E) values 0%nat (m_buf m) bitset_empty Hv
                         ltac:(lia) eq_refl) as (bset & E1 & Hl4 & Hb).
    rewrite E1. cbn [obind].
    assert (Hb' : forall w, w < 256 -> bitset_isset bset w = rank_answer spec values w).
    { intros w Hw. rewrite (Hb w Hw), (isset_empty w Hw). cbn [orb N.of_nat N.leb].
      rewrite N.sub_0_r. destruct w; reflexivity. }
    destruct (fwb_loop_ok up re m spec (matcher_answers m E) index values data bset Hl Hd Hb' bi 0%nat Hr)
      as (res & E2 & R).
    exists res. split; [exact E2|exact R].
  Qed.

  Theorem string_like_filter index col bi :
    Forall cell_valid col -> rows_in_range index col 0 (length bi) ->
    (regex_filter up su re index col p bi cs = Fail /\
       forall cell, like_spec up (su p) re p cs cell = None)
    \/
    (exists res, regex_filter up su re index col p bi cs = Ok res /\
                 rows_ok (like_row_spec up (su p) re p cs) index col 0 bi res).
  Proof.
    intros Hc Hr. unfold regex_filter.
    destruct (matcher_rule up su re p cs Hre Hs He) as [(F & Hn)|(m & E & _)].
    - left. rewrite F. split; [reflexivity|exact Hn].
    - right. rewrite E. cbn [obind]. apply (string_like_m m index col bi E Hc Hr).
  Qed.

  Theorem enum_like_filter_ok index values data bi :
    (length values <= 255)%nat ->
    Forall (fun v => utf8_valid v = true) values ->
    Forall (fun e => e = 255 \/ (N.to_nat e < length values)%nat) data ->
    rows_in_range index data 0 (length bi) ->
    (enum_like_filter up su re index values data p bi cs = Fail /\
       forall cell, like_spec up (su p) re p cs cell = None)
    \/
    (exists res, enum_like_filter up su re index values data p bi cs = Ok res /\
                 rows_ok (like_row_spec up (su p) re p cs) index (map (enum_cell values) data) 0 bi res).
  Proof.
    intros Hl Hv Hd Hr. unfold enum_like_filter, filter_like.
    destruct (matcher_rule up su re p cs Hre Hs He) as [(F & Hn)|(m & E & _)].
    - left. rewrite F. split; [reflexivity|exact Hn].
    - right. rewrite E. cbn [obind]. apply (enum_like_m m index values data bi E Hl Hv Hd Hr).
  Qed.

  (* a string column and an enum column holding the same values give the same answer *)
  Theorem string_enum_agree index values data bi :
    (length values <= 255)%nat ->
    Forall (fun v => utf8_valid v = true) values ->
    Forall (fun e => e = 255 \/ (N.to_nat e < length values)%nat) data ->
    rows_in_range index data 0 (length bi) ->
    regex_filter up su re index (map (enum_cell values) data) p bi cs
    = enum_like_filter up su re index values data p bi cs.
  Proof.
    intros Hl Hv Hd Hr.
    assert (Hc : Forall cell_valid (map (enum_cell values) data)).
    { apply Forall_forall. intros c Hin. apply in_map_iff in Hin as (e & <- & _).
      unfold enum_cell, cell_valid. destruct (e =? 255); [exact I|].
      destruct (nth_error values (N.to_nat e)) eqn:En; [|exact I].
      rewrite Forall_forall in Hv. apply Hv. eapply nth_error_In. exact En. }
    assert (Hr' : rows_in_range index (map (enum_cell values) data) 0 (length bi)).
    { intros k Hk. destruct (Hr k Hk) as (ix & e & A & B). exists ix, (enum_cell values e).
      split; [exact A|]. rewrite nth_error_map, B. reflexivity. }
    unfold regex_filter, enum_like_filter, filter_like.
    destruct (new_matcher su re p cs) as [m| |] eqn:Em; cbn [obind]; try reflexivity.
    destruct (string_like_m m index _ bi Em Hc Hr') as (r1 & E1 & R1).
    destruct (enum_like_m m index values data bi Em Hl Hv Hd Hr) as (r2 & E2 & R2).
    rewrite E1, E2. f_equal. eapply rows_ok_fun; eassumption.
  Qed.

  Lemma null_never_matches : like_row_spec up (su p) re p cs None = false.
  Proof. reflexivity. Qed.
End FilterTheorems.
